#!/bin/sh
# tools/run_all.sh <tier> <seed> : every check once, sequentially (4 at a time); prints one line per check
tier=${1:-quick}; seed=${2:-0}
cd "$(dirname "$0")/.." && mkdir -p .work
run() { c=$1; s=$(date +%s); VERIF_SEED=$seed ./check $c --tier $tier > .work/runall_${c}_${tier}_${seed}.out 2>&1; e=$?; echo "$c tier=$tier seed=$seed exit=$e $(( $(date +%s) - s ))s $(grep -c VIOLATION .work/runall_${c}_${tier}_${seed}.out) violations"; }
for grp in ${GROUPS_OVERRIDE:-"C01 C02" "C03 C04" "C05 C06" "C07 C08" "C09 C10" "C11 C12" "C13 C14" "C15 C16" "C17 C18" "C19 C20" "X01 X02" "X03"}; do
  for c in $grp; do run $c & done; wait
done
