#!/bin/sh
# tools/scratch_check.sh <check> [tier]   (env VERIF_REPO, VERIF_SEED honoured)
# runs one check from a scratch copy of /verif under /tmp, so that .work/ and evidence/ of /verif are not touched
# (used while another run is using /verif, and for runs against changed trees)
c=$1; tier=${2:-quick}
d=$(mktemp -d /tmp/vscratch_XXXXXX)
rsync -a --exclude .work --exclude .git --exclude evidence "$(dirname "$0")/.."/ $d/ && mkdir -p $d/.work $d/evidence
(cd $d && ./check $c --tier $tier); rc=$?
rm -rf $d
exit $rc
