#!/venv/bin/python
"""Evaluate a seeded change: tools/seed_eval.py <seed dir> <worktree> [--tier quick|thorough] [--checks C01,C02]
Confirms (tests still pass, demo fails with / passes without the change) and runs the property check against it."""
import json, os, subprocess, sys, time

seed, wt = sys.argv[1], sys.argv[2]
tier = "quick"
checks = None
if "--tier" in sys.argv:
    tier = sys.argv[sys.argv.index("--tier") + 1]
if "--checks" in sys.argv:
    checks = sys.argv[sys.argv.index("--checks") + 1].split(",")
meta = json.load(open(os.path.join(seed, "meta.json")))
prop = meta["property"]
checks = checks or [prop]


def sh(cmd, **kw):
    return subprocess.run(cmd, shell=True, capture_output=True, text=True, **kw)


sh(f"git -C {wt} checkout -q -- . && git -C {wt} clean -fdq")
r = sh(f"git -C {wt} apply {seed}/patch.diff")
res = {"seed": seed, "property": prop, "applies": r.returncode == 0}
if r.returncode != 0:
    print(json.dumps(res)); sys.exit(0)
t = sh(f"cd {wt} && timeout 900 /venv/bin/python -m pytest -q -p no:cacheprovider --timeout=900 tests 2>&1 | tail -1")
res["tests"] = t.stdout.strip()
res["tests_ok"] = "558 passed" in t.stdout and "68 failed" in t.stdout
d = sh(f"cd {seed} && PYTHONPATH={wt} timeout 600 /venv/bin/python demo.py")
res["demo_fails_with_change"] = d.returncode != 0
import tempfile, shutil
vcopy = tempfile.mkdtemp(prefix="seedeval_", dir="/tmp")      # a scratch copy of /verif: evidence/ and .work/ of /verif stay untouched
sh(f"rsync -a --exclude .work --exclude .git --exclude evidence /verif/ {vcopy}/ && mkdir -p {vcopy}/.work {vcopy}/evidence")
for c in checks:
    t0 = time.time()
    k = sh(f"cd {vcopy} && VERIF_REPO={wt} VERIF_SEED={os.environ.get('VERIF_SEED','0')} timeout 3000 ./check {c} --tier {tier}")
    res[f"check_{c}"] = {"exit": k.returncode, "wall_s": round(time.time() - t0), "first": next((l for l in k.stdout.splitlines() if l.startswith("  ") or "MACHINERY" in l), "")[:260]}
shutil.rmtree(vcopy, ignore_errors=True)
sh(f"git -C {wt} checkout -q -- . && git -C {wt} clean -fdq")
d2 = sh(f"cd {seed} && PYTHONPATH={wt} timeout 600 /venv/bin/python demo.py")
res["demo_passes_without_change"] = d2.returncode == 0
print(json.dumps(res, indent=1))
