#!/opt/veriftools/pyvenv/bin/python
"""Validates MANIFEST.json and every evidence file against the schemas in /root/.vp."""
import json, sys, glob
import jsonschema
ok = True
def v(path, schema):
    global ok
    try:
        jsonschema.validate(json.load(open(path)), json.load(open(schema)))
        print("ok  ", path)
    except Exception as e:
        ok = False
        print("FAIL", path, str(e)[:300])
v('/verif/MANIFEST.json', '/root/.vp/MANIFEST.schema.json')
for f in sorted(glob.glob('/verif/evidence/*.json')):
    v(f, '/root/.vp/EVIDENCE.schema.json')
sys.exit(0 if ok else 1)
