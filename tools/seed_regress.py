#!/venv/bin/python
"""Self-validation of the checks against every kept seeded change: tools/seed_regress.py [--jobs N] [--only C04,C10] [--tier quick]

For each /verif/seeded/<id>: a scratch worktree of /repo (under /tmp, removed afterwards) gets patch.diff applied and the
quick check of the broken property is run against it (VERIF_REPO=<worktree>); expected exit 1.  Seeds whose patch no longer
applies to the current tree (the code they touched was repaired since) are reported as such, not counted as misses.
Evidence files are written to a scratch copy of /verif so that /verif/evidence stays the evidence of the unchanged tree.
Prints one line per seed and a summary; exit 0 iff no applicable seed is missed."""
import glob
import json
import os
import shutil
import subprocess
import sys
import tempfile
import time
from concurrent.futures import ThreadPoolExecutor

VERIF = os.path.dirname(os.path.dirname(os.path.abspath(__file__)))
REPO = os.environ.get("VERIF_REPO", "/repo")
args = sys.argv[1:]
jobs = int(args[args.index("--jobs") + 1]) if "--jobs" in args else 4
only = args[args.index("--only") + 1].split(",") if "--only" in args else None
tier = args[args.index("--tier") + 1] if "--tier" in args else "quick"


def sh(cmd, **kw):
    return subprocess.run(cmd, shell=True, capture_output=True, text=True, **kw)


def by_property():
    groups = {}
    for d in sorted(glob.glob(os.path.join(VERIF, "seeded", "*"))):
        meta = json.load(open(os.path.join(d, "meta.json")))
        prop = meta.get("breaks_property") or meta["property"]
        if only and prop not in only:
            continue
        groups.setdefault(prop, []).append((os.path.basename(d), d))
    return groups


def run_group(item):
    prop, seeds = item
    base = tempfile.mkdtemp(prefix=f"seedreg_{prop}_", dir="/tmp")
    wt, vcopy = os.path.join(base, "repo"), os.path.join(base, "verif")
    out = []
    try:
        r = sh(f"git -C {REPO} worktree add --detach {wt} HEAD")
        if r.returncode:
            return [(name, "machinery", r.stderr.strip()[:200], 0) for name, _ in seeds]
        # uncommitted changes of the tree under test are part of "the current tree"
        sh(f"git -C {REPO} diff HEAD | git -C {wt} apply --allow-empty")
        sh(f"rsync -a --exclude .work --exclude .git --exclude evidence {VERIF}/ {vcopy}/ && mkdir -p {vcopy}/.work {vcopy}/evidence")
        for name, d in seeds:
            t0 = time.time()
            a = sh(f"git -C {wt} apply {d}/patch.diff")
            if a.returncode:
                out.append((name, "patch-no-longer-applies", a.stderr.strip().splitlines()[0][:160] if a.stderr.strip() else "", 0))
                continue
            k = sh(f"cd {vcopy} && VERIF_REPO={wt} VERIF_SEED={os.environ.get('VERIF_SEED', '0')} timeout 3000 ./check {prop} --tier {tier}")
            first = next((l.strip() for l in k.stdout.splitlines() if l.startswith("  ") or "MACHINERY" in l), "")[:200]
            status = {0: "MISSED", 1: "detected"}.get(k.returncode, f"exit-{k.returncode}")
            out.append((name, status, first, round(time.time() - t0)))
            sh(f"git -C {wt} checkout -q -- . && git -C {wt} clean -fdq")
    finally:
        sh(f"git -C {REPO} worktree remove --force {wt}; git -C {REPO} worktree prune")
        shutil.rmtree(base, ignore_errors=True)
    return out


def main():
    groups = by_property()
    with ThreadPoolExecutor(jobs) as ex:
        results = [x for res in ex.map(run_group, sorted(groups.items())) for x in res]
    bad = 0
    for name, status, first, wall in results:
        print(f"{name:12s} {status:26s} {wall:5d}s  {first}")
        bad += status not in ("detected", "patch-no-longer-applies")
    n = len(results)
    print(f"SUMMARY seeds={n} detected={sum(s == 'detected' for _, s, _, _ in results)} "
          f"stale={sum(s == 'patch-no-longer-applies' for _, s, _, _ in results)} not_detected={bad}")
    return 1 if bad else 0


if __name__ == "__main__":
    sys.exit(main())
