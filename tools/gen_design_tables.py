#!/venv/bin/python
"""Regenerates the findings table (section 14) and the seeded-change table (section 15) of DESIGN.md from
known_findings.json and seeded/*/meta.json (between the <!-- BEGIN/END --> markers)."""
import glob, json, os, re
p = '/verif/DESIGN.md'
s = open(p).read()
kf = json.load(open('/verif/known_findings.json'))['findings']
rows = ["| Property | Commit | What failed |", "|----------|--------|-------------|"]
for f in kf:
    rows.append(f"| {f['property']} | `{f['commit']}` | {f['what'].split(f['commit'], 1)[1].strip()} |")
seeds = ["| Seed | Change | Needs | Check result | Missed at first? what was added |", "|------|--------|-------|--------------|------|"]
n = det = 0
for d in sorted(glob.glob('/verif/seeded/*')):
    m = json.load(open(d + '/meta.json'))
    cr = m['checks_run']
    n += 1
    det += all(v['detected'] for v in cr.values())
    res = ", ".join(f"{c} ({'detected' if v['detected'] else 'MISSED'})" for c, v in cr.items())
    seeds.append(f"| `{os.path.basename(d)}` | {m['summary'][:150].replace('|', '/')} | {m['needs'][:140].replace('|', '/')} | {res} | {m.get('strengthening', '').replace('|', '/')} |")
def put(tag, body):
    global s
    b, e = f"<!-- BEGIN {tag} -->", f"<!-- END {tag} -->"
    if b in s:
        s = re.sub(re.escape(b) + r".*?" + re.escape(e), lambda _: b + "\n" + body + "\n" + e, s, flags=re.S)
    else:
        raise SystemExit("marker missing: " + tag)
put("FINDINGS", "\n".join(rows))
put("SEEDS", f"{n} seeded changes, {det} detected by the quick tier of their property's check.\n\n" + "\n".join(seeds))
open(p, 'w').write(s)
print("findings", len(kf), "seeds", n, "detected", det)
