#!/venv/bin/python
"""Regenerates the findings table (section 14) and the seeded-change table (section 15) of DESIGN.md from
known_findings.json and seeded/*/meta.json (between the <!-- BEGIN/END --> markers)."""
import glob, json, os, re
p = '/verif/DESIGN.md'
s = open(p).read()
kf = json.load(open('/verif/known_findings.json'))['findings']
rows = ["| Property | Commit | What failed |", "|----------|--------|-------------|"]
for f in kf:
    rows.append(f"| {f['property']} | `{f['commit']}` | {f['what'].split(f['commit'], 1)[1].strip()} |")
seeds = ["| Seed | Change | Needs | Check result | Missed at first? what was added |", "|------|--------|-------|--------------|------|"]
n = det = 0
for d in sorted(glob.glob('/verif/seeded/*')):
    m = json.load(open(d + '/meta.json'))
    cr = m['checks_run']
    n += 1
    det += all(v['detected'] for v in cr.values())
    res = ", ".join(f"{c} ({'detected' if v['detected'] else 'MISSED'})" for c, v in cr.items())
    seeds.append(f"| `{os.path.basename(d)}` | {m['summary'][:150].replace('|', '/')} | {m['needs'][:140].replace('|', '/')} | {res} | {m.get('strengthening', '').replace('|', '/')} |")
def put(tag, body):
    global s
    b, e = f"<!-- BEGIN {tag} -->", f"<!-- END {tag} -->"
    if b in s:
        s = re.sub(re.escape(b) + r".*?" + re.escape(e), lambda _: b + "\n" + body + "\n" + e, s, flags=re.S)
    else:
        raise SystemExit("marker missing: " + tag)
# status table from the evidence files (quick) and, if present, the log of a complete thorough run (tools/run_all.sh output)
status = ["| Id | quick wall | thorough wall | evaluations | distinct non-trivial | traces validated against the code | TLC states |",
          "|----|-----------:|--------------:|------------:|---------------------:|----------------------------------:|-----------:|"]
thor = {}
for cand in sorted(glob.glob('/root/.vp/runs/*/log')):
    for line in open(cand, errors="replace"):
        m = re.match(r"(\w+) tier=thorough seed=\d+ exit=(\d+) (\d+)s", line)
        if m and m.group(2) == "0":
            thor[m.group(1)] = m.group(3) + " s"
for d, ids in (("/verif/evidence", [f"C{i:02d}" for i in range(1, 21)]), ("/verif/evidence_extended", ["X01", "X02", "X03"])):
    for pid in ids:
        f = f"{d}/{pid}.json"
        if not os.path.exists(f):
            continue
        e = json.load(open(f))
        c = e["coverage"]
        if e["tier"] != "quick":
            continue
        status.append(f"| {pid} | {round(e['wall_s'])} s | {thor.get(pid, '-')} | {c.get('evaluations', 0)} | {c.get('distinct_nontrivial', 0)} | "
                      f"{c.get('traces_validated_against_impl', 0)} | {c.get('states', 0)} |")
put("STATUS", "\n".join(status))
put("FINDINGS", "\n".join(rows))
put("SEEDS", f"{n} seeded changes, {det} detected by the quick tier of their property's check.\n\n" + "\n".join(seeds))
open(p, 'w').write(s)
print("findings", len(kf), "seeds", n, "detected", det)
