#!/bin/sh
# usage: tools/mut.sh <property> '<python expr on source string s of file F>' F   -- ad-hoc mutant run in a scratch copy
# e.g. tools/mut.sh C04 cspuz/graph.py 's.replace("a","b",1)'
set -e
D=/tmp/mutrepo.$$
rm -rf $D; mkdir -p $D; cp -r /repo/cspuz $D/cspuz
/venv/bin/python - "$D/$2" "$3" <<'PY'
import sys
p, expr = sys.argv[1], sys.argv[2]
s = open(p).read()
t = eval(expr)
assert t != s, "mutation did not change the file"
open(p, "w").write(t)
PY
cd /verif && VERIF_REPO=$D ./check $1 --tier ${TIER:-quick} | tail -${LINES_OUT:-6}; echo "exit=$?"
rm -rf $D
