#!/venv/bin/python
"""Writes MANIFEST.json from the table below (one place to keep it valid)."""
import json
import subprocess
from pathlib import Path

VERIF = Path(__file__).resolve().parent.parent
PROPS = [json.loads(l) for l in (VERIF / "properties.jsonl").read_text().splitlines() if l.strip()]

CHECKS = {
    "C01": dict(
        technique="TLA+ session state machine (SolverSM) + TLC trace validation of real executions",
        text="TLC enumerates/simulates behaviours of the SolverSM specification (every depth<=1 operator form x operand kind x operand order; interleaved declare/ensure/solve histories), each behaviour is executed on the real Solver (z3 backend) together with seeded random deep sessions, and every recorded event is judged by TLC against the specification (satisfiability verdict by exhaustive pruned search of the declared domains, returned sol checked as a model with Python types). Bounded exhaustive + sampled: finds any operator mistranslation or lost constraint that manifests on small domains.",
        note="trusted: TLC, CspSem.tla Eval (the written-down meaning), the 60-line exporter/driver (harness/dx.py, export.py); z3-solver 5.1 is the only real solving path offline; scopes bounded (<=6 vars, domain product <=300/7000, depth<=4)",
        ref="DESIGN.md 5 C01"),
}

NOT_APPLICABLE = {}


def main():
    head = subprocess.run(["git", "-C", "/repo", "log", "--format=%h %s"], capture_output=True, text=True).stdout
    hook_commits = [l.split()[0] for l in head.splitlines() if l.split(" ", 1)[1].startswith("verif-hook:")]
    checks = []
    for p in PROPS:
        pid = p["id"]
        if pid not in CHECKS:
            continue
        c = CHECKS[pid]
        checks.append({
            "property_id": pid,
            "quick_cmd": f"./check {pid} --tier quick",
            "thorough_cmd": f"./check {pid} --tier thorough",
            "evidence_file": f"/verif/evidence/{pid}.json",
            "replay_cmd_template": f"./check {pid} --replay {{path}}",
            "engine": "tlc",
            "level_claimed": {"category": c.get("category", "model_checking"), "text": c["text"],
                              "design_ref": c["ref"]},
            "level_note": c["note"],
            "technique": c["technique"],
        })
    na = [{"property_id": p["id"], "reason": NOT_APPLICABLE.get(p["id"], "check not built yet (work in progress, see DESIGN.md 10)")}
          for p in PROPS if p["id"] not in CHECKS]
    man = {
        "version": 1,
        "setup_cmd": "./setup.sh",
        "hooks": {
            "guard": "CSPUZ_VERIF",
            "enable": "no source hooks are needed: checks import /repo's working tree (PYTHONPATH=$VERIF_REPO, default /repo) and observe through public API, substitutable backends/modules and caller-supplied callbacks",
            "baseline_off_cmd": "cd /repo && /venv/bin/python -m pytest -ra -q -p no:cacheprovider --timeout=900 --continue-on-collection-errors",
            "source_commits": hook_commits,
            "add_only": True,
        },
        "engines": [
            {"name": "tlc", "path": "/verif/spec", "serves_properties": [c["property_id"] for c in checks],
             "kind_free_text": "explicit TLA+ specification checked by TLC 1.8.0; bound to the code by replaying TLC-generated behaviours into the real code and by validating NDJSON traces of the real code against trace specifications"},
        ],
        "checks": checks,
        "not_applicable": na,
        "notes": "Entry point ./check <id> --tier quick|thorough. Exit 0 = held, 1 = VIOLATION line, 2 = machinery failure. known_findings.json lists genuine defects (fixed / open).",
    }
    (VERIF / "MANIFEST.json").write_text(json.dumps(man, indent=1) + "\n")
    print("checks:", [c["property_id"] for c in checks], "not_applicable:", [x["property_id"] for x in na])


main()
