#!/venv/bin/python
"""Writes MANIFEST.json from the table below (one place to keep it valid)."""
import json
import subprocess
from pathlib import Path

VERIF = Path(__file__).resolve().parent.parent
PROPS = [json.loads(l) for l in (VERIF / "properties.jsonl").read_text().splitlines() if l.strip()]

CHECKS = {
    "C01": dict(
        technique="TLA+ session state machine (SolverSM) + TLC trace validation of real executions",
        text="TLC enumerates/simulates behaviours of the SolverSM specification (every depth<=1 operator form x operand kind x operand order; interleaved declare/ensure/solve histories; domains negative, singleton, wide and empty), each behaviour is executed on the real Solver (z3 backend) together with seeded random deep sessions, and every recorded event is judged by TLC against the specification (satisfiability verdict by exhaustive pruned search of the declared domains, returned sol checked as a model with Python types). Bounded exhaustive + sampled: finds any operator mistranslation or lost constraint that manifests on small domains.",
        note="trusted: TLC, CspSem.tla Eval (the written-down meaning), the 60-line exporter/driver (harness/dx.py, export.py); z3-solver 5.1 is the only real solving path offline; scopes bounded (<=6 vars, domain product <=300/7000, depth<=4)",
        ref="DESIGN.md 5 C01"),
    "C02": dict(
        technique="TLA+ refinement-loop spec (SolveLoop) model-checked; behaviours replayed through an adversarial policy backend; traces judged by TLC",
        text="SolveLoop.tla models Solver.solve's refute/re-solve/demote loop with a nondeterministic correct backend; TLC proves Exact/DemotionSound/Progress/termination for every model set over a 3-variable universe, every key subset and every backend choice sequence (34 744 behaviours). Each behaviour drives the real Solver.solve through a policy backend that answers correctly for the clauses it actually receives; the recorded conversation and final ret/sol are judged by TLC (Trace_SolveLoop). In addition z3 sessions with solve() are judged by Trace_Session (facts from all models of the driver's meaning).",
        note="trusted: TLC, CspSem!Eval, the policy backend (its answers are re-checked by TLC per run), the stand-in native solver and the scripted sugar conversation (collaborators that answer from the exported program); all three routes (z3, sugar executable, native deduction) are run; 3-variable universe exhaustive, 4-variable sampled (thorough); large programs judged by witness",
        ref="DESIGN.md 5 C02"),
    "C04": dict(
        technique="TLC enumerates graphs x patterns with the definitional verdict (GraphDefs); replay into real helper + z3; emitted native program judged by TLC (Trace_Emit)",
        text="Every labelled graph on <=4 vertices, a catalogue to 8 vertices and grids to 3x4: ALL 2^n activity patterns, acyclic on/off, is_active as variables / negated / compound / constants / arrays, edges written and added in several orders, one Graph object per job. Verdict of the real encoding (z3) must equal Connected/IsTree computed by TLC; the native-primitive program is exported and decided by TLC for every pattern. Small-scope exhaustive, plus scale-up objects (300-cell line, 17x17 board) with hand-shaped patterns judged by Trace_Patterns.",
        note="trusted: GraphDefs.tla definitions, TLC, z3 as the solving path for the auxiliary-variable encoding; native operator meaning = CspSem!EvalGraphConn (no native solver offline)",
        ref="DESIGN.md 5 C04"),
    "C05": dict(
        technique="TLC enumerates labelings with DivOK (GraphDefs); replay into division_connected + z3; native program judged by TLC",
        text="Graphs <=4 vertices + catalogue + grids, num_regions 1..3, all R^n labelings (pinned through constraints, or given as Python ints in whole or in part), 6 roots options (incl. lists longer than num_regions), allow_empty on/off, both encodings; verdict must equal the definition for every labeling.",
        note="as C04; label variables declared 0..R-1",
        ref="DESIGN.md 5 C05"),
    "C06": dict(
        technique="TLC enumerates edge subsets with SingleCycle/SinglePath/Touched; replay + z3 (returned array through solve()); native programs judged by TLC",
        text="Loop-free multigraphs (parallel edges), simple graphs <=4 vertices, catalogue, grid frames: all 2^m edge subsets; cycle via z3 with the returned array registered as answer keys and required to be fully decided and equal to the visited set; cycle and path native programs decided by TLC on the line graph the code built.",
        note="as C04",
        ref="DESIGN.md 5 C06"),
    "C07": dict(
        technique="TLC enumerates set partitions / border patterns with Realisable/BorderOK; replay + z3; native graph-division program judged by TLC",
        text="All set partitions (restricted growth strings) of graphs <=5 vertices and grids <=2x3 under 11 size specifications (absent, constants incl. 0, shared variable, per-vertex lists with holes / an impossible entry; nested sizes as lists, tuple rows, tuples of tuples, arrays); all 2^m border patterns of graphs and inner grid frames under 10 size specifications, both encodings.",
        note="as C04; native graph-division meaning = CspSem!EvalGraphDiv; grid-form native programs only for boards <= 4 cells (free size variables must be searched by TLC)",
        ref="DESIGN.md 5 C07"),
    "C08": dict(
        technique="TLC enumerates patterns with NotAdj/NotSeg; replay into both helpers (grid specialisation and explicit-graph form) + z3",
        text="Graphs <=4/5 vertices, catalogue, grids incl. 1xN and Nx1 up to 4x4 (thorough): all patterns; grid specialisation and explicit-graph form compared through the definition.",
        note="as C04",
        ref="DESIGN.md 5 C08"),
    "C09": dict(
        technique="TLC enumerates edge subsets with Forest; replay into active_edges_acyclic + z3",
        text="Loop-free multigraphs with parallel edges, all 2^m subsets, edge flags as variables, negations, compound expressions, constants.",
        note="as C04",
        ref="DESIGN.md 5 C09"),
    "C10": dict(
        technique="TLC enumerates segment subsets with the strand definition (Crossable/Passed/Cross); replay + z3 through solve(); native program judged by TLC",
        text="Frames up to 2x2 (4096 subsets) and 1x3/3x1 exhaustively, single_cycle on/off, both encodings, both returned arrays compared with the definition in every satisfying assignment; rectangle drawings, weaves and stray segments on 2x3 .. 4x4 frames and a 6x7 scale-up frame judged by TLC on listed patterns (Trace_Patterns, Trace_Emit plist); segments given as variables, constants or a mixture; in every fifth pattern the trail constraint was already posted on the same solver and frame (history of two calls).",
        note="as C04",
        ref="DESIGN.md 5 C10"),
    "C03": dict(
        technique="TLA+ wire specification (SugarWire: S-expression denotation, reply formats); TLC trace validation of captured requests; TLC-rendered replies replayed into the real parsers",
        text="Requests: Solver states from the C01 drivers and from every graph helper (native operators included) are solved through all five backend names with substituted solver modules / executable; the captured text is tokenised (lexical only) and TLC checks declarations (ids, kinds, bounds, each once), the answer-key line (exactly the keys, right prefix, only in deduction mode), and that every constraint line denotes the posted constraint (structurally, or semantically over all assignments). Replies: TLC enumerates every well-formed reply over <=3 variables in both formats of CspuzSugarInterface.java (values incl. negative/multi-digit, every key/decided subset, two printing orders) and renders the text; the real parsers must leave exactly the specified values and Python types in sol and return sat.",
        note="decided up to the wire: real Sugar/csugar/cspuz_core are not installed; trusted: the lexical tokenizer, the substituted entry points (fake modules in sys.modules, stand-in executable), SugarWire.tla's operator table",
        ref="DESIGN.md 5 C03"),
    "C12": dict(
        technique="TLC enumerates operator forms (ArrayOps/MC_Array); real array layer executed; results judged by TLC (Trace_Array: shape, typing, value equivalence under all assignments)",
        text="Every binary operator x every pair of operand kinds (1-D/2-D arrays incl. empty and 1xN, variables, literals) x both operand orders, unary forms, then/cond as methods and module functions, helpers over nested lists/tuples/generators/arrays/literals, conv2d windows, four_neighbors: rejection exactly where specified, otherwise same shape and every element equal in value to its pointwise meaning under every assignment of the variables it mentions.",
        note="trusted: ArrayOps.tla meanings, CspSem!Eval, exporter; equality between a boolean and an integer operand is left unspecified as in the property",
        ref="DESIGN.md 5 C12"),
    "C13": dict(
        technique="TLC enumerates keys with CPython slice semantics (Indexing.tla); three-way comparison spec = Python nested lists = cspuz arrays",
        text="1-D lengths 0..5 and 2-D shapes x {13 integers, 1372 slices (bounds None or -6..6, steps None or +-1..3)} in each position, single keys, coordinate lists, flatten/reshape: selected elements, order, result shape and IndexError must coincide; the specification's arithmetic is itself validated against real list indexing in the same run.",
        note="trusted: TLC; bounded axis lengths; a[s, j] with empty row selection and out-of-range j accepted either way",
        ref="DESIGN.md 5 C13"),
    "C14": dict(
        technique="TLC checks lattice-geometry consistency (GridFrame.tla) and exports every accessor's expected result; replay into BoolGridFrame",
        text="All frame sizes 0..3 (thorough 0..5): doubled coordinates inside/outside/wrong parity, cell and point neighbourhoods (as sets) incl. out-of-range, all_edges/iteration order, dual and dual-of-dual, and the (edges, graph) pair inferred by the loop constraints; design-level invariants: every segment joins the points / separates the cells its name says.",
        note="projection: frame.horizontal[y,x] IS H(y,x), frame.vertical[y,x] IS V(y,x)",
        ref="DESIGN.md 5 C14"),
    "C20": dict(
        technique="TLA+ configuration state machine (Config.tla) explored exhaustively by TLC; every transition replayed on the real code",
        text="Environment x importable-module sets x infer_from_env -> Config(); attribute assignments; per-call backend argument (none, six names, unknown, class) observed through substituted solver modules / executable; every graph helper x explicit argument x flags x acyclic observed through the emitted program. Invariants: DefaultsSound, AcyclicNeverNative, ExplicitWins, ArgWins.",
        note="module availability simulated via sys.modules; sugar vs sugar_extended distinguished by the answer-key line",
        ref="DESIGN.md 5 C20"),
    "C15": dict(
        technique="TLA+ transcription of every combinator as cursor-threading Ser/Des operators (Serializer.tla); TLC checks RoundTrips on it and enumerates (term, board, value) cases; real round trips judged by TLC (Trace_Serializer)",
        text="Sequences/grids over boundary alphabets (15/16/255/256/4095, run lengths 19/20/21/40 around the one-character limit, partial digit groups), tuples, nested alternatives (OneOf written in every legal constructor form), a clue directly followed by a Dict item, every connected room partition of boards up to 2x3 (3x3 thorough) incl. 1xN/Nx1 in four orderings of rooms and cells, valued rooms: decoded = value (rooms up to canonical order with values attached) and consumed = produced length, judged by TLC on what the real code did; the transcription's text is compared with the real text as a diagnostic (identical in all cases).",
        note="trusted: TLC, the term builder (harness/ser_terms.py); OneOf alternatives distinguishable by leading character; Seq/Grid over item-consuming bases",
        ref="DESIGN.md 5 C15"),
    "C16": dict(
        technique="independent pzpr decoders in TLA+ (Pzpr.tla); TLC enumerates problems (MC_Url) and judges the real codecs' URLs (Trace_Url)",
        text="All problems over each module's clue alphabet on boards up to 2x3 (+ long rows), all connected room partitions, compass clue subsets, for the 12 codec modules: real decode(encode(p)) = p with dimensions; name/width/height in puzz.link order; the independent decoder reads the body back as p; legacy helper encoders and combinator codecs give identical text; the generic URL layer under each codec with other pzpr host prefixes (port, hyphen, .html form) gives the same text after the prefix and decodes alike.",
        note="trusted: Pzpr.tla (written from the pzpr format), the integer projection in harness/url_codecs.py",
        ref="DESIGN.md 5 C16"),
    "C17": dict(
        technique="TLC enumerates ALL strings up to a length over a branch-covering alphabet (MC_Fuzz); decoders' outcome classes judged by TLC (Trace_Fuzz)",
        text="Every string of length <=4 (thorough <=5) over {0,5,f,g,z,-,+,.,/,U+0663} as body for 9 URL decoders + compass with several declared sizes, as input to 16 library combinators (sizes incl. zero, every offset), URL-frame mutilations, 60x60 / 1x400 / 400x1 boards: outcome must be None, ValueError, or a problem of the stated size that re-encodes and re-decodes to itself.",
        note="bounded-exhaustive input enumeration (not a proof about all strings); None/ValueError classified by the harness, all other outcomes judged by TLC",
        ref="DESIGN.md 5 C17"),
    "C18": dict(
        technique="TLA+ transition system of the builder (Segmentation.tla: Merge/Split/Move); TLC proves Valid invariant from every valid state under every bound configuration; every update the real candidates() proposes in those states, and random walks, judged by TLC (Trace_Seg)",
        text="Boards 2x2, 1x4, 2x3 (thorough 3x2, 3x3 = 1434 connected partitions) x all bound configurations with min<=max<=5: the invariant holds on the specification from every valid state (and fails when the articulation guard is removed - spec-level binding demonstration); in each of those states every update proposed by the real candidates() is applied with copy_with_update and must yield a valid partition within the bounds and leave its argument unchanged; seeded random walks from initial() on boards up to 6x6; initial() from initial_blocks that do not meet the bounds (one block per cell, rows, columns, dominoes, whole board x a sweep of bounds).",
        note="allow_unmet_constraints_first=False; proposals must be sound, not complete; the kind of update (merge/split/move) is a diagnostic; inner-list sharing is not mutation",
        ref="DESIGN.md 5 C18"),
    "C19": dict(
        technique="TLA+ PRNG spec (uniformity / bijectivity model-checked) replayed into the real functions; TLC trace validation of generate_problem runs with inferred accept/reject decisions (Trace_Gen over Generator.tla); reproducibility pairs",
        text="Prng.tla: rejection-sampling randint uniform on exactly [a,b] for every raw-source size D<=16, shuffle a bijection from index choices to permutations (n<=5) - checked by TLC; every (D,a,b,raws) case replayed into the real randint with a scripted raw source; real randint/choice/shuffle/random calls with the real XorShift recorded with their raw draws and recomputed by TLC. Generator: runs of the real generate_problem over 11 builder patterns (Choice, nested lists/tuples, ArrayBuilder2D with symmetry / disallow_adjacent / use_move, SegmentationBuilder2D) with policy callbacks are validated event by event: every candidate a neighbour of the current problem per the builder's rules, the result the argument of a sat + unique solver call, None only otherwise, nothing mutated. Reproducibility: same seed under a different Python random state, different z3 seeds, a re-seeding schedule in one process, and fresh interpreters with different PYTHONHASHSEED (string / bytes / tuple clue values).",
        note="the XorShift bit stream is not pinned; exp() acceptance not modelled (accept/reject is an unlogged internal step TLC infers); callbacks are deterministic functions of the problem",
        ref="DESIGN.md 5 C19"),
    "C11": dict(
        technique="puzzle rules written in TLA+ over GraphDefs (PuzzleRules.tla); TLC enumerates problems on small boards and computes solvability and the facts common to all rule-obeying grids (MC_Puzzle); replay into solve_<puzzle> with z3",
        text="For each covered puzzle TLC evaluates the published rules on every candidate answer of small, non-square-first boards (every problem over the clue alphabet in the thorough tier, a seeded sample in the quick tier) and exports whether a solution exists and, per answer key, the value all solutions agree on; solve_<puzzle> must return exactly that is_sat and exactly those decided cells. All 26 anchored puzzle modules are covered (sudoku, slitherlink, masyu, yajilin, nurikabe, heyawake, akari, norinori, lits, star_battle, fillomino, nurimisaki, yinyang, creek, gokigen, aquarium, building, doppelblock, putteria, simpleloop, geradeweg, compass, fivecells, view, castle_wall, shakashaka); the evidence file lists the boards and problem counts of a run.",
        note="rules as published, in the module's own problem format; boards up to 3x3/3x4; z3 with the auxiliary-variable encodings is the solving path; boards are small (up to 3x3 / 3x4 / 2x5); loop puzzles enumerate every simple cycle of the board, colouring puzzles every subset of cells",
        ref="DESIGN.md 5 C11, 12"),
}

NOT_APPLICABLE = {}


def main():
    head = subprocess.run(["git", "-C", "/repo", "log", "--format=%h %s"], capture_output=True, text=True).stdout
    hook_commits = [l.split()[0] for l in head.splitlines() if l.split(" ", 1)[1].startswith("verif-hook:")]
    checks = []
    for p in PROPS:
        pid = p["id"]
        if pid not in CHECKS:
            continue
        c = CHECKS[pid]
        checks.append({
            "property_id": pid,
            "quick_cmd": f"./check {pid} --tier quick",
            "thorough_cmd": f"./check {pid} --tier thorough",
            "evidence_file": f"/verif/evidence/{pid}.json",
            "replay_cmd_template": f"./check {pid} --replay {{path}}",
            "engine": "tlc",
            "level_claimed": {"category": c.get("category", "model_checking"), "text": c["text"],
                              "design_ref": c["ref"]},
            "level_note": c["note"],
            "technique": c["technique"],
        })
    na = [{"property_id": p["id"], "reason": NOT_APPLICABLE.get(p["id"], "check not built yet (work in progress, see DESIGN.md 10)")}
          for p in PROPS if p["id"] not in CHECKS]
    man = {
        "version": 1,
        "setup_cmd": "./setup.sh",
        "hooks": {
            "guard": "CSPUZ_VERIF",
            "enable": "no source hooks are needed: checks import /repo's working tree (PYTHONPATH=$VERIF_REPO, default /repo) and observe through public API, substitutable backends/modules and caller-supplied callbacks",
            "baseline_off_cmd": "cd /repo && /venv/bin/python -m pytest -ra -q -p no:cacheprovider --timeout=900 --continue-on-collection-errors",
            "source_commits": hook_commits,
            "add_only": True,
        },
        "engines": [
            {"name": "tlc", "path": "/verif/spec", "serves_properties": [c["property_id"] for c in checks],
             "kind_free_text": "explicit TLA+ specification checked by TLC 1.8.0; bound to the code by replaying TLC-generated behaviours into the real code and by validating NDJSON traces of the real code against trace specifications"},
        ],
        "checks": checks,
        "not_applicable": na,
        "notes": "Entry point ./check <id> --tier quick|thorough. Exit 0 = held, 1 = VIOLATION line, 2 = machinery failure. known_findings.json lists genuine defects (fixed / open).",
    }
    (VERIF / "MANIFEST.json").write_text(json.dumps(man, indent=1) + "\n")
    print("checks:", [c["property_id"] for c in checks], "not_applicable:", [x["property_id"] for x in na])


main()
