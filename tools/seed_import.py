#!/venv/bin/python
"""Copies a confirmed seeded change from /tmp/seed_<P>/<m> into /verif/seeded/<P>-<m>/ with an augmented meta.json."""
import json, os, shutil, sys
ROUND = ""
args = sys.argv[1:]
if args and args[0].startswith("--round="):       # --round=2: sources /tmp/seed2_<P>/<m>, destination <P>-r2<m>
    ROUND = args.pop(0).split("=")[1]
for arg in args:
    prop, m = arg.split("/")
    src = f"/tmp/seed{ROUND}_{prop}/{m}"
    ev = json.load(open(f"{src}/eval.json"))
    if not (ev.get("applies") and ev.get("tests_ok") and ev.get("demo_fails_with_change") and ev.get("demo_passes_without_change")):
        print("NOT CONFIRMED, skipped:", arg, ev); continue
    dst = f"/verif/seeded/{prop}-{'r' + ROUND if ROUND else ''}{m}"
    os.makedirs(dst, exist_ok=True)
    shutil.copy(f"{src}/patch.diff", f"{dst}/patch.diff")
    shutil.copy(f"{src}/demo.py", f"{dst}/demo.py")
    meta = json.load(open(f"{src}/meta.json"))
    checks = {k[6:]: v for k, v in ev.items() if k.startswith("check_")}
    meta.update({
        "breaks_property": meta.get("property", prop),
        "origin": "written by an independent sub-agent that saw only the property text and a scratch worktree"
                  + (f" (round {ROUND}: two cooperating sites / history- or shape-dependent changes)" if ROUND else ""),
        "confirmed": {"tests_with_change": ev["tests"], "demo_fails_with_change": True, "demo_passes_without_change": True,
                      "how": "tools/seed_eval.py: git apply in a scratch worktree, pytest (558 passed / 68 pre-existing failures), "
                             "PYTHONPATH=<worktree> /venv/bin/python demo.py with and without the change"},
        "checks_run": {c: {"tier": "quick", "exit": v["exit"], "detected": v["exit"] == 1, "first_line": v["first"]} for c, v in checks.items()},
    })
    json.dump(meta, open(f"{dst}/meta.json", "w"), indent=1)
    print("imported", arg, {c: v["exit"] for c, v in checks.items()})
