#!/venv/bin/python
"""Stand-in for the `sugar` executable: logs how it was called and what it was given, and answers with the
reply prepared by the harness (files named by FAKE_SUGAR_DIR; request_<n>.txt / reply_<n>.txt for the n-th call of a conversation)."""
import os
import sys

d = os.environ.get("FAKE_SUGAR_DIR", ".")
data = sys.stdin.buffer.read()
n = 0
while os.path.exists(os.path.join(d, "request_%d.txt" % n)):
    n += 1
with open(os.path.join(d, "request_%d.txt" % n), "wb") as f:
    f.write(data)
if n == 0:
    with open(os.path.join(d, "request.txt"), "wb") as f:
        f.write(data)
with open(os.path.join(d, "argv.txt"), "w") as f:
    f.write("\n".join(sys.argv))
try:
    try:
        reply = open(os.path.join(d, "reply_%d.txt" % n)).read()     # a scripted conversation
    except OSError:
        reply = open(os.path.join(d, "reply.txt")).read()
except OSError:
    reply = "s UNSATISFIABLE\n" if b"\n#" not in b"\n" + data else "unsat\n"
sys.stderr.write("Picked up JAVA_TOOL_OPTIONS: -Xmx2g\n")      # what a JVM prints; it is not part of the reply
sys.stdout.write(reply)
