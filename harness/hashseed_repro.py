"""Stand-alone script (run in a fresh interpreter per PYTHONHASHSEED by checks/c19.py): generate_problem under the
deterministic PRNG with string-valued / mixed-valued choice sets and deterministic callbacks; prints the candidate sequences
and results as JSON.  Only str / bytes hashing depends on PYTHONHASHSEED, so this is where an iteration order taken from a
set or dict keyed by clue values would show: the same seed must give the same run in every interpreter."""
import json
import sys
import zlib


def main():
    from cspuz.generator import generate_problem, ArrayBuilder2D, Choice
    import cspuz.generator.srandom as srandom
    out = []
    patterns = {
        "S1": lambda: ArrayBuilder2D(3, 3, [".", "a", "bb", "c", "dd"], default=".", symmetry=True),
        "S2": lambda: ArrayBuilder2D(2, 3, ["x", "y", "..", "z"], default="..", disallow_adjacent=True),
        "S3": lambda: ArrayBuilder2D(3, 2, ["1u", "2d", "-", "3l", "4r"], default="-", symmetry=True, use_move=True),
        "S4": lambda: [Choice(["p", "q", "r", "s"], default="p"), ArrayBuilder2D(2, 2, ["n", "o", "m"], default="n", symmetry=True)],
        "S5": lambda: ArrayBuilder2D(3, 3, [0, "a", 1, "b", (1, "c")], default=0, symmetry=True, disallow_adjacent=[(0, 1), (1, 1)]),
        "S6": lambda: (Choice(["k", "l", "m"], default="l"), Choice([b"x", b"y", b"z"], default=b"z")),
    }

    def key(p):
        return json.dumps(p, default=lambda o: o.decode() if isinstance(o, bytes) else repr(o))

    for name, mk in patterns.items():
        for seed in (0, 1, 5):
            cands = []

            def solver(problem):
                k = key(problem)
                cands.append(k)
                return True, zlib.crc32(k.encode())      # a deterministic verdict and score, the same in every interpreter
            srandom.use_deterministic_prng(True, seed=seed)
            try:
                res = generate_problem(lambda p: solver(p), builder_pattern=mk(), max_steps=12,
                                       score=lambda v: v % 7, uniqueness=lambda v: v % 11 == 0)
                status = "ok"
            except Exception as e:  # noqa
                res, status = None, "raised " + type(e).__name__
            finally:
                srandom.use_deterministic_prng(False)
            out.append({"pattern": name, "seed": seed, "status": status, "cands": cands, "result": None if res is None else key(res)})
    json.dump(out, sys.stdout)


if __name__ == "__main__":
    main()
