"""Exporter (trusted, purely structural): walks a cspuz expression through the same public
fields the backends read (op, operands, id, lo, hi) into the JSON tree format of spec/CspSem.tla."""
from cspuz.expr import Expr, BoolVar, IntVar, Op

_NAMES = {
    Op.NEG: "NEG", Op.ADD: "ADD", Op.SUB: "SUB", Op.EQ: "EQ", Op.NE: "NE", Op.LE: "LE",
    Op.LT: "LT", Op.GE: "GE", Op.GT: "GT", Op.NOT: "NOT", Op.AND: "AND", Op.OR: "OR",
    Op.IFF: "IFF", Op.XOR: "XOR", Op.IMP: "IMP", Op.IF: "IF", Op.ALLDIFF: "ALLDIFF",
    Op.GRAPH_ACTIVE_VERTICES_CONNECTED: "GRAPH_ACTIVE_VERTICES_CONNECTED",
    Op.GRAPH_DIVISION: "GRAPH_DIVISION",
}


def tree(e):
    if e is None:
        return {"op": "HOLE"}
    if isinstance(e, bool):
        return {"op": "BOOL", "val": e}
    if isinstance(e, int):
        return {"op": "INT", "val": e}
    if not isinstance(e, Expr):
        return {"op": "ALIEN", "repr": type(e).__name__}
    if isinstance(e, (BoolVar, IntVar)):
        return {"op": "VAR", "id": e.id}
    if e.op == Op.BOOL_CONSTANT:
        v = e.operands[0] if len(e.operands) == 1 else None
        return {"op": "BOOL", "val": v} if isinstance(v, bool) else {"op": "ALIEN", "repr": "BOOL_CONSTANT"}
    if e.op == Op.INT_CONSTANT:
        v = e.operands[0] if len(e.operands) == 1 else None
        if isinstance(v, int) and not isinstance(v, bool):
            return {"op": "INT", "val": v}
        return {"op": "ALIEN", "repr": "INT_CONSTANT"}
    name = _NAMES.get(e.op)
    if name is None:
        return {"op": "ALIEN", "repr": str(e.op)}
    return {"op": name, "args": [tree(x) for x in e.operands]}


def var_decl(v):
    if isinstance(v, BoolVar):
        return {"kind": "bool", "lo": 0, "hi": 0}
    return {"kind": "int", "lo": v.lo, "hi": v.hi}


def program(solver):
    return {"vars": [var_decl(v) for v in solver.variables],
            "cons": [tree(c) for c in solver.constraints],
            "keys": [i for i, k in enumerate(solver.is_answer_key) if k]}


def sol_of(variables):
    """sol as three homogeneously typed parallel arrays (TLC cannot compare values of different kinds)."""
    ty, b, n = [], [], []
    for v in variables:
        s = v.sol
        if type(s) is bool:
            ty.append("bool"); b.append(s); n.append(0)
        elif type(s) is int:
            ty.append("int"); b.append(False); n.append(s)
        elif s is None:
            ty.append("none"); b.append(False); n.append(0)
        else:
            ty.append("other"); b.append(False); n.append(0)
    return {"ty": ty, "b": b, "n": n}


def max_var(t):
    if t["op"] == "VAR":
        return t["id"]
    return max([max_var(x) for x in t.get("args", [])] + [-1])


def size(t):
    return 1 + sum(size(x) for x in t.get("args", []))
