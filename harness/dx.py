"""Driver expressions (spec/DriverAST.tla): build them through the real Python API of cspuz,
literally in the written operand order, and generate random well-typed ones."""
import cspuz
from cspuz import constraints as C


def build(d, vs, cache=None):
    """cache (one dict per session): an operator node that was built before is the SAME Python object when it occurs
    again, inside the same constraint or in a later one - the way user code names a sub-expression and uses it twice.
    An expression object is a value: using it as an operand must not change it."""
    if cache is not None and d["f"] not in ("var", "ilit", "blit", "list", "iconst", "bconst"):
        import json
        key = json.dumps(d, sort_keys=True)
        if key not in cache:
            cache[key] = _build(d, vs, cache)
        return cache[key]
    return _build(d, vs, cache)


def _build(d, vs, cache):
    f = d["f"]
    if f == "var":
        return vs[d["id"]]
    if f == "ilit":
        return d["n"]
    if f == "iconst":
        from cspuz.expr import IntExpr, Op
        return IntExpr(Op.INT_CONSTANT, [d["n"]])
    if f == "bconst":
        from cspuz.expr import BoolExpr, Op
        return BoolExpr(Op.BOOL_CONSTANT, [d["b"]])
    if f == "blit":
        return d["b"]
    if f == "list":
        items = [build(x, vs, cache) for x in d["args"]]
        style = d.get("style", "list")
        if style == "tuple":
            return tuple(items)
        if style == "gen":
            return (x for x in items)
        if style == "array":
            # a cspuz array as the container (what most puzzle code passes): only for flat, homogeneous items
            from cspuz.array import BoolArray1D, IntArray1D
            from cspuz.expr import BoolExpr, IntExpr
            if items and all(isinstance(x, (BoolExpr, bool)) for x in items):
                return BoolArray1D(items)
            if items and all(isinstance(x, (IntExpr, int)) and not isinstance(x, bool) for x in items):
                return IntArray1D(items)
        return items
    a = [build(x, vs, cache) for x in d["args"]]
    if f == "neg":
        return -a[0]
    if f == "not":
        return ~a[0]
    if f in ("iadd", "isub", "iand", "ior"):
        t = a[0]                      # (possibly an object that other constraints of the session hold as well)
        if f == "iadd":
            t += a[1]
        elif f == "isub":
            t -= a[1]
        elif f == "iand":
            t &= a[1]
        else:
            t |= a[1]
        return t
    if f == "add":
        return a[0] + a[1]
    if f == "sub":
        return a[0] - a[1]
    if f in ("eq", "iff"):
        return a[0] == a[1]
    if f in ("ne", "bne"):
        return a[0] != a[1]
    if f == "le":
        return a[0] <= a[1]
    if f == "lt":
        return a[0] < a[1]
    if f == "ge":
        return a[0] >= a[1]
    if f == "gt":
        return a[0] > a[1]
    if f == "and":
        return a[0] & a[1]
    if f == "or":
        return a[0] | a[1]
    if f == "xor":
        return a[0] ^ a[1]
    if f == "then":
        return a[0].then(a[1])
    if f == "thenf":
        return C.then(a[0], a[1])
    if f == "cond":
        return a[0].cond(a[1], a[2])
    if f == "condf":
        return C.cond(a[0], a[1], a[2])
    if f == "count_true":
        return cspuz.count_true(*a)
    if f == "fold_or":
        return cspuz.fold_or(*a)
    if f == "fold_and":
        return cspuz.fold_and(*a)
    if f == "alldifferent":
        return cspuz.alldifferent(*a)
    raise ValueError("unknown driver form " + f)


# ---------------------------------------------------------------------------------------
# random well-typed driver expressions

def V(k):
    return {"f": "var", "id": k}


def IL(n):
    return {"f": "ilit", "n": n}


def BL(b):
    return {"f": "blit", "b": b}


def is_lit(d):
    return d["f"] in ("ilit", "blit")


class Gen:
    def __init__(self, rng, decl, lits=(-3, -1, 0, 1, 2, 5), pool=None):
        # pool: compound sub-expressions generated earlier in the same session, re-used as operands now and then
        # (the driver then hands the SAME object to the library again, see build)
        self.pool = pool if pool is not None else {"b": [], "i": []}
        self.r = rng
        self.b = [i for i, v in enumerate(decl) if v["kind"] == "bool"]
        self.i = [i for i, v in enumerate(decl) if v["kind"] == "int"]
        self.lits = lits

    def iatom(self, allow_lit=True):
        if self.i and (not allow_lit or self.r.random() < 0.7):
            return V(self.r.choice(self.i))
        if not allow_lit or self.r.random() < 0.12:
            return {"f": "iconst", "n": self.r.choice(self.lits)}        # an explicit constant NODE (not a Python int)
        return IL(self.r.choice(self.lits))

    def batom(self, allow_lit=True):
        if self.b and (not allow_lit or self.r.random() < 0.8):
            return V(self.r.choice(self.b))
        return BL(self.r.random() < 0.5)

    def nest(self, items):
        """wrap helper arguments in random containers (cspuz flattens any nesting)"""
        r = self.r
        out = []
        i = 0
        while i < len(items):
            if r.random() < 0.35:
                j = min(len(items), i + r.randint(0, 3))
                sub = self.nest(items[i:j]) if r.random() < 0.3 else items[i:j]
                out.append({"f": "list", "args": sub, "style": r.choice(["list", "tuple", "gen", "array"])})
                i = j
            else:
                out.append(items[i])
                i += 1
        return out

    def int_expr(self, depth):
        x = self._int_expr(depth)
        if "args" in x and x["f"] != "list":
            self.pool["i"].append(x)
        return x

    def bool_expr(self, depth):
        x = self._bool_expr(depth)
        if "args" in x and x["f"] != "list":
            self.pool["b"].append(x)
        return x

    def _usable(self, x):
        """a pooled expression may only mention variables that still exist (they all do: declarations only grow)"""
        return True

    def _int_expr(self, depth):
        r = self.r
        if depth >= 1 and self.pool["i"] and r.random() < 0.15:
            return r.choice(self.pool["i"][-12:])
        if depth <= 0 or r.random() < 0.25:
            return self.iatom()
        c = r.random()
        if c < 0.12:
            x = self.int_expr(depth - 1)
            if is_lit(x):
                x = self.iatom(False) if self.i else x
            return {"f": "neg", "args": [x]} if not is_lit(x) else x
        if c < 0.55:
            x, y = self.int_expr(depth - 1), self.int_expr(depth - 1)
            if is_lit(x) and is_lit(y):
                if not self.i:
                    return x
                x = self.iatom(False)
            f = r.choice(["add", "sub"])
            if not is_lit(x) and "args" in x and r.random() < 0.2:
                f = "i" + f               # t += y / t -= y on a compound left operand
            return {"f": f, "args": [x, y]}
        if c < 0.8:
            cnd = self.bool_expr(depth - 1)
            t, f = self.int_expr(depth - 1), self.int_expr(depth - 1)
            if is_lit(cnd):
                return {"f": "condf", "args": [cnd, t, f]}
            return {"f": r.choice(["cond", "cond", "condf"]), "args": [cnd, t, f]}
        n = r.choice([0, 1, 2, 2, 3, 4])
        items = [self.bool_expr(depth - 1) for _ in range(n)]
        return {"f": "count_true", "args": self.nest(items)}

    def _bool_expr(self, depth):
        r = self.r
        if depth >= 1 and self.pool["b"] and r.random() < 0.15:
            return r.choice(self.pool["b"][-12:])
        if depth <= 0 or r.random() < 0.15:
            return self.batom()
        c = r.random()
        if c < 0.35:
            x, y = self.int_expr(depth - 1), self.int_expr(depth - 1)
            if is_lit(x) and is_lit(y):
                if not self.i:
                    return self.batom()
                x = self.iatom(False)
            return {"f": r.choice(["eq", "ne", "le", "lt", "ge", "gt"]), "args": [x, y]}
        if c < 0.45:
            x = self.bool_expr(depth - 1)
            if is_lit(x):
                if not self.b:
                    return x
                x = self.batom(False)
            return {"f": "not", "args": [x]}
        if c < 0.7:
            x, y = self.bool_expr(depth - 1), self.bool_expr(depth - 1)
            if is_lit(x) and is_lit(y):
                return {"f": "thenf", "args": [x, y]}
            f = r.choice(["and", "or", "xor", "iff", "bne", "then", "thenf"])
            if f == "then" and is_lit(x):
                f = "thenf"
            if f in ("and", "or") and not is_lit(x) and "args" in x and r.random() < 0.3:
                f = "i" + f               # t &= y / t |= y on a compound left operand
            return {"f": f, "args": [x, y]}
        if c < 0.88:
            n = r.choice([0, 1, 2, 3, 3, 4])
            items = [self.bool_expr(depth - 1) for _ in range(n)]
            return {"f": r.choice(["fold_or", "fold_and"]), "args": self.nest(items)}
        n = r.choice([0, 1, 2, 3, 3])
        items = [self.int_expr(max(0, depth - 2)) for _ in range(n)]
        return {"f": "alldifferent", "args": self.nest(items)}

    def posted(self, depth):
        """argument of one ensure(...) call: a constraint, or a nested container of constraints"""
        if self.r.random() < 0.2:
            items = [self.bool_expr(depth) for _ in range(self.r.randint(0, 3))]
            return {"f": "list", "args": self.nest(items), "style": "list"}
        return self.bool_expr(depth)
