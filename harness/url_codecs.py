"""Runs the real URL codecs of the puzzle modules on canonical-integer problems (spec/MC_Url.tla) and
projects what they produce back to canonical integers.  Purely a projection: no format knowledge beyond
splitting a URL at '?' and '/'."""
import re

EMPTY, QMARK = -1000, -999
NAMES = {"nurikabe": "nurikabe", "sudoku": "sudoku", "nurimisaki": "nurimisaki", "slither": "slither",
         "masyu": "masyu", "yajilin": "yajilin", "lits": "lits", "norinori": "norinori", "heyawake": "heyawake",
         "compass": "compass", "starbattle": "starbattle", "aquarium": "aquarium"}
_DIRS = {1: "^", 2: "v", 3: "<", 4: ">"}
_RDIRS = {v: k for k, v in _DIRS.items()}


def yaj_to_str(v):
    if v == EMPTY:
        return ".."
    if v == QMARK:
        return "??"
    return _DIRS[v // 100] + str(v % 100)


def yaj_to_int(s):
    if s == "..":
        return EMPTY
    if s == "??":
        return QMARK
    return _RDIRS[s[0]] * 100 + int(s[1:])


def grid(cells, h, w, f=lambda x: x):
    return [[f(cells[y * w + x]) for x in range(w)] for y in range(h)]


def rooms_of(rgs, w, variant=0):
    """the rooms of a restricted growth string; variant 1 reverses the cells inside each room, 2 the order of the rooms,
    3 both (the codecs must not depend on either order)"""
    k = max(rgs) + 1 if rgs else 0
    rooms = [[(c // w, c % w) for c in range(len(rgs)) if rgs[c] == b] for b in range(k)]
    if variant in (1, 3):
        rooms = [list(reversed(r)) for r in rooms]
    return rooms


def split_url(url):
    m = re.match(r"^(https?://[^?]+\?)(.*)$", url)
    if not m:
        return None
    parts = m.group(2).split("/")
    return m.group(1), parts


def _enc(rec, fn, *args):
    """the encoder is called twice with the SAME argument objects; the second URL is the one that is judged and it must be
    the first one again (an encoder must not leave anything behind in the caller's problem)"""
    first = fn(*args)
    second = fn(*args)
    if first != second:
        rec["second_encoding_differs"] = True
    return second


HOSTS = ["http://pzv.jp/p.html?", "https://pzplus.tck.mn/p?", "http://localhost:8080/p?", "https://my-puzzles.example.org/p.html?",
         "https://puzz.link/p?"]


def _other_host(rec, module, name, h, w, problem, url, k):
    """the generic URL layer under the module's codec, with the documented `prefix` option: the same combinator, another
    pzpr host (a port, a hyphen, the .html form) - the text after the prefix is the same, the URL is recognised and decodes
    to the same problem with its size"""
    from cspuz import problem_serializer as PS
    comb = next((getattr(module, a) for a in dir(module) if a.endswith("_COMBINATOR")), None)
    if comb is None:
        return
    prefix = HOSTS[k % len(HOSTS)]
    try:
        url2 = PS.serialize_problem_as_url(comb, name, h, w, problem, prefix=prefix)
        if not url.startswith("https://puzz.link/p?") or url2 != prefix + url[len("https://puzz.link/p?"):]:
            rec["host_ok"], rec["host_why"] = False, "text-after-the-prefix-differs"
            return
        if PS.get_puzzle_info_from_url(url2) != (name, h, w):
            rec["host_ok"], rec["host_why"] = False, "get_puzzle_info_from_url-does-not-recognise-it"
            return
        d = PS.deserialize_problem_as_url(comb, url2, allowed_puzzles=name, return_size=True)
        d0 = PS.deserialize_problem_as_url(comb, url, allowed_puzzles=name, return_size=True)
        if d is None or d != d0 or (d[0], d[1]) != (h, w):
            rec["host_ok"], rec["host_why"] = False, "decodes-differently-from-the-puzz.link-url"
    except Exception as e:  # noqa
        rec["host_ok"], rec["host_why"] = False, "raised-" + type(e).__name__


def run_case(case):
    from cspuz.puzzle import (nurikabe, sudoku, nurimisaki, slitherlink, masyu, yajilin, lits, norinori, heyawake,
                              compass, star_battle, aquarium, util)
    from cspuz import problem_serializer as PS
    mod, h, w = case["mod"], case["h"], case["w"]
    rec = {"case": case, "status": "ok", "exc": "", "frame_ok": False, "name": "", "width": -1, "height": -1, "extra": -1,
           "body": "", "body2": "", "expected_name": NAMES[mod], "has_decoder": False, "dec_status": "ok", "dec_h": -1,
           "dec_w": -1, "dec_cells": [], "dec_rooms": [], "dec_vals": [], "dec_clues": [], "legacy_applicable": False,
           "legacy_same": True, "url": "", "second_encoding_differs": False, "host_ok": True, "host_why": ""}
    enc = dec = None
    legacy = None
    try:
        if mod in ("nurikabe", "sudoku", "nurimisaki", "slither", "masyu", "yajilin"):
            m = {"nurikabe": (nurikabe.serialize_nurikabe, nurikabe.deserialize_nurikabe),
                 "sudoku": (sudoku.serialize_sudoku, sudoku.deserialize_sudoku),
                 "nurimisaki": (nurimisaki.serialize_nurimisaki, nurimisaki.deserialize_nurimisaki),
                 "slither": (slitherlink.serialize_slitherlink, slitherlink.deserialize_slitherlink),
                 "masyu": (masyu.serialize_masyu, masyu.deserialize_masyu),
                 "yajilin": (yajilin.serialize_yajilin, yajilin.deserialize_yajilin)}[mod]
            conv = yaj_to_str if mod == "yajilin" else (lambda x: x)
            back = yaj_to_int if mod == "yajilin" else (lambda x: x)
            problem = grid(case["cells"], h, w, conv)
            url = _enc(rec, m[0], problem)
            rec["has_decoder"] = True
            try:
                d = m[1](url)
                if d is None:
                    rec["dec_status"] = "None"
                else:
                    rec["dec_h"], rec["dec_w"] = len(d), (len(d[0]) if d else 0)
                    rec["dec_cells"] = [back(v) for row in d for v in row]
            except Exception as e:  # noqa
                rec["dec_status"] = type(e).__name__
            _other_host(rec, {"nurikabe": nurikabe, "sudoku": sudoku, "nurimisaki": nurimisaki, "slither": slitherlink,
                              "masyu": masyu, "yajilin": yajilin}[mod], NAMES[mod], h, w, problem, url, len(url) + h)
            # legacy helper encoder vs combinator codec on identical data
            if mod in ("nurikabe", "sudoku", "nurimisaki"):
                empty = {"nurikabe": 0, "sudoku": 0, "nurimisaki": -1}[mod]
                dot = {"nurikabe": -1, "nurimisaki": 0}.get(mod)
                arr = [["." if (dot is not None and v == dot) else v for v in row] for row in problem]
                rec["legacy_applicable"] = True
                legacy = util.encode_array(arr, empty=empty, dim=2)
        elif mod in ("lits", "norinori"):
            rooms = rooms_of(case["rgs"], w, sum(case["rgs"]) % 2)
            f = lits if mod == "lits" else norinori
            ser, des = (f.serialize_lits, f.deserialize_lits) if mod == "lits" else (f.serialize_norinori, f.deserialize_norinori)
            url = _enc(rec, ser, h, w, rooms)
            rec["has_decoder"] = True
            try:
                d = des(url)
                if d is None:
                    rec["dec_status"] = "None"
                else:
                    rec["dec_h"], rec["dec_w"] = d[0], d[1]
                    rec["dec_rooms"] = [[y * w + x for (y, x) in room] for room in d[2]]
            except Exception as e:  # noqa
                rec["dec_status"] = type(e).__name__
            _other_host(rec, f, NAMES[mod], h, w, rooms, url, len(url) + h)
            rec["legacy_applicable"] = True
            legacy = util.encode_grid_segmentation(h, w, util.blocks_to_block_id(h, w, rooms))
        elif mod == "heyawake":
            variant = (len(case["rgs"]) + sum(case["rgs"]) + sum(v for v in case["vals"] if v > 0)) % 4
            rooms = rooms_of(case["rgs"], w, variant)
            vals = list(case["vals"])
            if variant in (2, 3):
                rooms, vals = list(reversed(rooms)), list(reversed(vals))
            url = _enc(rec, heyawake.serialize_heyawake, h, w, rooms, vals)
            rec["has_decoder"] = True
            # the other documented input form: a list of rectangles (y0, x0, y1, x1, clue), when every room is one
            rects = []
            for room, v in zip(rooms, vals):
                ys, xs = [y for y, _ in room], [x for _, x in room]
                if len(room) == (max(ys) - min(ys) + 1) * (max(xs) - min(xs) + 1):
                    rects.append((min(ys), min(xs), max(ys) + 1, max(xs) + 1, v))
            if len(rects) == len(rooms):
                rec["legacy_applicable"] = True
                try:
                    sp2 = split_url(heyawake.serialize_heyawake(h, w, rects))
                    legacy = sp2[1][3] if sp2 and len(sp2[1]) == 4 else "<unsplittable>"
                except Exception as e:  # noqa
                    legacy = "<raised " + type(e).__name__ + ">"
            try:
                d = heyawake.deserialize_heyawake(url)
                if d is None:
                    rec["dec_status"] = "None"
                else:
                    rec["dec_h"], rec["dec_w"] = d[0], d[1]
                    rec["dec_rooms"] = [[y * w + x for (y, x) in room] for room in d[2][0]]
                    rec["dec_vals"] = list(d[2][1])
            except Exception as e:  # noqa
                rec["dec_status"] = type(e).__name__
        elif mod == "starbattle":
            bid = grid(case["rgs"], h, w)
            url = _enc(rec, star_battle.problem_to_pzv_url, h, case["vals"][0], bid)
            rec["legacy_applicable"] = True
            legacy = PS.serialize_problem(PS.Rooms(), rooms_of(case["rgs"], w), height=h, width=w)
        elif mod == "aquarium":
            rooms = rooms_of(case["rgs"], w)
            url = _enc(rec, aquarium.problem_to_url, h, w, rooms, list(case["vals"][w:]), list(case["vals"][:w]))
            rec["legacy_applicable"] = True
            legacy = PS.serialize_problem(PS.Rooms(), rooms, height=h, width=w)
        elif mod == "compass":
            pos = [(c[0] // w, c[0] % w, c[1], c[3], c[2], c[4]) for c in case["clues"]]   # (y, x, up, left, down, right)
            url = _enc(rec, compass.to_puzz_link_url, h, w, pos)
            rec["has_decoder"] = True
            try:
                dh, dw, res = compass.parse_puzz_link_url(url)
                rec["dec_h"], rec["dec_w"] = dh, dw
                rec["dec_clues"] = [[y * w + x, u, d, l, r] for (y, x, u, l, d, r) in res]
            except Exception as e:  # noqa
                rec["dec_status"] = type(e).__name__
    except Exception as e:  # noqa
        rec["status"], rec["exc"] = "exc", type(e).__name__
        return rec
    rec["url"] = url
    sp = split_url(url)
    if sp:
        _, parts = sp
        try:
            if mod == "starbattle" and len(parts) == 5:
                rec.update(frame_ok=True, name=parts[0], width=int(parts[1]), height=int(parts[2]), extra=int(parts[3]), body=parts[4])
            elif mod == "aquarium" and len(parts) == 5:
                rec.update(frame_ok=True, name=parts[0], width=int(parts[1]), height=int(parts[2]), body=parts[3], body2=parts[4])
            elif len(parts) == 4:
                rec.update(frame_ok=True, name=parts[0], width=int(parts[1]), height=int(parts[2]), body=parts[3])
        except ValueError:
            pass
    if legacy is not None:
        rec["legacy_same"] = (legacy == rec["body"])
    return rec


def work(cases):
    out = []
    for cid, case in cases:
        r = run_case(case)
        r["t"] = cid
        out.append(r)
    return out
