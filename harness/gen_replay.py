"""C19 drivers: generate_problem with policy callbacks (a deterministic function of the problem asked about, as a real
solver is) and recorded calls; the PRNG with recorded / scripted raw draws."""
import copy
import hashlib
import random as pyrandom


def flat(p):
    if isinstance(p, (list, tuple)):
        out = []
        for x in p:
            out += flat(x)
        return out
    return [p]


def seg_flat(blocks, w):
    return [[y * w + x for (y, x) in blk] for blk in blocks]


_H3_BLOCKS = [[(0, 0), (0, 1), (0, 2), (1, 2), (1, 1), (1, 0)]]
_REUSED = {}
_HANDED_BLOCKS = []


def patterns():
    from cspuz.generator import Choice, ArrayBuilder2D, SegmentationBuilder2D
    def arr(h, w, choice, sym=False, adj=False, move=False):
        # adj: False, True (the four orthogonal offsets) or an explicit list of (dy, dx) offsets
        offsets = [[-1, 0], [1, 0], [0, -1], [0, 1]] if adj is True else [] if adj is False else [list(o) for o in adj]
        return (lambda: ArrayBuilder2D(h, w, choice, default=0, symmetry=sym, disallow_adjacent=adj, use_move=move),
                {"kind": "array", "h": h, "w": w, "choice": list(choice), "default": 0, "symmetry": sym,
                 "adjacent": bool(offsets), "offsets": offsets, "move": move},
                flat)
    def seg(h, w, b, initial_blocks=None):
        def mk():
            kw = {}
            if initial_blocks is not None:        # every builder gets its caller's own list; it must stay as handed over
                mine = copy.deepcopy(initial_blocks)
                _HANDED_BLOCKS.append((mine, copy.deepcopy(mine)))
                kw["initial_blocks"] = mine
            return SegmentationBuilder2D(h, w, min_num_blocks=b["minB"], max_num_blocks=b["maxB"],
                                         min_block_size=b["minS"], max_block_size=b["maxS"], **kw)
        return (mk,
                {"kind": "segmentation", "h": h, "w": w, "bnd": b}, lambda p: seg_flat(p, w))
    C = lambda ch: {"const": False, "choice": list(ch)}
    K = {"const": True, "choice": []}
    return {
        "A": (lambda: [Choice([0, 1, 2], 0), Choice([0, 1], 0)], {"kind": "choices", "slots": [C([0, 1, 2]), C([0, 1])]}, flat),
        "B": (lambda: (Choice([0, 1, 2], 0), [Choice([5, 6], 5), 7]), {"kind": "choices", "slots": [C([0, 1, 2]), C([5, 6]), K]}, flat),
        "B2": (lambda: [[Choice([1, 2, 3], 2), (Choice([0, 9], 9), 4)], Choice([0, 1], 1)],
               {"kind": "choices", "slots": [C([1, 2, 3]), C([0, 9]), K, C([0, 1])]}, flat),
        "C": arr(1, 2, [0, 1, 2]),
        "D": arr(2, 2, [0, 1], sym=True),
        "E": arr(1, 3, [0, 1], adj=True),
        "E2": arr(3, 3, [0, 1], adj=[(-1, -1), (-1, 1), (1, -1), (1, 1)]),          # diagonal neighbours only
        "E3": arr(2, 3, [0, 1, 2], sym=True, adj=[(0, 1), (0, -1), (1, 1), (-1, -1)]),
        "E4": arr(3, 4, [0, 1], sym=True, adj=[(0, -1), (0, 1)]),      # a cell's own mirror image sits at a forbidden offset
        "E5": arr(1, 6, [0, 1, 2], sym=True, adj=[(0, -1), (0, 1)]),
        "E6": arr(4, 3, [0, 1], sym=True, adj=[(-1, 0), (1, 0)]),
        "E7": arr(2, 2, [0, 1, 2], sym=True, adj=[(dy, dx) for dy in (-1, 0, 1) for dx in (-1, 0, 1) if (dy, dx) != (0, 0)]),
        "E8": arr(4, 4, [0, 1], sym=True, adj=[(-1, -1), (-1, 1), (1, -1), (1, 1), (0, 1), (0, -1)]),
        # values beyond CPython's small-int cache, the default given as a distinct object from the equal choice element
        "L1": (lambda: ArrayBuilder2D(2, 3, [int("300"), int("301"), int("302")], default=int("300"), symmetry=True),
               {"kind": "array", "h": 2, "w": 3, "choice": [300, 301, 302], "default": 300, "symmetry": True,
                "adjacent": False, "offsets": [], "move": False}, flat),
        "F": arr(2, 2, [0, 1, 2], move=True),
        "G": arr(2, 3, [0, 1, 2], sym=True, adj=True, move=True),
        "G2": arr(3, 3, [0, 1, 2], sym=True, adj=True),
        "H": seg(2, 2, {"minB": 1, "maxB": 4, "minS": 1, "maxS": 4}),
        "H2": seg(2, 3, {"minB": 2, "maxB": 3, "minS": 1, "maxS": 4}),
        # initial_blocks that do not meet the bounds yet: initial() repairs a copy of them
        "H3": seg(2, 3, {"minB": 2, "maxB": 4, "minS": 1, "maxS": 3}, initial_blocks=_H3_BLOCKS),
    }


def oracle(seed, key, p_pre, p_sat, p_uniq):
    h = hashlib.sha256(f"{seed}|{key}".encode()).digest()
    return {"pre": h[0] / 256 < p_pre, "sat": h[1] / 256 < p_sat, "uniq": h[2] / 256 < p_uniq, "score": h[3] % 5,
            "penalty": h[4] % 3}


def run_generate(args):
    """one generate_problem run -> trace record"""
    tid, pname, seed, opts = args
    from cspuz.generator import generate_problem
    import cspuz.generator.srandom as srandom
    mk, desc, proj = patterns()[pname]
    pyrandom.seed(seed)                       # the segmentation builder draws from Python's global PRNG
    srandom.use_deterministic_prng(True, seed=seed)
    events = []
    handed = []                               # (object, deep snapshot)

    def note(p):
        handed.append((p, copy.deepcopy(p)))
        return proj(p)

    answers = {}

    def solver(problem, initial=False):
        fp = note(problem)
        o = oracle(seed, fp, opts["p_pre"], opts["p_sat"], opts["p_uniq"])
        aid = len(answers)
        answers[aid] = (fp, o)
        events.append({"ev": "solver_initial" if initial else "solver", "p": fp, "sat": o["sat"], "ans": aid})
        return o["sat"], aid

    state = {"first": opts.get("solve_initial", False)}

    def solver_cb(problem):
        init = state["first"]
        state["first"] = False
        return solver(problem, init)

    def uniq_cb(aid):
        o = answers[aid][1]
        events.append({"ev": "unique", "ans": aid, "ret": o["uniq"]})
        return o["uniq"]

    def score_cb(aid):
        o = answers[aid][1]
        init = events and events[-1]["ev"] == "solver_initial"
        events.append({"ev": "score_initial" if init else "score", "ans": aid, "ret": o["score"]})
        return o["score"]

    def penalty_cb(problem):
        fp = note(problem)
        init = events and events[-1]["ev"] in ("score_initial",)
        o = oracle(seed, fp, 1, 1, 1)
        events.append({"ev": "penalty_initial" if init else "penalty", "p": fp, "ret": o["penalty"]})
        return o["penalty"]

    def pretest_cb(problem):
        fp = note(problem)
        o = oracle(seed, fp, opts["p_pre"], 1, 1)
        events.append({"ev": "pretest", "p": fp, "ret": o["pre"]})
        return o["pre"]

    # opts["reuse"]: one builder object for every run of this process (a builder is configuration, not state)
    pattern = _REUSED.setdefault(pname, mk()) if opts.get("reuse") else mk()
    rec = {"t": tid, "pattern": desc, "pname": pname, "seed": seed, "opts": opts, "status": "ok", "exc": ""}
    try:
        from cspuz.generator.builder import build_neighbor_generator
        kw = {}
        if opts.get("explicit_neighbor"):
            init, gen = build_neighbor_generator(pattern)
            kw = dict(initial_problem=init, neighbor_generator=gen)
            initial = init
        else:
            kw = dict(builder_pattern=pattern)
            initial = None
        # the initial problem is what the builders' initial() gives; observe it through a first pass of the same pattern
        if initial is None:
            pyrandom.seed(seed)
            srandom.use_deterministic_prng(True, seed=seed)
            initial, _ = build_neighbor_generator(mk())
            pyrandom.seed(seed)
            srandom.use_deterministic_prng(True, seed=seed)
        rec["initial"] = proj(initial)
        result = generate_problem(solver_cb, score=score_cb, uniqueness=uniq_cb,
                                  clue_penalty=penalty_cb if opts.get("penalty") else None,
                                  pretest=pretest_cb if opts.get("pretest") else None,
                                  max_steps=opts.get("max_steps"), solve_initial_problem=opts.get("solve_initial", False),
                                  initial_temperature=opts.get("temp", 5.0), **kw)
        intact = all(a == b for a, b in handed)
        # diagnostic only: C19 does not speak about the caller's initial_blocks list (the re-seeding schedule with one
        # builder object is what decides whether such a modification changes a run)
        rec["callers_initial_blocks_modified"] = any(a != b for a, b in _HANDED_BLOCKS)
        events.append({"ev": "return", "some": result is not None, "p": proj(result) if result is not None else [],
                       "intact": intact})
    except Exception as e:  # noqa
        rec["status"], rec["exc"] = "exc", type(e).__name__
    finally:
        srandom.use_deterministic_prng(False)
    for e in events:                          # homogeneous records for TLC
        e.setdefault("p", [])
        e.setdefault("sat", False)
        e.setdefault("ret", False if e["ev"] in ("unique", "pretest") else 0)
        e.setdefault("some", False)
        e.setdefault("intact", True)
        e.setdefault("ans", -1)
        if e["ev"] in ("score", "penalty", "score_initial", "penalty_initial"):
            e["ret"] = int(e["ret"])
    rec["events"] = events
    rec["candidates"] = [e["p"] for e in events if e["ev"] == "solver"]
    return rec


# ---------------------------------------------------------------------------------------
# PRNG

class ScriptedRaw:
    def __init__(self, raws):
        self.raws, self.k = list(raws), 0

    def next(self):
        if self.k >= len(self.raws):
            raise IndexError("script exhausted")
        x = self.raws[self.k]
        self.k += 1
        return x


def replay_small_domain(rec):
    """spec case (D, a, b, raws) on the real randint with a scripted raw source of size D"""
    import cspuz.generator.deterministic_random as dr
    bad = []
    saved = (dr._XORSHIFT_DOMAIN_SIZE, dr._rng)
    try:
        dr._XORSHIFT_DOMAIN_SIZE = rec["D"]
        for c in rec["cases"]:
            src = ScriptedRaw(c["raws"])
            dr._rng = src
            try:
                v = dr.randint(rec["a"], rec["b"])
                got = {"ok": True, "val": v, "used": src.k}
            except IndexError:
                got = {"ok": False, "val": 0, "used": src.k}
            except Exception as e:  # noqa
                got = {"ok": "raised " + type(e).__name__, "val": 0, "used": src.k}
            if got != c["r"]:
                bad.append({"D": rec["D"], "a": rec["a"], "b": rec["b"], "raws": c["raws"], "expected": c["r"], "observed": got})
            # choice over a candidate sequence of the same width: the same raw draws must pick the element at the same index
            src = ScriptedRaw(c["raws"])
            dr._rng = src
            cand = [("cand", i) for i in range(rec["b"] - rec["a"] + 1)]
            try:
                v = dr.choice(cand)
                got2 = {"ok": True, "val": rec["a"] + v[1], "used": src.k}
            except IndexError:
                got2 = {"ok": False, "val": 0, "used": src.k}
            except Exception as e:  # noqa
                got2 = {"ok": "raised " + type(e).__name__, "val": 0, "used": src.k}
            if got2 != c["r"]:
                bad.append({"D": rec["D"], "a": rec["a"], "b": rec["b"], "raws": c["raws"], "expected": c["r"], "observed": got2,
                            "function": "choice"})
    finally:
        dr._XORSHIFT_DOMAIN_SIZE, dr._rng = saved
    return bad


def record_real_prng(args):
    """calls of the real srandom functions with the real XorShift, raws logged as 16-bit limbs"""
    tid, seed, ncalls = args
    import cspuz.generator.deterministic_random as dr
    import cspuz.generator.srandom as srandom
    rng = pyrandom.Random(seed)

    class Rec(dr.XorShift):
        def __init__(self, s):
            super().__init__(s)
            self.log = []

        def next(self):
            x = super().next()
            self.log.append({"hi": (x >> 16) & 0xFFFF, "lo": x & 0xFFFF, "wide": x >= (1 << 32) or x < 0})
            return x

    saved = dr._rng
    srandom.use_deterministic_prng(True, seed=seed)
    r = Rec(seed)
    dr._rng = r
    calls = []

    def raws_since(k):
        return [{"hi": x["hi"], "lo": x["lo"]} for x in r.log[k:]]

    try:
        for _ in range(ncalls):
            op = rng.choice(["randint", "randint", "choice", "shuffle", "random"])
            k0 = len(r.log)
            c = {"op": op, "status": "ok", "exc": "", "a": 0, "b": 0, "ret": 0, "raws": [], "n": 0, "idx": 0, "calls": [],
                 "result": [], "exact": True}
            try:
                if op == "randint":
                    a = rng.choice([0, 0, 1, 5, -3, -40, 100])
                    w = rng.choice([1, 2, 3, 5, 6, 7, 10, 100, 1000, 4096, 30000, 40000])   # (w-1)^2 must stay below 2^31 for TLC
                    c["a"], c["b"] = a, a + w - 1
                    c["ret"] = srandom.randint(a, a + w - 1)
                    c["raws"] = raws_since(k0)
                elif op == "choice":
                    n = rng.choice([1, 2, 3, 7, 10, 64])
                    cand = list(range(100, 100 + n))
                    v = srandom.choice(cand)
                    c["n"], c["idx"] = n, cand.index(v)
                    c["raws"] = raws_since(k0)
                elif op == "shuffle":
                    n = rng.choice([0, 1, 2, 3, 4, 5, 8])
                    seq = list(range(1, n + 1))
                    marks = []
                    orig = dr.randint

                    def spy(a, b):
                        k1 = len(r.log)
                        v = orig(a, b)
                        marks.append({"raws": raws_since(k1), "ret": v, "a": a, "b": b})
                        return v
                    dr.randint = spy
                    try:
                        srandom.shuffle(seq)
                    finally:
                        dr.randint = orig
                    c["n"], c["result"] = n, seq
                    c["calls"] = [{"raws": m["raws"], "ret": m["ret"]} for m in marks]
                    if any(m["a"] != 0 or m["b"] != i + 1 for i, m in enumerate(marks)):
                        c["status"], c["exc"] = "exc", "ShuffleDrawsFromWrongRange"
                else:
                    v = srandom.random()
                    c["raws"] = raws_since(k0)
                    x = r.log[-1]
                    c["exact"] = (v * 4294967296.0 == float((x["hi"] << 16) | x["lo"])) and 0.0 <= v < 1.0
            except Exception as e:  # noqa
                c["status"], c["exc"] = "exc", type(e).__name__
            calls.append(c)
    finally:
        dr._rng = saved
        srandom.use_deterministic_prng(False)
    return {"t": tid, "seed": seed, "calls": calls, "any_wide": any(x["wide"] for x in r.log)}
