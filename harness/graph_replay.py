"""P1 replay for the graph-constraint families (C04-C10): the cases and their definitional verdicts come
from TLC (spec/MC_Graph.tla); here the real helper is called on a fresh Solver, the pattern is fixed, and
the real z3 path decides.  For the native-primitive route (no solver offline) the emitted program is
exported for spec/Trace_Emit.tla, which decides it for every pattern with the operator's defined meaning."""
import signal
import warnings

from cspuz import Solver, graph as cg, BoolGridFrame
from cspuz.array import BoolArray1D, BoolArray2D
from cspuz.expr import BoolVar, IntVar

from .export import program, sol_of


class Watchdog(Exception):
    pass


def _alarm(signum, frame):
    raise Watchdog()


FLIP = [0]      # orientation variant used by mk_graph (set per job): the definitions do not depend on how an edge is written


_JOB_GRAPHS = {}   # id(graph description of the current job) -> (Graph object, description); cleared by _orient
EORD = [0]      # order in which mk_graph adds the edges: 0 as listed, 1 reversed, 2 second half first (set per job)
HIST = [False]  # history variant used by mk_graph: the Graph object is used for constraints while it is still being built


def _orient(job, explicit=None):
    """per-job variants.  explicit: the value this job passes for use_graph_primitive (None: the helper is called
    without it).  In every other job that passes the option, the configuration defaults are set to the OPPOSITE value:
    an explicit argument wins over cspuz.config, so the verdicts must not change."""
    _JOB_GRAPHS.clear()
    EORD[0] = job.get("eorder", (job.get("id", 0) // 2) % 3)
    FLIP[0] = job.get("flip", 0)
    HIST[0] = bool(job.get("hist", (job.get("id", 0) + job.get("flip", 0)) % 2))
    opposite = explicit is not None and bool(job.get("cfg_opposite", job.get("id", 0) % 2))
    _cfgmod.config.use_graph_primitive = (not explicit) if opposite else False
    _cfgmod.config.use_graph_division_primitive = (not explicit) if opposite else False


def mk_graph(g):
    """the real Graph object; with FLIP[0] = 1 every edge, with 2 every other edge is added as (larger, smaller).
    With HIST[0] the object is first used (on scratch solvers, with both encodings) when only half of its edges are
    there: a Graph is a container, what was asked about an earlier state of it must not leak into a later use."""
    if id(g) in _JOB_GRAPHS:
        # ONE Graph object per job, handed to the helper for every pattern of the job (as a caller who builds the
        # graph of a board once does): a helper must leave the Graph it is given alone
        return _JOB_GRAPHS[id(g)][0]
    G = cg.Graph(g["n"])
    m = len(g["edges"])
    # the edges are ADDED in another order than they are listed (EORD): edge number k of the Graph object is edge
    # perm[k] of the description, and the per-edge arguments are handed over in that order too (edge_args)
    perm = list(range(m)) if EORD[0] == 0 else list(range(m - 1, -1, -1)) if EORD[0] == 1 else list(range(m // 2, m)) + list(range(m // 2))
    _JOB_GRAPHS[id(g)] = (G, g, perm)
    half = (m + 1) // 2 if HIST[0] and m >= 2 else -1
    for i, (u, v) in enumerate([g["edges"][k] for k in perm]):
        if i == half:
            _use_unfinished(G)
        if FLIP[0] == 1 or (FLIP[0] == 2 and i % 2 == 0):
            G.add_edge(max(u, v), min(u, v))
        else:
            G.add_edge(u, v)
    return G


def edge_args(g, arg):
    """per-edge arguments (flags) in the order in which mk_graph added the edges of description g"""
    mk_graph(g)
    perm = _JOB_GRAPHS[id(g)][2]
    if perm == list(range(len(perm))):
        return arg
    if isinstance(arg, BoolArray1D):
        return BoolArray1D([arg[k] for k in perm])
    return type(arg)(arg[k] for k in perm) if isinstance(arg, (list, tuple)) else arg


def _use_unfinished(G):
    for prim in (True, False):
        s2 = Solver()
        cg.active_vertices_connected(s2, [s2.bool_var() for _ in range(G.num_vertices)], G, use_graph_primitive=prim)
        s2 = Solver()
        cg.active_edges_single_cycle(s2, [s2.bool_var() for _ in range(len(G))], G, use_graph_primitive=prim)
        s2 = Solver()
        cg.division_connected_variable_groups_with_borders(s2, group_size=None, is_border=[s2.bool_var() for _ in range(len(G))],
                                                           graph=G, use_graph_primitive=prim)
    G.line_graph()


def bits_of(p, n):
    return [bool((p >> i) & 1) for i in range(n)]


def _z3_limit(ms=120000):
    """z3's check() cannot be interrupted by a Python signal handler: give every z3 solver a time limit.
    A run that hits it surfaces as Z3Exception('model is not available') and is counted as inconclusive."""
    try:
        import z3
        z3.set_param("timeout", ms)
    except Exception:
        pass


INCONCLUSIVE = "inconclusive (z3 time limit)"


def solve(s, limit=300, call="find_answer"):
    _z3_limit()
    signal.signal(signal.SIGALRM, _alarm)
    signal.alarm(limit)
    try:
        with warnings.catch_warnings():
            warnings.simplefilter("ignore")
            try:
                return s.find_answer("z3") if call == "find_answer" else s.solve("z3")
            except Exception as e:  # noqa
                if type(e).__name__ == "Z3Exception" and "model is not available" in str(e):
                    return INCONCLUSIVE
                raise
    finally:
        signal.alarm(0)


class Flags:
    """n boolean inputs of a helper, supplied in one of several forms; fix(bits) pins the pattern."""

    def __init__(self, s, n, form, shape=None):
        self.s, self.n, self.form = s, n, form
        self.bitmap = []     # per pattern bit: (variable id, negated?)
        self.fixed = []      # (variable id, value) pinned regardless of the pattern
        if form in ("vars", "array"):
            vs = [s.bool_var() for _ in range(n)]
            self.items = list(vs)
            self.bitmap = [(v.id, False) for v in vs]
        elif form == "neg":
            vs = [s.bool_var() for _ in range(n)]
            self.items = [~v for v in vs]
            self.bitmap = [(v.id, True) for v in vs]
        elif form == "xor":
            vs = [s.bool_var() for _ in range(n)]
            qs = [s.bool_var() for _ in range(n)]
            self.items = [(v ^ q) & True for v, q in zip(vs, qs)]
            self.bitmap = [(v.id, False) for v in vs]
            self.fixed = [(q.id, False) for q in qs]
        else:
            raise ValueError(form)
        self.vars = s.variables[:]

    def as_arg(self, shape=None):
        if shape is not None:
            return BoolArray2D(self.items, shape)
        if self.form == "array":
            return BoolArray1D(self.items)
        return self.items

    def fix(self, bits):
        s = self.s
        for (vid, neg), b in zip(self.bitmap, bits):
            s.ensure(s.variables[vid] == (b != neg))
        for vid, val in self.fixed:
            s.ensure(s.variables[vid] == val)

    def emit_info(self):
        return {"bits": [{"var": v, "neg": n} for v, n in self.bitmap],
                "fixed": [{"var": v, "val": x} for v, x in self.fixed]}


def const_flags(bits):
    return [bool(b) for b in bits]


# ---------------------------------------------------------------------------------------
# family-specific construction: returns the arguments for the helper given a Flags object

def call_conn(s, obj, flags_arg, acyclic, prim):
    if obj["kind"] == "grid":
        cg.active_vertices_connected(s, flags_arg, acyclic=acyclic, use_graph_primitive=prim)
    else:
        cg.active_vertices_connected(s, flags_arg, mk_graph(obj["graph"]), acyclic=acyclic,
                                     use_graph_primitive=prim)


def run_conn(job):
    """job: obj, acyclic, form, patterns, expects -> list of mismatches"""
    _orient(job, explicit=bool(job.get("prim", False)))
    obj, acyclic, form = job["obj"], job["acyclic"], job["form"]
    n = obj["graph"]["n"]
    shape = (obj["h"], obj["w"]) if obj["kind"] == "grid" else None
    out = []
    for p, exp in zip(job["patterns"], job["expects"]):
        s = Solver()
        bits = bits_of(p, n)
        try:
            if form == "const":
                arg = BoolArray2D(const_flags(bits), shape) if shape else const_flags(bits)
                call_conn(s, obj, arg, acyclic, job.get("prim", False))
            else:
                fl = Flags(s, n, form)
                call_conn(s, obj, fl.as_arg(shape), acyclic, job.get("prim", False))
                fl.fix(bits)
            got = solve(s)
        except Watchdog:
            got = "DidNotTerminate"
        except Exception as e:  # noqa
            got = "raised " + type(e).__name__
        if got != exp and got != INCONCLUSIVE:
            out.append({"pattern": p, "expected": exp, "observed": got})
    return out


def emit_conn(job):
    _orient(job, explicit=True)
    obj, acyclic, form = job["obj"], job["acyclic"], job["form"]
    n = obj["graph"]["n"]
    shape = (obj["h"], obj["w"]) if obj["kind"] == "grid" else None
    s = Solver()
    fl = Flags(s, n, form)
    try:
        call_conn(s, obj, fl.as_arg(shape), acyclic, True)
    except Exception as e:  # noqa
        return {"status": "exc", "exc": type(e).__name__}
    rec = {"status": "ok", "exc": "", "prog": program(s)}
    rec.update(fl.emit_info())
    return rec


# ---------------------------------------------------------------------------------------
# generic z3 runner: job["family"] selects how the helper is called

def _call_helper(s, job, arg):
    fam, obj = job["family"], job["obj"]
    if fam == "acyclic":
        cg.active_edges_acyclic(s, edge_args(obj["graph"], arg), mk_graph(obj["graph"]))
    elif fam == "notadj":
        if obj["kind"] == "grid":
            cg.active_vertices_not_adjacent(s, arg)
        else:
            cg.active_vertices_not_adjacent(s, arg, mk_graph(obj["graph"]))
    elif fam == "notseg":
        if obj["kind"] == "grid" and job.get("as_graph"):
            cg.active_vertices_not_adjacent_and_not_segmenting(s, arg, mk_graph(obj["graph"]))
        elif obj["kind"] == "grid":
            cg.active_vertices_not_adjacent_and_not_segmenting(s, arg)
        else:
            cg.active_vertices_not_adjacent_and_not_segmenting(s, arg, mk_graph(obj["graph"]))
    else:
        raise ValueError(fam)
    return None


def run_flags(job):
    """families whose only inputs are n boolean flags and whose only output is the verdict"""
    _orient(job)
    obj, form = job["obj"], job["form"]
    n = job["nflags"]
    shape = (obj["h"], obj["w"]) if (obj["kind"] == "grid" and not job.get("as_graph")) else None
    out = []
    for p, exp in zip(job["patterns"], job["expects"]):
        s = Solver()
        bits = bits_of(p, n)
        try:
            if form == "const":
                if job["family"] in ("notseg",) and not shape:
                    arg = BoolArray1D(const_flags(bits))
                else:
                    arg = BoolArray2D(const_flags(bits), shape) if shape else const_flags(bits)
                _call_helper(s, job, arg)
            else:
                fl = Flags(s, n, form)
                arg = fl.as_arg(shape)
                if job["family"] == "notseg" and not shape and not isinstance(arg, BoolArray1D):
                    arg = BoolArray1D(arg)      # the graph form negates the array: needs an array
                _call_helper(s, job, arg)
                fl.fix(bits)
            got = solve(s)
        except Watchdog:
            got = "DidNotTerminate"
        except Exception as e:  # noqa
            got = "raised " + type(e).__name__
        if got != exp and got != INCONCLUSIVE:
            out.append({"pattern": p, "expected": exp, "observed": got})
    return out


# ---------------------------------------------------------------------------------------
# C06: single cycle / single path

def _edge_flags(s, obj, form):
    """returns (argument for the helper, Flags-like fixer, number of flags)"""
    if obj["kind"] == "frame":
        fr = BoolGridFrame(s, obj["h"], obj["w"])
        edges, _ = cg._from_grid_frame(fr)       # the order MC_Graph's Lattice() uses (checked by C14)
        ids = [e.id for e in edges]
        return fr, ids
    fl = Flags(s, len(obj["graph"]["edges"]), form)
    return fl, None


def _fix_ids(s, ids, bits):
    for vid, b in zip(ids, bits):
        s.ensure(s.variables[vid] == b)


def run_cycle(job):
    """z3 route of active_edges_single_cycle: verdict and, through solve(), the returned array"""
    _orient(job, explicit=bool(job.get("prim", False)))
    obj, form = job["obj"], job["form"]
    m = len(obj["graph"]["edges"])
    npts = obj["graph"]["n"]
    out = []
    for p, exp, mask in zip(job["patterns"], job["expects"], job["masks"]):
        s = Solver()
        bits = bits_of(p, m)
        got, why = None, ""
        try:
            if obj["kind"] == "frame":
                fr, ids = _edge_flags(s, obj, form)
                before = [id(e) for e in fr]
                ret = cg.active_edges_single_cycle(s, fr, use_graph_primitive=job.get("prim", False))
                if [id(e) for e in fr] != before:
                    why = "the frame handed to the constraint was modified by the call (its edges changed)"
                if tuple(ret.shape) != (obj["h"] + 1, obj["w"] + 1):
                    why = why or f"returned shape {ret.shape}"
                _fix_ids(s, ids, bits)
                passed = list(ret.flatten())
            else:
                if form == "const":
                    arg = const_flags(bits)
                    ret = cg.active_edges_single_cycle(s, edge_args(obj["graph"], arg), mk_graph(obj["graph"]), use_graph_primitive=job.get("prim", False))
                else:
                    fl, _ = _edge_flags(s, obj, form)
                    ret = cg.active_edges_single_cycle(s, edge_args(obj["graph"], fl.as_arg()), mk_graph(obj["graph"]), use_graph_primitive=job.get("prim", False))
                    fl.fix(bits)
                passed = list(ret)
            s.add_answer_key(passed)
            got = solve(s, call="solve")
            if got is True and not why:
                vals = [v.sol for v in passed]
                want = bits_of(mask, npts)
                if vals != want:
                    why = f"returned array {vals} but the cycle visits {want}"
        except Watchdog:
            got = "DidNotTerminate"
        except Exception as e:  # noqa
            got = "raised " + type(e).__name__
        if (got != exp or why) and got != INCONCLUSIVE:
            out.append({"pattern": p, "expected": exp, "observed": got, "why": why})
    return out


def emit_cycle(job):
    """native-primitive program of single_cycle / single_path"""
    _orient(job, explicit=True)
    obj, form, which = job["obj"], job["form"], job["which"]
    fn = cg.active_edges_single_cycle if which == "cycle" else cg.active_edges_single_path
    s = Solver()
    try:
        if obj["kind"] == "frame":
            fr, ids = _edge_flags(s, obj, form)
            ret = fn(s, fr, use_graph_primitive=True)
            passed = list(ret.flatten())
            shape_ok = tuple(ret.shape) == (obj["h"] + 1, obj["w"] + 1)
            info = {"bits": [{"var": i, "neg": False} for i in ids], "fixed": []}
        else:
            fl, _ = _edge_flags(s, obj, form)
            ret = fn(s, edge_args(obj["graph"], fl.as_arg()), mk_graph(obj["graph"]), use_graph_primitive=True)
            passed = list(ret)
            shape_ok = len(passed) == obj["graph"]["n"]
            info = fl.emit_info()
    except Exception as e:  # noqa
        return {"status": "exc", "exc": type(e).__name__}
    if not shape_ok or not all(isinstance(v, BoolVar) for v in passed):
        return {"status": "exc", "exc": "ReturnedArrayHasWrongShape"}
    rec = {"status": "ok", "exc": "", "prog": program(s),
           "outs": [{"vars": [v.id for v in passed], "masks": job["masks"]}]}
    rec.update(info)
    return rec


def path_nonprimitive_raises(obj):
    s = Solver()
    try:
        if obj["kind"] == "frame":
            cg.active_edges_single_path(s, BoolGridFrame(s, obj["h"], obj["w"]), use_graph_primitive=False)
        else:
            m = len(obj["graph"]["edges"])
            cg.active_edges_single_path(s, [s.bool_var() for _ in range(m)], mk_graph(obj["graph"]), use_graph_primitive=False)
    except Exception:
        return True
    return False


# ---------------------------------------------------------------------------------------
# C05: division_connected

import cspuz.configuration as _cfgmod
from cspuz.array import IntArray1D, IntArray2D
from cspuz.grid_frame import BoolInnerGridFrame


def digits_of(L, n, R):
    out = []
    for _ in range(n):
        out.append(L % R)
        L //= R
    return out


def _div_setup(s, job, fixed=None):
    obj, R = job["obj"], job["R"]
    n = obj["graph"]["n"]
    # the caller's `roots` list is built once per job and handed over for every labeling (a caller solving many boards
    # with the same roots does that): the helper must not depend on, or change, what it was given
    if "_roots_obj" not in job:
        roots = None if job["rootsopt"] == 0 else [None if r < 0 else r for r in job["roots"]]
        if roots is not None and obj["kind"] == "grid":
            roots = [None if r is None else (r // obj["w"], r % obj["w"]) for r in roots]
        if roots is not None and job.get("id", 0) % 2 and roots and roots[-1] is None:
            while roots and roots[-1] is None:      # the same requirement written as a shorter list
                roots.pop()
        job["_roots_obj"] = roots
    roots = job["_roots_obj"]
    if obj["kind"] == "grid":
        h, w = obj["h"], obj["w"]
        division = s.int_array((h, w), 0, R - 1)
        labs = list(division.flatten())
        cg.division_connected(s, division, R, roots=roots, allow_empty_group=job["allow_empty"])
    else:
        arr = s.int_array(n, 0, R - 1)
        labs = list(arr)
        if fixed and job["form"] != "array":
            # label expressions may be Python ints (IntExprLike): a labeling that is given, in whole or in part
            labs = [fixed.get(v, x) for v, x in enumerate(labs)]
        division = arr if job["form"] == "array" else labs
        cg.division_connected(s, division, R, mk_graph(obj["graph"]), roots=roots,
                              allow_empty_group=job["allow_empty"])
    return labs


def run_div(job):
    _orient(job)
    n, R = job["obj"]["graph"]["n"], job["R"]
    out = []
    old = _cfgmod.config.use_graph_primitive
    _cfgmod.config.use_graph_primitive = job.get("prim", False)
    try:
        for L, exp in zip(job["patterns"], job["expects"]):
            s = Solver()
            try:
                digs = digits_of(L, n, R)
                fixed = None
                if L % 4 == 1:
                    fixed = dict(enumerate(digs))
                elif L % 4 == 3:
                    fixed = {v: d for v, d in enumerate(digs) if v % 3 != 2}
                labs = _div_setup(s, job, fixed)
                for v, d in zip(labs, digs):
                    if not isinstance(v, int):
                        s.ensure(v == d)
                got = solve(s)
            except Watchdog:
                got = "DidNotTerminate"
            except Exception as e:  # noqa
                got = "raised " + type(e).__name__
            if got != exp and got != INCONCLUSIVE:
                out.append({"pattern": L, "expected": exp, "observed": got})
    finally:
        _cfgmod.config.use_graph_primitive = old
    return out


def emit_div(job):
    _orient(job)
    old = _cfgmod.config.use_graph_primitive
    _cfgmod.config.use_graph_primitive = True
    s = Solver()
    try:
        labs = _div_setup(s, job)
    except Exception as e:  # noqa
        return {"status": "exc", "exc": type(e).__name__}
    finally:
        _cfgmod.config.use_graph_primitive = old
    return {"status": "ok", "exc": "", "prog": program(s), "base": job["R"],
            "bits": [{"var": v.id, "neg": False, "isint": True} for v in labs], "fixed": []}


def div_grid_int_root_raises():
    s = Solver()
    d = s.int_array((2, 2), 0, 1)
    try:
        cg.division_connected(s, d, 2, roots=[1, None])
    except TypeError:
        return True
    except Exception:
        return False
    return False


# ---------------------------------------------------------------------------------------
# C07: variable groups, with and without borders

def _sizes_arg(s, job, n):
    kind, sizes = job["sizekind"], job["sizes"]
    if kind == "none":
        return None
    if kind == "const1":
        return 1
    if kind == "const2":
        return 2
    if kind == "const0":
        return 0
    if kind == "shared":
        return s.int_var([1, -1, 0][job.get("id", 0) % 3], n)     # a lower bound below 1 is legal (sizes are >= 1 anyway)
    return [None if x < 0 else x for x in sizes]


def run_groups(job):
    _orient(job)
    obj = job["obj"]
    n = obj["graph"]["n"]
    out = []
    for idx, (rgs, exp) in enumerate(zip(job["parts"], job["expects"])):
        s = Solver()
        why = ""
        try:
            gs = _sizes_arg(s, job, n)
            if obj["kind"] == "grid":
                h, w = obj["h"], obj["w"]
                if isinstance(gs, list):
                    # the nested size list is the caller's: one object for every partition of the job
                    if "_sizes2d" not in job:
                        rows = [gs[y * w:(y + 1) * w] for y in range(h)]
                        # any Sequence[Sequence[...]] is a legal size argument: rows as lists, as tuples, a tuple of tuples
                        rk = (job.get("id", 0) // 4) % 3
                        job["_sizes2d"] = rows if rk == 0 else [tuple(r) for r in rows] if rk == 1 else tuple(tuple(r) for r in rows)
                    gs2 = job["_sizes2d"]
                    if job["form"] == "array":      # sizes as an IntArray2D of variables, holes left free
                        arr = s.int_array((h, w), 1, n)
                        for i, x in enumerate(gs):
                            if x is not None:
                                s.ensure(arr[i // w, i % w] == x)
                        gs2 = arr
                    if (job.get("id", 0) // 2) % 2:      # the shape is inferred from the nested list / array
                        gid = cg.division_connected_variable_groups(s, group_size=gs2)
                    else:
                        gid = cg.division_connected_variable_groups(s, shape=(h, w), group_size=gs2)
                else:
                    gid = cg.division_connected_variable_groups(s, shape=(h, w), group_size=gs)
                if tuple(gid.shape) != (h, w):
                    why = f"returned shape {gid.shape}"
                ids = list(gid.flatten())
            else:
                gid = cg.division_connected_variable_groups(s, graph=mk_graph(obj["graph"]), group_size=gs)
                ids = list(gid)
            for u in range(n):
                for v in range(u + 1, n):
                    s.ensure((ids[u] == ids[v]) == (rgs[u] == rgs[v]))
            got = solve(s)
        except Watchdog:
            got = "DidNotTerminate"
        except Exception as e:  # noqa
            got = "raised " + type(e).__name__
        if (got != exp or why) and got != INCONCLUSIVE:
            out.append({"pattern": idx, "rgs": rgs, "expected": exp, "observed": got, "why": why})
    return out


def _border_setup(s, job, prim):
    obj = job["obj"]
    n = obj["graph"]["n"]
    m = len(obj["graph"]["edges"])
    sizes = job["sizes"]
    kind = job["sizekind"]
    per_vertex = [None] * n if kind == "none" else [1] * n if kind == "const1" else [2] * n if kind == "const2" \
        else [0] * n if kind == "const0" \
        else [None if x < 0 else x for x in sizes]
    if obj["kind"] == "inner":
        h, w = obj["h"], obj["w"]
        arr = s.int_array((h, w), 1, n)
        for i, x in enumerate(per_vertex):
            if x is not None:
                s.ensure(arr[i // w, i % w] == x)
        inner = BoolInnerGridFrame(s, h, w)
        edges, _ = cg._from_grid_frame(inner.dual())
        ids = [e.id for e in edges]
        cg.division_connected_variable_groups_with_borders(s, group_size=arr, is_border=inner,
                                                           use_graph_primitive=prim)
        return [{"var": i, "neg": False} for i in ids], []
    fl = Flags(s, m, job["form"])
    gs = None if kind == "none" else per_vertex
    cg.division_connected_variable_groups_with_borders(s, group_size=gs, is_border=edge_args(obj["graph"], fl.as_arg()),
                                                       graph=mk_graph(obj["graph"]), use_graph_primitive=prim)
    info = fl.emit_info()
    return info["bits"], info["fixed"]


def run_borders(job):
    _orient(job, explicit=bool(job.get("prim", False)))
    m = len(job["obj"]["graph"]["edges"])
    out = []
    for p, exp in zip(job["patterns"], job["expects"]):
        s = Solver()
        try:
            bits, fixed = _border_setup(s, job, job.get("prim", False))
            for b, val in zip(bits, bits_of(p, m)):
                s.ensure(s.variables[b["var"]] == (val != b["neg"]))
            for f in fixed:
                s.ensure(s.variables[f["var"]] == f["val"])
            got = solve(s)
        except Watchdog:
            got = "DidNotTerminate"
        except Exception as e:  # noqa
            got = "raised " + type(e).__name__
        if got != exp and got != INCONCLUSIVE:
            out.append({"pattern": p, "expected": exp, "observed": got})
    return out


def emit_borders(job):
    _orient(job, explicit=True)
    s = Solver()
    try:
        bits, fixed = _border_setup(s, job, True)
    except Exception as e:  # noqa
        return {"status": "exc", "exc": type(e).__name__}
    return {"status": "ok", "exc": "", "prog": program(s), "bits": bits, "fixed": fixed}


# ---------------------------------------------------------------------------------------
# C10: crossable loop / path

def _cross_call(s, fr, job, prim):
    if job["single_cycle"] and job.get("alias"):
        return cg.active_edges_single_cycle_crossable(s, fr, use_graph_primitive=prim)
    return cg.active_edges_connected_crossable(s, fr, single_cycle=job["single_cycle"], use_graph_primitive=prim)


def _cross_frame(s, h, w, form, bits):
    """the frame whose segments carry the pattern: fresh variables pinned afterwards ("vars"), Python constants
    ("const": a drawing that is given), or every other segment a constant ("mixed": given segments plus unknowns);
    segment k is the k-th edge in the order of cspuz.graph._from_grid_frame"""
    if form == "vars":
        fr = BoolGridFrame(s, h, w)
        edges, _ = cg._from_grid_frame(fr)
        return fr, list(zip(edges, bits))
    hor = [[None] * w for _ in range(h + 1)]
    ver = [[None] * (w + 1) for _ in range(h)]
    pins, k = [], 0
    for y in range(h + 1):
        for x in range(w + 1):
            for vertical in (True, False):
                if (vertical and y == h) or (not vertical and x == w):
                    continue
                if form == "const" or k % 2 == 0:
                    item = bool(bits[k])
                else:
                    item = s.bool_var()
                    pins.append((item, bits[k]))
                if vertical:
                    ver[y][x] = item
                else:
                    hor[y][x] = item
                k += 1
    fr = BoolGridFrame(s, h, w, horizontal=BoolArray2D([i for row in hor for i in row], (h + 1, w)),
                       vertical=BoolArray2D([i for row in ver for i in row], (h, w + 1)))
    return fr, pins


def run_cross(job):
    _orient(job, explicit=bool(job.get("prim", False)))
    obj = job["obj"]
    h, w = obj["h"], obj["w"]
    m = len(obj["graph"]["edges"])
    npts = obj["graph"]["n"]
    out = []
    for p, exp, pm, cm in zip(job["patterns"], job["expects"], job["passed"], job["cross"]):
        s = Solver()
        why = ""
        try:
            fr, pins = _cross_frame(s, h, w, job.get("frameform", "vars"), bits_of(p, m))
            before = [id(e) for e in fr] + [id(e) for e in fr.all_edges()]
            if p % 5 == 2:
                # a history on one solver and one frame: the trail constraint was already posted (path or cycle), then the
                # job's own call follows - the conjunction admits exactly what the (equal or stronger) second call admits
                cg.active_edges_connected_crossable(s, fr, single_cycle=False, use_graph_primitive=job.get("prim", False))
            passed, cross = _cross_call(s, fr, job, job.get("prim", False))
            if [id(e) for e in fr] + [id(e) for e in fr.all_edges()] != before:
                # the segments the caller goes on to constrain are no longer the ones it drew
                why = "the frame handed to the constraint was modified by the call (its edges changed)"
            if tuple(passed.shape) != (h + 1, w + 1) or tuple(cross.shape) != (h + 1, w + 1):
                why = why or f"returned shapes {passed.shape} {cross.shape}"
            for v, b in pins:
                s.ensure(v == b)
            pv, cv = list(passed.flatten()), list(cross.flatten())
            s.add_answer_key(pv, cv)
            got = solve(s, call="solve")
            if got is True and not why:
                if [v.sol for v in pv] != bits_of(pm, npts):
                    why = f"is_passed {[v.sol for v in pv]} but the visited points are {bits_of(pm, npts)}"
                elif [v.sol for v in cv] != bits_of(cm, npts):
                    why = f"is_cross {[v.sol for v in cv]} but the 4-way points are {bits_of(cm, npts)}"
        except Watchdog:
            got = "DidNotTerminate"
        except Exception as e:  # noqa
            got = "raised " + type(e).__name__
        if (got != exp or why) and got != INCONCLUSIVE:
            out.append({"pattern": p, "expected": exp, "observed": got, "why": why})
    return out


def emit_cross(job):
    _orient(job, explicit=True)
    obj = job["obj"]
    h, w = obj["h"], obj["w"]
    s = Solver()
    try:
        fr = BoolGridFrame(s, h, w)
        edges, _ = cg._from_grid_frame(fr)
        ids = [e.id for e in edges]
        passed, cross = _cross_call(s, fr, job, True)
        pv, cv = list(passed.flatten()), list(cross.flatten())
    except Exception as e:  # noqa
        return {"status": "exc", "exc": type(e).__name__}
    return {"status": "ok", "exc": "", "prog": program(s),
            "bits": [{"var": i, "neg": False} for i in ids], "fixed": [],
            "outs": [{"vars": [v.id for v in pv], "masks": job["passed"]},
                     {"vars": [v.id for v in cv], "masks": job["cross"]}]}
