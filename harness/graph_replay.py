"""P1 replay for the graph-constraint families (C04-C10): the cases and their definitional verdicts come
from TLC (spec/MC_Graph.tla); here the real helper is called on a fresh Solver, the pattern is fixed, and
the real z3 path decides.  For the native-primitive route (no solver offline) the emitted program is
exported for spec/Trace_Emit.tla, which decides it for every pattern with the operator's defined meaning."""
import signal
import warnings

from cspuz import Solver, graph as cg, BoolGridFrame
from cspuz.array import BoolArray1D, BoolArray2D
from cspuz.expr import BoolVar, IntVar

from .export import program, sol_of


class Watchdog(Exception):
    pass


def _alarm(signum, frame):
    raise Watchdog()


def mk_graph(g):
    G = cg.Graph(g["n"])
    for u, v in g["edges"]:
        G.add_edge(u, v)
    return G


def bits_of(p, n):
    return [bool((p >> i) & 1) for i in range(n)]


def solve(s, limit=30):
    signal.signal(signal.SIGALRM, _alarm)
    signal.alarm(limit)
    try:
        with warnings.catch_warnings():
            warnings.simplefilter("ignore")
            return s.find_answer("z3")
    finally:
        signal.alarm(0)


class Flags:
    """n boolean inputs of a helper, supplied in one of several forms; fix(bits) pins the pattern."""

    def __init__(self, s, n, form, shape=None):
        self.s, self.n, self.form = s, n, form
        self.bitmap = []     # per pattern bit: (variable id, negated?)
        self.fixed = []      # (variable id, value) pinned regardless of the pattern
        if form in ("vars", "array"):
            vs = [s.bool_var() for _ in range(n)]
            self.items = list(vs)
            self.bitmap = [(v.id, False) for v in vs]
        elif form == "neg":
            vs = [s.bool_var() for _ in range(n)]
            self.items = [~v for v in vs]
            self.bitmap = [(v.id, True) for v in vs]
        elif form == "xor":
            vs = [s.bool_var() for _ in range(n)]
            qs = [s.bool_var() for _ in range(n)]
            self.items = [(v ^ q) & True for v, q in zip(vs, qs)]
            self.bitmap = [(v.id, False) for v in vs]
            self.fixed = [(q.id, False) for q in qs]
        else:
            raise ValueError(form)
        self.vars = s.variables[:]

    def as_arg(self, shape=None):
        if shape is not None:
            return BoolArray2D(self.items, shape)
        if self.form == "array":
            return BoolArray1D(self.items)
        return self.items

    def fix(self, bits):
        s = self.s
        for (vid, neg), b in zip(self.bitmap, bits):
            s.ensure(s.variables[vid] == (b != neg))
        for vid, val in self.fixed:
            s.ensure(s.variables[vid] == val)

    def emit_info(self):
        return {"bits": [{"var": v, "neg": n} for v, n in self.bitmap],
                "fixed": [{"var": v, "val": x} for v, x in self.fixed]}


def const_flags(bits):
    return [bool(b) for b in bits]


# ---------------------------------------------------------------------------------------
# family-specific construction: returns the arguments for the helper given a Flags object

def call_conn(s, obj, flags_arg, acyclic, prim):
    if obj["kind"] == "grid":
        cg.active_vertices_connected(s, flags_arg, acyclic=acyclic, use_graph_primitive=prim)
    else:
        cg.active_vertices_connected(s, flags_arg, mk_graph(obj["graph"]), acyclic=acyclic,
                                     use_graph_primitive=prim)


def run_conn(job):
    """job: obj, acyclic, form, patterns, expects -> list of mismatches"""
    obj, acyclic, form = job["obj"], job["acyclic"], job["form"]
    n = obj["graph"]["n"]
    shape = (obj["h"], obj["w"]) if obj["kind"] == "grid" else None
    out = []
    for p, exp in zip(job["patterns"], job["expects"]):
        s = Solver()
        bits = bits_of(p, n)
        try:
            if form == "const":
                arg = BoolArray2D(const_flags(bits), shape) if shape else const_flags(bits)
                call_conn(s, obj, arg, acyclic, job.get("prim", False))
            else:
                fl = Flags(s, n, form)
                call_conn(s, obj, fl.as_arg(shape), acyclic, job.get("prim", False))
                fl.fix(bits)
            got = solve(s)
        except Watchdog:
            got = "DidNotTerminate"
        except Exception as e:  # noqa
            got = "raised " + type(e).__name__
        if got != exp:
            out.append({"pattern": p, "expected": exp, "observed": got})
    return out


def emit_conn(job):
    obj, acyclic, form = job["obj"], job["acyclic"], job["form"]
    n = obj["graph"]["n"]
    shape = (obj["h"], obj["w"]) if obj["kind"] == "grid" else None
    s = Solver()
    fl = Flags(s, n, form)
    try:
        call_conn(s, obj, fl.as_arg(shape), acyclic, True)
    except Exception as e:  # noqa
        return {"status": "exc", "exc": type(e).__name__}
    rec = {"status": "ok", "exc": "", "prog": program(s)}
    rec.update(fl.emit_info())
    return rec


# ---------------------------------------------------------------------------------------
# generic z3 runner: job["family"] selects how the helper is called

def _call_helper(s, job, arg):
    fam, obj = job["family"], job["obj"]
    if fam == "acyclic":
        cg.active_edges_acyclic(s, arg, mk_graph(obj["graph"]))
    elif fam == "notadj":
        if obj["kind"] == "grid":
            cg.active_vertices_not_adjacent(s, arg)
        else:
            cg.active_vertices_not_adjacent(s, arg, mk_graph(obj["graph"]))
    elif fam == "notseg":
        if obj["kind"] == "grid" and job.get("as_graph"):
            cg.active_vertices_not_adjacent_and_not_segmenting(s, arg, mk_graph(obj["graph"]))
        elif obj["kind"] == "grid":
            cg.active_vertices_not_adjacent_and_not_segmenting(s, arg)
        else:
            cg.active_vertices_not_adjacent_and_not_segmenting(s, arg, mk_graph(obj["graph"]))
    else:
        raise ValueError(fam)
    return None


def run_flags(job):
    """families whose only inputs are n boolean flags and whose only output is the verdict"""
    obj, form = job["obj"], job["form"]
    n = job["nflags"]
    shape = (obj["h"], obj["w"]) if (obj["kind"] == "grid" and not job.get("as_graph")) else None
    out = []
    for p, exp in zip(job["patterns"], job["expects"]):
        s = Solver()
        bits = bits_of(p, n)
        try:
            if form == "const":
                if job["family"] in ("notseg",) and not shape:
                    arg = BoolArray1D(const_flags(bits))
                else:
                    arg = BoolArray2D(const_flags(bits), shape) if shape else const_flags(bits)
                _call_helper(s, job, arg)
            else:
                fl = Flags(s, n, form)
                arg = fl.as_arg(shape)
                if job["family"] == "notseg" and not shape and not isinstance(arg, BoolArray1D):
                    arg = BoolArray1D(arg)      # the graph form negates the array: needs an array
                _call_helper(s, job, arg)
                fl.fix(bits)
            got = solve(s)
        except Watchdog:
            got = "DidNotTerminate"
        except Exception as e:  # noqa
            got = "raised " + type(e).__name__
        if got != exp:
            out.append({"pattern": p, "expected": exp, "observed": got})
    return out


# ---------------------------------------------------------------------------------------
# C06: single cycle / single path

def _edge_flags(s, obj, form):
    """returns (argument for the helper, Flags-like fixer, number of flags)"""
    if obj["kind"] == "frame":
        fr = BoolGridFrame(s, obj["h"], obj["w"])
        edges, _ = cg._from_grid_frame(fr)       # the order MC_Graph's Lattice() uses (checked by C14)
        ids = [e.id for e in edges]
        return fr, ids
    fl = Flags(s, len(obj["graph"]["edges"]), form)
    return fl, None


def _fix_ids(s, ids, bits):
    for vid, b in zip(ids, bits):
        s.ensure(s.variables[vid] == b)


def run_cycle(job):
    """z3 route of active_edges_single_cycle: verdict and, through solve(), the returned array"""
    obj, form = job["obj"], job["form"]
    m = len(obj["graph"]["edges"])
    npts = obj["graph"]["n"]
    out = []
    for p, exp, mask in zip(job["patterns"], job["expects"], job["masks"]):
        s = Solver()
        bits = bits_of(p, m)
        got, why = None, ""
        try:
            if obj["kind"] == "frame":
                fr, ids = _edge_flags(s, obj, form)
                ret = cg.active_edges_single_cycle(s, fr, use_graph_primitive=job.get("prim", False))
                if tuple(ret.shape) != (obj["h"] + 1, obj["w"] + 1):
                    why = f"returned shape {ret.shape}"
                _fix_ids(s, ids, bits)
                passed = list(ret.flatten())
            else:
                if form == "const":
                    arg = const_flags(bits)
                    ret = cg.active_edges_single_cycle(s, arg, mk_graph(obj["graph"]), use_graph_primitive=job.get("prim", False))
                else:
                    fl, _ = _edge_flags(s, obj, form)
                    ret = cg.active_edges_single_cycle(s, fl.as_arg(), mk_graph(obj["graph"]), use_graph_primitive=job.get("prim", False))
                    fl.fix(bits)
                passed = list(ret)
            s.add_answer_key(passed)
            signal.signal(signal.SIGALRM, _alarm)
            signal.alarm(30)
            try:
                got = s.solve("z3")
            finally:
                signal.alarm(0)
            if got is True and not why:
                vals = [v.sol for v in passed]
                want = bits_of(mask, npts)
                if vals != want:
                    why = f"returned array {vals} but the cycle visits {want}"
        except Watchdog:
            got = "DidNotTerminate"
        except Exception as e:  # noqa
            got = "raised " + type(e).__name__
        if got != exp or why:
            out.append({"pattern": p, "expected": exp, "observed": got, "why": why})
    return out


def emit_cycle(job):
    """native-primitive program of single_cycle / single_path"""
    obj, form, which = job["obj"], job["form"], job["which"]
    fn = cg.active_edges_single_cycle if which == "cycle" else cg.active_edges_single_path
    s = Solver()
    try:
        if obj["kind"] == "frame":
            fr, ids = _edge_flags(s, obj, form)
            ret = fn(s, fr, use_graph_primitive=True)
            passed = list(ret.flatten())
            shape_ok = tuple(ret.shape) == (obj["h"] + 1, obj["w"] + 1)
            info = {"bits": [{"var": i, "neg": False} for i in ids], "fixed": []}
        else:
            fl, _ = _edge_flags(s, obj, form)
            ret = fn(s, fl.as_arg(), mk_graph(obj["graph"]), use_graph_primitive=True)
            passed = list(ret)
            shape_ok = len(passed) == obj["graph"]["n"]
            info = fl.emit_info()
    except Exception as e:  # noqa
        return {"status": "exc", "exc": type(e).__name__}
    if not shape_ok or not all(isinstance(v, BoolVar) for v in passed):
        return {"status": "exc", "exc": "ReturnedArrayHasWrongShape"}
    rec = {"status": "ok", "exc": "", "prog": program(s),
           "outs": [{"vars": [v.id for v in passed], "masks": job["masks"]}]}
    rec.update(info)
    return rec


def path_nonprimitive_raises(obj):
    s = Solver()
    try:
        if obj["kind"] == "frame":
            cg.active_edges_single_path(s, BoolGridFrame(s, obj["h"], obj["w"]), use_graph_primitive=False)
        else:
            m = len(obj["graph"]["edges"])
            cg.active_edges_single_path(s, [s.bool_var() for _ in range(m)], mk_graph(obj["graph"]), use_graph_primitive=False)
    except Exception:
        return True
    return False
