"""Shared driver of the graph-family checks: TLC case enumeration, parallel replay, emitted-program judging."""
import multiprocessing as mp
from .par import RobustPool

from .common import NPROC, write_ndjson
from .tlc import run_tlc, MachineryError


def flip_of(seed, rid):
    """orientation variant of the explicit graphs of a record: 0 as enumerated, 1 all edges reversed, 2 every other one"""
    return (seed + rid) % 3


def tlc_cases(chk, family, tier):
    res = run_tlc("MC_Graph", "MC_Graph", workdir=chk.dir, env={"FAMILY": family, "TIER": tier},
                  timeout=1800)
    chk.add_tlc(res)
    recs = sorted(res.records, key=lambda r: r["id"])
    if not recs:
        raise MachineryError("MC_Graph exported no case for family " + family)
    return recs


def _call(args):
    fn, job = args
    return fn(job)


def pmap(fn, jobs):
    if not jobs:
        return []
    with RobustPool(NPROC) as pool:
        return pool.map(_call, [(fn, j) for j in jobs], chunksize=1)


def split_patterns(job, size=256):
    """split a z3 job over its patterns so that the pool is kept busy"""
    ps, es = job["patterns"], job["expects"]
    out = []
    for i in range(0, len(ps), size):
        j = dict(job)
        j["patterns"], j["expects"] = ps[i:i + size], es[i:i + size]
        out.append(j)
    return out


def _too_large_without_native_operator(r, cap=4096):
    """an emitted program that contains no native operator and leaves more than `cap` combinations of auxiliary
    variables to search (the auxiliary-variable encoding where the native one was requested): TLC's evaluator is
    the wrong judge for it, the real z3 path decides it instead (the properties are about meaning, not encoding)"""
    if r.get("status", "ok") != "ok":
        return False
    prog = r.get("prog") or {"vars": [], "cons": []}

    def has_native(t):
        return t.get("op", "").startswith("GRAPH_") or any(has_native(x) for x in t.get("args", []))
    if any(has_native(c) for c in prog["cons"]):
        return False
    pinned = {b["var"] for b in r.get("bits", [])} | {f["var"] for f in r.get("fixed", [])}
    free = 1
    for i, v in enumerate(prog["vars"]):
        if i not in pinned:
            free *= 2 if v["kind"] == "bool" else max(1, v["hi"] - v["lo"] + 1)
            if free > cap:
                return True
    return False


def judge_emits(chk, recs, name="emits", chunk=256, fallback=None, jobs=None):
    """recs: list of dicts with t, status, exc, prog, bits, fixed, expects -> {t: verdict}.
    A record with many patterns is split into several TLC records (p0..p1) so that workers share it.
    fallback = (z3 run function, emit job -> list of z3 jobs or None): used for the records of `jobs` (parallel to
    recs) whose program is the auxiliary-variable encoding (see _too_large_without_native_operator)."""
    if not recs:
        return {}
    deferred = {}
    for k, r in enumerate(recs):
        if _too_large_without_native_operator(r):
            zj = fallback[1](jobs[k]) if fallback and jobs else None
            if not zj:
                raise MachineryError("an emitted program without native operator is too large for the TLC evaluator "
                                     "and no solver route is available for it: record %s" % r.get("t"))
            deferred[r["t"]] = zj
    out = {}
    if deferred:
        flat = [(t, j) for t, zj in deferred.items() for j in zj]
        results = pmap(fallback[0], [j for _, j in flat])
        mism = {}
        for (t, _), res in zip(flat, results):
            mism.setdefault(t, []).extend(res)
        for t in deferred:
            ms = sorted(mism.get(t, []), key=lambda m: m["pattern"])
            if not ms:
                out[t] = {"t": t, "p0": 0, "verdict": "ok", "pattern": -1, "nbad": 0, "judged_by": "z3"}
            else:
                m = ms[0]
                what = ("emit:admits-a-pattern-the-definition-rejects" if m["observed"] is True and m["expected"] is False else
                        "emit:rejects-a-pattern-the-definition-admits" if m["observed"] is False and m["expected"] is True else
                        "emit:returned-array-differs-from-the-definition" if m["observed"] == m["expected"] else
                        "emit:" + str(m["observed"]).replace(" ", "-"))
                out[t] = {"t": t, "p0": 0, "verdict": what, "pattern": m["pattern"], "nbad": len(ms), "judged_by": "z3"}
        chk.extra["emitted_programs_without_native_operator_judged_by_z3"] = len(deferred)
    recs_all = recs
    recs = [r for r in recs if r["t"] not in deferred]
    if not recs:
        chk.traces += len(recs_all)
        return out
    lines = []
    for r in recs:
        r.setdefault("prog", {"vars": [], "cons": [], "keys": []})
        r.setdefault("bits", [])
        r.setdefault("fixed", [])
        r.setdefault("outs", [])
        r.setdefault("base", 2)
        for b in r["bits"]:
            b.setdefault("isint", False)
            b.setdefault("neg", False)
        n = len(r["expects"])
        for p0 in range(0, max(n, 1), chunk):
            lines.append(dict(r, p0=p0, p1=min(n, p0 + chunk) - 1))
    path = chk.dir / f"{name}.ndjson"
    write_ndjson(path, lines)
    res = run_tlc("Trace_Emit", "Trace_Emit", workdir=chk.dir, env={"TRACE_FILE": str(path)}, timeout=3000)
    chk.add_tlc(res)
    if len(res.records) != len(lines):
        raise MachineryError(f"{len(lines)} emitted-program records but {len(res.records)} verdicts")
    for v in sorted(res.records, key=lambda v: (v["t"], v["p0"])):
        cur = out.get(v["t"])
        if cur is None or (cur["verdict"] == "ok" and v["verdict"] != "ok"):
            nb = (cur or {}).get("nbad", 0)
            out[v["t"]] = dict(v, nbad=v["nbad"] + nb)
        elif v["verdict"] != "ok":
            cur["nbad"] += v["nbad"]
    chk.traces += len(recs_all)
    return out
