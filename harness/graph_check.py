"""Shared driver of the graph-family checks: TLC case enumeration, parallel replay, emitted-program judging."""
import multiprocessing as mp

from .common import NPROC, write_ndjson
from .tlc import run_tlc, MachineryError


def flip_of(seed, rid):
    """orientation variant of the explicit graphs of a record: 0 as enumerated, 1 all edges reversed, 2 every other one"""
    return (seed + rid) % 3


def tlc_cases(chk, family, tier):
    res = run_tlc("MC_Graph", "MC_Graph", workdir=chk.dir, env={"FAMILY": family, "TIER": tier},
                  timeout=1800)
    chk.add_tlc(res)
    recs = sorted(res.records, key=lambda r: r["id"])
    if not recs:
        raise MachineryError("MC_Graph exported no case for family " + family)
    return recs


def _call(args):
    fn, job = args
    return fn(job)


def pmap(fn, jobs):
    if not jobs:
        return []
    with mp.get_context("fork").Pool(NPROC) as pool:
        return pool.map(_call, [(fn, j) for j in jobs], chunksize=1)


def split_patterns(job, size=256):
    """split a z3 job over its patterns so that the pool is kept busy"""
    ps, es = job["patterns"], job["expects"]
    out = []
    for i in range(0, len(ps), size):
        j = dict(job)
        j["patterns"], j["expects"] = ps[i:i + size], es[i:i + size]
        out.append(j)
    return out


def judge_emits(chk, recs, name="emits", chunk=256):
    """recs: list of dicts with t, status, exc, prog, bits, fixed, expects -> {t: verdict}.
    A record with many patterns is split into several TLC records (p0..p1) so that workers share it."""
    if not recs:
        return {}
    lines = []
    for r in recs:
        r.setdefault("prog", {"vars": [], "cons": [], "keys": []})
        r.setdefault("bits", [])
        r.setdefault("fixed", [])
        r.setdefault("outs", [])
        r.setdefault("base", 2)
        for b in r["bits"]:
            b.setdefault("isint", False)
            b.setdefault("neg", False)
        n = len(r["expects"])
        for p0 in range(0, max(n, 1), chunk):
            lines.append(dict(r, p0=p0, p1=min(n, p0 + chunk) - 1))
    path = chk.dir / f"{name}.ndjson"
    write_ndjson(path, lines)
    res = run_tlc("Trace_Emit", "Trace_Emit", workdir=chk.dir, env={"TRACE_FILE": str(path)}, timeout=3000)
    chk.add_tlc(res)
    if len(res.records) != len(lines):
        raise MachineryError(f"{len(lines)} emitted-program records but {len(res.records)} verdicts")
    out = {}
    for v in sorted(res.records, key=lambda v: (v["t"], v["p0"])):
        cur = out.get(v["t"])
        if cur is None or (cur["verdict"] == "ok" and v["verdict"] != "ok"):
            nb = (cur or {}).get("nbad", 0)
            out[v["t"]] = dict(v, nbad=v["nbad"] + nb)
        elif v["verdict"] != "ok":
            cur["nbad"] += v["nbad"]
    chk.traces += len(recs)
    return out
