"""A process pool whose map() cannot hang: multiprocessing.Pool waits forever when a worker dies (segfault in z3, stack
overflow in deeply recursive library code, OOM kill) because the lost task never completes.  RobustPool is built on
concurrent.futures (which reports a dead worker as BrokenProcessPool); the jobs that were lost are then re-run one by one in
single-worker pools so that the job that kills the interpreter is identified.  What happens with it is the caller's choice:
`on_death(job)` supplies the result (C17 turns it into a violation record), otherwise a MachineryError names the job."""
import multiprocessing as mp
from concurrent.futures import ProcessPoolExecutor
from concurrent.futures.process import BrokenProcessPool

from .tlc import MachineryError


def _run_chunk(args):
    fn, chunk = args
    return [fn(j) for j in chunk]


class RobustPool:
    def __init__(self, nproc):
        self.nproc = nproc

    def __enter__(self):
        return self

    def __exit__(self, *a):
        return False

    def map(self, fn, jobs, chunksize=1, on_death=None):
        jobs = list(jobs)
        if not jobs:
            return []
        chunks = [jobs[i:i + chunksize] for i in range(0, len(jobs), chunksize)]
        results = [None] * len(chunks)
        ctx = mp.get_context("fork")
        try:
            with ProcessPoolExecutor(max_workers=self.nproc, mp_context=ctx) as ex:
                futs = [ex.submit(_run_chunk, (fn, c)) for c in chunks]
                for k, f in enumerate(futs):
                    try:
                        results[k] = f.result()
                    except BrokenProcessPool:
                        pass            # collect what did finish; the lost chunks are re-run below
        except BrokenProcessPool:
            pass
        # a worker died: the lost chunks are re-run job by job, each in its own single-worker pool
        for k in [k for k in range(len(chunks)) if results[k] is None]:
            out = []
            for job in chunks[k]:
                try:
                    with ProcessPoolExecutor(max_workers=1, mp_context=ctx) as ex:
                        out.append(ex.submit(fn, job).result())
                except BrokenProcessPool:
                    if on_death is None:
                        raise MachineryError("a worker process died (killed / segmentation fault / stack overflow) while "
                                             "running job: " + repr(job)[:400])
                    out.append(on_death(job))
            results[k] = out
        return [r for chunk in results for r in chunk]
