"""./check <property> [--tier quick|thorough] [--replay path]"""
import argparse
import importlib
import sys
import traceback

from .common import tier_from, seed_from
from .tlc import MachineryError


BUDGET_S = {"quick": 3600, "thorough": 6 * 3600}      # last resort against a hang: every check finishes far below this


def _descendants(pid):
    import os
    kids = {}
    for d in os.listdir("/proc"):
        if d.isdigit():
            try:
                with open(f"/proc/{d}/stat") as f:
                    parts = f.read().rsplit(")", 1)[1].split()
                kids.setdefault(int(parts[1]), []).append(int(d))
            except OSError:
                pass
    out, todo = [], [pid]
    while todo:
        for k in kids.get(todo.pop(), []):
            out.append(k)
            todo.append(k)
    return out


def _on_budget(signum, frame):
    import os
    import signal
    print("MACHINERY-ERROR: the check exceeded its wall-clock budget and was stopped (a hang in the harness or in the code under test)")
    sys.stdout.flush()
    for k in _descendants(os.getpid()):
        try:
            os.kill(k, signal.SIGKILL)
        except OSError:
            pass
    os._exit(2)


def main():
    ap = argparse.ArgumentParser()
    ap.add_argument("property")
    ap.add_argument("--tier", default=None)
    ap.add_argument("--replay", default=None)
    a = ap.parse_args()
    pid = a.property.upper()
    tier = tier_from(a.tier)
    seed = seed_from()
    try:
        mod = importlib.import_module("checks." + pid.lower())
    except ModuleNotFoundError as e:
        print(f"no check for {pid}: {e}")
        return 2
    import signal
    signal.signal(signal.SIGUSR1, _on_budget)
    import threading
    import os
    timer = threading.Timer(float(os.environ.get("VERIF_BUDGET_S", BUDGET_S[tier])), lambda: os.kill(os.getpid(), signal.SIGUSR1))
    timer.daemon = True
    timer.start()
    try:
        if a.replay:
            return mod.replay(a.replay)
        return mod.run(tier, seed)
    except MachineryError as e:
        print("MACHINERY-ERROR:", e)
        return 2
    except Exception:
        traceback.print_exc()
        print("MACHINERY-ERROR: unexpected exception in the harness")
        return 2


if __name__ == "__main__":
    sys.exit(main())
