"""./check <property> [--tier quick|thorough] [--replay path]"""
import argparse
import importlib
import sys
import traceback

from .common import tier_from, seed_from
from .tlc import MachineryError


def main():
    ap = argparse.ArgumentParser()
    ap.add_argument("property")
    ap.add_argument("--tier", default=None)
    ap.add_argument("--replay", default=None)
    a = ap.parse_args()
    pid = a.property.upper()
    tier = tier_from(a.tier)
    seed = seed_from()
    try:
        mod = importlib.import_module("checks." + pid.lower())
    except ModuleNotFoundError as e:
        print(f"no check for {pid}: {e}")
        return 2
    try:
        if a.replay:
            return mod.replay(a.replay)
        return mod.run(tier, seed)
    except MachineryError as e:
        print("MACHINERY-ERROR:", e)
        return 2
    except Exception:
        traceback.print_exc()
        print("MACHINERY-ERROR: unexpected exception in the harness")
        return 2


if __name__ == "__main__":
    sys.exit(main())
