"""C11 adapters: call the real solve_<puzzle> on a problem given as canonical integers (spec/MC_Puzzle.tla) and project
the answer keys to the agreed order (frames: the edge order of graph._from_grid_frame = GraphDefs!Lattice)."""
import json
import warnings

YEMPTY, YUNKNOWN = -1000, -999
_YDIR = {1: "^", 2: "v", 3: "<", 4: ">"}


def grid(cells, h, w, f=lambda x: x):
    return [[f(cells[y * w + x]) for x in range(w)] for y in range(h)]


def tri(v):
    """sol of a boolean key -> 1 / 0 / -1 (undecided)"""
    return -1 if v is None else (1 if v is True else 0 if v is False else -2)


def frame_facts(frame):
    from cspuz import graph as cg
    edges, _ = cg._from_grid_frame(frame)
    return [tri(e.sol) for e in edges]


def arr_facts(arr):
    return [tri(v.sol) for v in arr.flatten()]


def int_facts(arr, none=-1):
    return [none if v.sol is None else v.sol for v in arr.flatten()]


def yaj(v):
    if v == YEMPTY:
        return ".."
    if v == YUNKNOWN:
        return "??"
    return _YDIR[v // 100] + str(v % 100)


TWICE = [False]


def _call(fn, *args):
    """in every fourth case the solver function is called twice with the SAME argument objects and the second answer is
    the one that is judged: a solver must not leave anything behind in the caller's problem"""
    if TWICE[0]:
        fn(*args)
    return fn(*args)


def solve(puzzle, h, w, problem):
    """-> (is_sat, facts)"""
    TWICE[0] = (len(json.dumps(problem)) + h) % 4 == 0
    import z3
    z3.set_param("timeout", 120000)
    from cspuz.puzzle import (slitherlink, masyu, yajilin, simpleloop, nurikabe, norinori, akari, star_battle, yinyang,
                              creek, heyawake, lits, nurimisaki, putteria, aquarium, gokigen, sudoku, building, doppelblock,
                              fillomino, view, geradeweg, castle_wall, compass, fivecells, shakashaka)

    def room_order(rgs):
        """the order in which the rooms are LISTED is not part of a problem: as numbered (0), reversed (1), rotated (2)"""
        k = max(rgs) + 1
        v = (sum(rgs) + len(rgs)) % 3
        return list(range(k)) if v == 0 else list(range(k - 1, -1, -1)) if v == 1 else list(range(k // 2, k)) + list(range(k // 2))

    def rooms(rgs):
        cells_rev = (sum(rgs) % 2 == 1)        # ... nor is the order of the cells inside a room
        out = []
        for b in room_order(rgs):
            r = [(c // w, c % w) for c in range(len(rgs)) if rgs[c] == b]
            out.append(r[::-1] if cells_rev else r)
        return out
    with warnings.catch_warnings():
        warnings.simplefilter("ignore")
        if puzzle == "slitherlink":
            sat, fr = _call(slitherlink.solve_slitherlink, h, w, grid(problem, h, w))
            return sat, frame_facts(fr) if sat else []
        if puzzle == "masyu":
            sat, fr = _call(masyu.solve_masyu, h, w, grid(problem, h, w))
            return sat, frame_facts(fr) if sat else []
        if puzzle == "yajilin":
            sat, fr, black = _call(yajilin.solve_yajilin, h, w, grid(problem, h, w, yaj))
            return sat, (frame_facts(fr) + arr_facts(black)) if sat else []
        if puzzle == "simpleloop":
            cells, pv = problem[0], problem[1][0]
            g = grid(cells, h, w)
            if h * w >= 2 and (pv + sum(cells)) % 2 == 0:
                # the same grid object was solved before with another pivot (a caller trying several pivots on one board):
                # an earlier call must not leave anything behind in the caller's problem
                p0 = (pv + 1) % (h * w)
                simpleloop.solve_simpleloop(h, w, g, (p0 // w, p0 % w))
            sat, fr = _call(simpleloop.solve_simpleloop, h, w, g, (pv // w, pv % w))
            return sat, frame_facts(fr) if sat else []
        if puzzle == "nurikabe":
            sat, white = _call(nurikabe.solve_nurikabe, h, w, grid(problem, h, w))
            return sat, arr_facts(white) if sat else []
        if puzzle in ("nurikabe_low2", "nurikabe_low3"):      # the solver's unknown_low option
            sat, white = _call(lambda *args: nurikabe.solve_nurikabe(*args, unknown_low=int(puzzle[-1])), h, w, grid(problem, h, w))
            return sat, arr_facts(white) if sat else []
        if puzzle == "norinori":
            sat, a = _call(norinori.solve_norinori, h, w, rooms(problem[0]))
            return sat, arr_facts(a) if sat else []
        if puzzle == "akari":
            sat, a = _call(akari.solve_akari, h, w, grid(problem, h, w))
            return sat, arr_facts(a) if sat else []
        if puzzle == "starbattle":
            sat, a = _call(star_battle.solve_star_battle, h, grid(problem[0], h, w), problem[1][0])
            return sat, arr_facts(a) if sat else []
        if puzzle == "yinyang":
            sat, a = _call(yinyang.solve_yinyang, h, w, grid(problem, h, w))
            return sat, arr_facts(a) if sat else []
        if puzzle == "creek":
            sat, a = _call(creek.solve_creek, h, w, grid(problem, h + 1, w + 1))
            return sat, arr_facts(a) if sat else []
        if puzzle == "heyawake":
            rs, cl = rooms(problem[0]), [problem[1][b] for b in room_order(problem[0])]
            rects = []
            for room, v in zip(rs, cl):
                ys, xs = [y for y, _ in room], [x for _, x in room]
                if len(room) == (max(ys) - min(ys) + 1) * (max(xs) - min(xs) + 1):
                    rects.append((min(ys), min(xs), max(ys) + 1, max(xs) + 1, v))
            if len(rects) == len(rs) and (sum(problem[0]) + len(rs)) % 2 == 0:
                sat, a = _call(heyawake.solve_heyawake, h, w, rects)     # the other documented form: a list of rectangles
            else:
                sat, a = _call(heyawake.solve_heyawake, h, w, rs, cl)
            return sat, arr_facts(a) if sat else []
        if puzzle == "lits":
            sat, a = _call(lits.solve_lits, h, w, rooms(problem[0]))
            return sat, arr_facts(a) if sat else []
        if puzzle == "nurimisaki":
            sat, a = _call(nurimisaki.solve_nurimisaki, h, w, grid(problem, h, w))
            return sat, arr_facts(a) if sat else []
        if puzzle == "putteria":
            sat, a = _call(putteria.solve_putteria, h, w, rooms(problem[0]))
            return sat, arr_facts(a) if sat else []
        if puzzle == "aquarium":
            sat, a = _call(aquarium.solve_aquarium, h, w, rooms(problem[0]), list(problem[1][:h]), list(problem[1][h:]))
            return sat, arr_facts(a) if sat else []
        if puzzle == "gokigen":
            sat, a = _call(gokigen.solve_gokigen, h, w, grid(problem, h + 1, w + 1))
            return sat, arr_facts(a) if sat else []
        if puzzle == "sudoku":
            n = h
            sat, a = _call(sudoku.solve_sudoku, grid(problem, n * n, n * n), n)
            return sat, int_facts(a) if sat else []
        if puzzle == "building":
            n = h
            sat, a = _call(building.solve_building, n, list(problem[0:n]), list(problem[n:2 * n]), list(problem[2 * n:3 * n]), list(problem[3 * n:4 * n]))
            return sat, int_facts(a) if sat else []
        if puzzle == "doppelblock":
            n = h
            sat, a = _call(doppelblock.solve_doppelblock, n, list(problem[0:n]), list(problem[n:2 * n]))
            return sat, int_facts(a) if sat else []
        if puzzle == "fillomino":
            sat, a = _call(fillomino.solve_fillomino, h, w, grid(problem, h, w))
            return sat, int_facts(a) if sat else []
        if puzzle == "view":
            sat, nums, has = _call(view.solve_view, h, w, grid(problem, h, w))
            return sat, (int_facts(nums) + arr_facts(has)) if sat else []
        if puzzle == "geradeweg":
            sat, fr = _call(geradeweg.solve_geradeweg, h, w, grid(problem, h, w))
            return sat, frame_facts(fr) if sat else []
        if puzzle == "castle_wall":
            def arrow(v):
                if v == 0:
                    return ".."
                d, n = (v % 1000) // 100, v % 100
                if d == 0:
                    return "?."          # a wall that carries no arrow (only its colour, or nothing)
                return _YDIR[d] + str(n)
            def colour(v):
                return {0: None, 1: True, 2: False}[v // 1000] if v else None
            sat, fr = _call(castle_wall.solve_castle_wall, h, w, grid(problem, h, w, arrow), grid(problem, h, w, colour))
            return sat, frame_facts(fr) if sat else []
        if puzzle == "compass":
            pr = [(c[0] // w, c[0] % w, c[1], c[2], c[3], c[4]) for c in problem]     # (y, x, up, left, down, right)
            sat, a = _call(compass.solve_compass, h, w, pr)
            return sat, int_facts(a) if sat else []
        if puzzle == "fivecells":
            sat, borders = _call(fivecells.solve_fivecells, h, w, grid(problem, h, w))
            return sat, [tri(v.sol) for v in borders] if sat else []
        if puzzle == "shakashaka":
            sat, a = _call(shakashaka.solve_shakashaka, h, w, grid(problem, h, w, lambda v: None if v == -5 else v))
            return sat, int_facts(a) if sat else []
    raise ValueError("no adapter for " + puzzle)


def work(cases):
    out = []
    for c in cases:
        try:
            sat, facts = solve(c["puzzle"], c["h"], c["w"], c["problem"])
            got = {"sat": sat, "facts": facts}
        except Exception as e:  # noqa
            msg = str(e)
            if type(e).__name__ == "Z3Exception" and "model is not available" in msg:
                got = {"sat": "inconclusive", "facts": []}
            else:
                got = {"sat": "raised " + type(e).__name__, "facts": []}
        out.append(got)
    return out
