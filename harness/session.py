"""Executes a scenario (sequence of public Solver calls) on the real code and records one event
per call at its return (also on the exception path)."""
import signal
import warnings

import cspuz
from cspuz import Solver
from . import dx as DX
from .export import sol_of


class Watchdog(Exception):
    pass


def _alarm(signum, frame):
    raise Watchdog()


def run_scenario(steps, backend="z3", limit_s=20, standin=True):
    """steps: list of {"a": ...}.  Returns the list of events.  For the native module backends a correct stand-in
    solver (harness/standin.py) is installed for the duration of the scenario."""
    events = []
    if backend == "z3":
        from .graph_replay import _z3_limit
        _z3_limit()
    solver = Solver()
    vs = []
    touched, limited = [], False
    saved = {k: getattr(cspuz.config, k) for k in ("solver_timeout",)}
    signal.signal(signal.SIGALRM, _alarm)
    try:
        if backend in ("csugar", "enigma_csp", "cspuz_core") and standin:
            from .standin import NativeStandIn
            with NativeStandIn() as st:
                st.attach(solver)
                return _run(steps, backend, limit_s, solver, vs, events, touched, limited)
        return _run(steps, backend, limit_s, solver, vs, events, touched, limited)
    finally:
        for k, v in saved.items():
            setattr(cspuz.config, k, v)


def _key_args(form, xs):
    """the ways a caller hands variables to add_answer_key ("any nesting of iterables")"""
    if form == "list":
        return (xs,)
    if form == "tuple":
        return (tuple(xs),)
    if form == "gen":
        return ((x for x in xs),)
    if form == "map":
        return (map(lambda x: x, xs),)
    if form == "star":
        return tuple(xs)
    if form == "mixed":
        h = len(xs) // 2
        return ([xs[:h], (x for x in xs[h:])],)
    raise ValueError(form)


KEY_FORMS = ("list", "gen", "star", "tuple", "map", "mixed")


def _run(steps, backend, limit_s, solver, vs, events, touched, limited):
    cache = {}          # built operator nodes of this session, shared between constraints (harness/dx.py)
    for st in steps:
        a = st["a"]
        if a == "bool_var":
            v = solver.bool_var()
            vs.append(v)
            events.append({"ev": "bool_var", "id": v.id})
        elif a == "int_var":
            v = solver.int_var(st["lo"], st["hi"])
            vs.append(v)
            # the declared bounds are the ones the caller passed (not what the variable object holds afterwards)
            events.append({"ev": "int_var", "id": v.id, "lo": st["lo"], "hi": st["hi"]})
        elif a in ("bool_array", "int_array"):
            # one call declaring shape-many variables; the cells are read back through public indexing, row-major
            shape = st["shape"]
            arg = shape[0] if len(shape) == 1 else tuple(shape)
            arr = solver.bool_array(arg) if a == "bool_array" else solver.int_array(arg, st["lo"], st["hi"])
            if len(shape) == 1:
                cells = [arr[i] for i in range(shape[0])]
            else:
                cells = [arr[y, x] for y in range(shape[0]) for x in range(shape[1])]
            vs.extend(cells)
            events.append({"ev": "array", "kind": "bool" if a == "bool_array" else "int", "shape": list(shape),
                           "ids": [c.id for c in cells], "lo": st.get("lo", 0), "hi": st.get("hi", 0),
                           "got_shape": list(arr.shape), "declared": len(solver.variables)})
        elif a == "ensure":
            ev = {"ev": "ensure", "x": _strip(st["x"]), "status": "ok", "exc": ""}
            try:
                solver.ensure(DX.build(st["x"], vs, cache))
            except Exception as e:  # noqa
                ev["status"], ev["exc"] = "exc", type(e).__name__
            events.append(ev)
        elif a in ("add_key", "add_key_all"):
            ids = list(range(len(vs))) if a == "add_key_all" else (st.get("ids") or [st["id"]])
            form = KEY_FORMS[(len(events) + sum(ids) + len(ids)) % len(KEY_FORMS)]
            ev = {"ev": "add_key", "ids": ids, "status": "ok", "exc": "", "form": form}
            try:
                solver.add_answer_key(*_key_args(form, [vs[i] for i in ids]))
            except Exception as e:  # noqa
                ev["status"], ev["exc"] = "exc", type(e).__name__
            events.append(ev)
        elif a == "config":
            # a stuttering step of SolverSM: an option that must not change any verdict
            setattr(cspuz.config, st["key"], st["value"])
            touched.append(st["key"])
            limited = limited or st["key"] == "solver_timeout"
            events.append({"ev": "config", "key": st["key"]})
        elif a in ("find_answer", "solve"):
            ev = {"ev": a, "status": "ok", "exc": "", "ret": False}
            if "w" in st:
                ev["w"] = st["w"]
            # programs judged by witness are large on purpose: more time, and running out of it says nothing about the answer
            signal.alarm(limit_s if "w" not in st else max(limit_s, 240))
            try:
                with warnings.catch_warnings():
                    warnings.simplefilter("ignore")
                    r = solver.find_answer(backend) if a == "find_answer" else solver.solve(backend)
                if type(r) is not bool:
                    ev["status"], ev["exc"] = "exc", "ReturnedNonBool_" + type(r).__name__
                else:
                    ev["ret"] = r
            except Watchdog:
                ev["status"], ev["exc"] = "exc", ("Z3TimeLimit" if "w" in st else "DidNotTerminate")
            except Exception as e:  # noqa
                ev["status"], ev["exc"] = "exc", type(e).__name__
                if type(e).__name__ == "Z3Exception" and "model is not available" in str(e):
                    ev["exc"] = "Z3TimeLimit"
                if limited and type(e).__name__ in ("Z3Exception", "TimeoutExpired", "TimeoutError"):
                    ev["exc"] = "ConfiguredTimeLimit"   # a loud refusal under a configured limit
            finally:
                signal.alarm(0)
            ev.update(sol_of(vs))
            events.append(ev)
            if ev["status"] != "ok":
                break
        else:
            raise ValueError(a)
    return events


def _strip(d):
    """the logged driver expression: container style is not part of the meaning"""
    if "args" in d:
        return {"f": d["f"], "args": [_strip(x) for x in d["args"]]}
    return d


def run_many(args):
    """worker entry: (backend, [(trace id, steps), ...]) -> [{"t":..,"events":[..]}]"""
    backend, batch = args
    out = []
    for tid, steps in batch:
        out.append({"t": tid, "events": run_scenario(steps, backend)})
    return out
