"""Seeded random incremental sessions: declare / ensure / add_answer_key / find_answer / solve
interleaved, with nested expression trees over every operator of the DSL."""
from .dx import Gen

SMALL_TEMPLATES = [
    {"kind": "bool"}, {"kind": "bool"}, {"kind": "bool"},
    {"kind": "int", "lo": -2, "hi": 1}, {"kind": "int", "lo": 0, "hi": 3},
    {"kind": "int", "lo": 3, "hi": 3}, {"kind": "int", "lo": -4, "hi": -2},
    {"kind": "int", "lo": 0, "hi": 6}, {"kind": "int", "lo": -1, "hi": 0},
    {"kind": "int", "lo": 298, "hi": 301}, {"kind": "int", "lo": -1001, "hi": -1000},   # outside the small-int cache
]
EMPTY_DOMAIN = {"kind": "int", "lo": 3, "hi": 1, "empty": True}      # declared bounds with nothing inside: no assignment exists


def _dom(v):
    return 2 if v["kind"] == "bool" else max(1, v["hi"] - v["lo"] + 1)


def random_session(rng, profile="small", solve_calls=("find_answer",), max_product=300):
    steps, decl = [], []
    product = 1

    def declare():
        nonlocal product
        if profile == "wide" and rng.random() < 0.5 and sum(1 for v in decl if v.get("wide")) < 2:
            v = {"kind": "int", "lo": -40, "hi": 40, "wide": True}
        else:
            v = dict(rng.choice(SMALL_TEMPLATES))
        if profile == "small" and rng.random() < 0.03 and decl:
            v = dict(EMPTY_DOMAIN)
        if not v.get("empty") and rng.random() < 0.2:      # one bool_array / int_array call (1-D or 2-D, possibly empty) instead of a single variable
            shape = rng.choice([[0], [1], [2], [3], [1, 2], [2, 1], [2, 2], [0, 2]])
            n = shape[0] if len(shape) == 1 else shape[0] * shape[1]
            if product * _dom(v) ** n > max_product or len(decl) + n > 6:
                return
            product *= _dom(v) ** n
            decl.extend(dict(v) for _ in range(n))
            steps.append({"a": "bool_array", "shape": shape} if v["kind"] == "bool" else
                         {"a": "int_array", "shape": shape, "lo": v["lo"], "hi": v["hi"]})
            return
        if product * _dom(v) > max_product or len(decl) >= 6:
            return
        product *= _dom(v)
        decl.append(v)
        steps.append({"a": "bool_var"} if v["kind"] == "bool" else
                     {"a": "int_var", "lo": v["lo"], "hi": v["hi"]})

    for _ in range(rng.randint(1, 3)):
        declare()
    keys = set()
    pool = {"b": [], "i": []}       # sub-expressions of this session, re-used (as the same objects) later on
    n_solves = rng.randint(1, 3)
    depth = rng.choice([1, 2, 2, 3, 3, 4])
    lits = (-3, -1, 0, 1, 2, 5, 300, -1000) if profile == "small" else (-41, -7, 0, 3, 40, 80)
    for s in range(n_solves):
        for _ in range(rng.randint(0, 3)):
            c = rng.random()
            if c < 0.2:
                declare()
            elif c < 0.85 or "solve" not in solve_calls:
                g = Gen(rng, decl, lits, pool)
                steps.append({"a": "ensure", "x": g.posted(depth)})
            else:
                cand = [i for i in range(len(decl)) if i not in keys]
                if cand:
                    k = rng.choice(cand)
                    keys.add(k)
                    steps.append({"a": "add_key", "id": k})
        call = rng.choice(solve_calls)
        if call == "solve" and rng.random() < 0.7:
            more = [i for i in range(len(decl)) if i not in keys and rng.random() < 0.6]
            if more:
                rng.shuffle(more)
                keys.update(more)
                steps.append({"a": "add_key", "ids": more})   # one call registering several variables
        steps.append({"a": call})
    return steps


def latin_session(rng, n, calls, limit=None):
    """A program too large to enumerate, with two solutions supplied by the driver (cyclic Latin
    squares shifted against each other, so they disagree on every cell: no fact is common to all
    solutions).  With `limit`, cspuz.config.solver_timeout is set first: an option may make a call
    refuse loudly, never answer wrongly."""
    steps = []
    if limit is not None:
        steps.append({"a": "config", "key": "solver_timeout", "value": limit})
    perm = list(range(1, n + 1))
    rng.shuffle(perm)
    for _ in range(n * n):
        steps.append({"a": "int_var", "lo": 1, "hi": n})
    V = lambda i, j: {"f": "var", "id": i * n + j}
    lines = [[V(i, j) for j in range(n)] for i in range(n)] + [[V(i, j) for i in range(n)] for j in range(n)]
    rng.shuffle(lines)
    for ln in lines:
        steps.append({"a": "ensure", "x": {"f": "alldifferent", "args": [{"f": "list", "args": ln}]}})
    w = [[perm[(i + j + sh) % n] for i in range(n) for j in range(n)] for sh in (0, 1)]
    keyed = False
    for c in dict.fromkeys(calls):
        if c == "solve" and not keyed:
            keyed = True
            steps.append({"a": "add_key_all"})
        steps.append({"a": c, "w": w})
    return steps


def wide_sum_session(rng, n, calls):
    """n booleans and their count (more operands in one sum than any small case has): the only solution has every boolean
    true, supplied as the witness.  Variables are declared through one bool_array call."""
    steps = [{"a": "bool_array", "shape": [n]}, {"a": "int_var", "lo": 0, "hi": n}]
    bs = [{"f": "var", "id": i} for i in range(n)]
    rng.shuffle(bs)
    cnt = {"f": "count_true", "args": [{"f": "list", "args": bs[: n // 2], "style": "list"}] + bs[n // 2:]}
    steps.append({"a": "ensure", "x": {"f": "eq", "args": [cnt, {"f": "var", "id": n}]}})
    steps.append({"a": "ensure", "x": {"f": "ge", "args": [{"f": "var", "id": n}, {"f": "ilit", "n": n}]}})
    w = [[1] * n + [n]]
    keyed = False
    for c in dict.fromkeys(calls):
        if c == "solve" and not keyed:
            keyed = True
            steps.append({"a": "add_key_all"})
        steps.append({"a": c, "w": w})
    return steps
