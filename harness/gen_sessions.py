"""Seeded random incremental sessions: declare / ensure / add_answer_key / find_answer / solve
interleaved, with nested expression trees over every operator of the DSL."""
from .dx import Gen

SMALL_TEMPLATES = [
    {"kind": "bool"}, {"kind": "bool"}, {"kind": "bool"},
    {"kind": "int", "lo": -2, "hi": 1}, {"kind": "int", "lo": 0, "hi": 3},
    {"kind": "int", "lo": 3, "hi": 3}, {"kind": "int", "lo": -4, "hi": -2},
    {"kind": "int", "lo": 0, "hi": 6}, {"kind": "int", "lo": -1, "hi": 0},
    {"kind": "int", "lo": 298, "hi": 301}, {"kind": "int", "lo": -1001, "hi": -1000},   # outside the small-int cache
]


def _dom(v):
    return 2 if v["kind"] == "bool" else v["hi"] - v["lo"] + 1


def random_session(rng, profile="small", solve_calls=("find_answer",), max_product=300):
    steps, decl = [], []
    product = 1

    def declare():
        nonlocal product
        if profile == "wide" and rng.random() < 0.5 and sum(1 for v in decl if v.get("wide")) < 2:
            v = {"kind": "int", "lo": -40, "hi": 40, "wide": True}
        else:
            v = dict(rng.choice(SMALL_TEMPLATES))
        if product * _dom(v) > max_product or len(decl) >= 6:
            return
        product *= _dom(v)
        decl.append(v)
        steps.append({"a": "bool_var"} if v["kind"] == "bool" else
                     {"a": "int_var", "lo": v["lo"], "hi": v["hi"]})

    for _ in range(rng.randint(1, 3)):
        declare()
    keys = set()
    n_solves = rng.randint(1, 3)
    depth = rng.choice([1, 2, 2, 3, 3, 4])
    lits = (-3, -1, 0, 1, 2, 5, 300, -1000) if profile == "small" else (-41, -7, 0, 3, 40, 80)
    for s in range(n_solves):
        for _ in range(rng.randint(0, 3)):
            c = rng.random()
            if c < 0.2:
                declare()
            elif c < 0.85 or "solve" not in solve_calls:
                g = Gen(rng, decl, lits)
                steps.append({"a": "ensure", "x": g.posted(depth)})
            else:
                cand = [i for i in range(len(decl)) if i not in keys]
                if cand:
                    k = rng.choice(cand)
                    keys.add(k)
                    steps.append({"a": "add_key", "id": k})
        call = rng.choice(solve_calls)
        if call == "solve" and rng.random() < 0.7:
            for i in range(len(decl)):
                if i not in keys and rng.random() < 0.6:
                    keys.add(i)
                    steps.append({"a": "add_key", "id": i})
        steps.append({"a": call})
    return steps
