"""C17 driver: feeds strings to every decoder and records the outcome class (the judge is spec/Trace_Fuzz.tla)."""
import sys

ALPHABET = ["0", "1", "5", "f", "g", "z", "-", "+", ".", "/", "٣", "A"]     # "A": an upper-case hex digit


def text_of(sym):
    return "".join(ALPHABET[i] for i in sym)


def _grid_dims_ok(p, h, w):
    return isinstance(p, list) and len(p) == h and all(isinstance(r, list) and len(r) == w for r in p)


def _rooms_dims_ok(rooms, h, w):
    cells = [c for room in rooms for c in room]
    return sorted(cells) == [(y, x) for y in range(h) for x in range(w)]


def url_decoders():
    from cspuz.puzzle import nurikabe, masyu, slitherlink, sudoku, nurimisaki, yajilin, heyawake, lits, norinori
    G = _grid_dims_ok
    return {
        "nurikabe": ("nurikabe", nurikabe.deserialize_nurikabe, lambda p, h, w: nurikabe.serialize_nurikabe(p), G),
        "masyu": ("masyu", masyu.deserialize_masyu, lambda p, h, w: masyu.serialize_masyu(p), G),
        "slither": ("slither", slitherlink.deserialize_slitherlink, lambda p, h, w: slitherlink.serialize_slitherlink(p), G),
        "sudoku": ("sudoku", sudoku.deserialize_sudoku, lambda p, h, w: sudoku.serialize_sudoku(p), G),
        "nurimisaki": ("nurimisaki", nurimisaki.deserialize_nurimisaki, lambda p, h, w: nurimisaki.serialize_nurimisaki(p), G),
        "yajilin": ("yajilin", yajilin.deserialize_yajilin, lambda p, h, w: yajilin.serialize_yajilin(p), G),
        "heyawake": ("heyawake", heyawake.deserialize_heyawake,
                     lambda p, h, w: heyawake.serialize_heyawake(p[0], p[1], p[2][0], p[2][1]),
                     lambda p, h, w: p[0] == h and p[1] == w and _rooms_dims_ok(p[2][0], h, w) and len(p[2][1]) == len(p[2][0])),
        "lits": ("lits", lits.deserialize_lits, lambda p, h, w: lits.serialize_lits(p[0], p[1], p[2]),
                 lambda p, h, w: p[0] == h and p[1] == w and _rooms_dims_ok(p[2], h, w)),
        "norinori": ("norinori", norinori.deserialize_norinori, lambda p, h, w: norinori.serialize_norinori(p[0], p[1], p[2]),
                     lambda p, h, w: p[0] == h and p[1] == w and _rooms_dims_ok(p[2], h, w)),
    }


def combinators():
    from cspuz import problem_serializer as PS
    sp = PS.Spaces(-1, "g")
    return {
        "HexInt": PS.HexInt(), "DecInt": PS.DecInt(), "Spaces": sp, "Dict": PS.Dict([1, 2], ["5", "-f"]),
        "IntSpaces": PS.IntSpaces(-1, 4, 2), "MultiDigit": PS.MultiDigit(3, 3), "FixStr": PS.FixStr("5f"),
        "OneOf": PS.OneOf(PS.Dict([-2], ["."]), sp, PS.HexInt()),
        "OneOfSingle": PS.OneOf(PS.Dict([-2], ["."]), PS.HexInt()),
        "Tupl": PS.Tupl(PS.DecInt(), PS.FixStr("/"), PS.HexInt()),
        "Seq": PS.Seq(PS.OneOf(sp, PS.HexInt()), 2),
        "Grid": PS.Grid(PS.OneOf(sp, PS.HexInt())),
        "GridFixed": PS.Grid(PS.MultiDigit(3, 3), height=1, width=2),
        "Rooms": PS.Rooms(), "RoomsSkip": PS.Rooms(skip_on_error=True, allow_redundant_border=True),
        "ValuedRooms": PS.ValuedRooms(PS.OneOf(PS.HexInt(), sp)),
        "TuplVR": PS.Tupl(PS.FixStr("f"), PS.ValuedRooms(PS.OneOf(PS.HexInt(), sp))),      # ValuedRooms not at offset 0
        "SeqVR": PS.Seq(PS.ValuedRooms(PS.OneOf(PS.HexInt(), sp)), 2),
        "GridIntSpaces0": PS.Grid(PS.IntSpaces(0, 5, 5)),                                   # the blank value is a legal number
        "SeqIntSpaces0": PS.Seq(PS.IntSpaces(0, 4, 2), 3),
    }


def classify(fn):
    try:
        r = fn()
    except ValueError:
        return "ValueError", None, ""
    except RecursionError:
        return "raised", None, "RecursionError"
    except Exception as e:  # noqa
        return "raised", None, type(e).__name__
    if r is None:
        return "none", None, ""
    return "problem", r, ""


def run_url(name, texts, h, w, make_url=None):
    """one URL decoder over many bodies -> (n_none, n_valueerror, interesting outcomes)"""
    pz, dec, enc, dims = url_decoders()[name]
    out, n_none, n_ve = [], 0, 0
    for k, body in enumerate(texts):
        url = make_url(body) if make_url else f"https://puzz.link/p?{pz}/{w}/{h}/{body}"
        oc, p, exc = classify(lambda: dec(url))
        if oc == "none":
            n_none += 1
            continue
        if oc == "ValueError":
            n_ve += 1
            continue
        o = {"k": k, "outcome": oc, "exc": exc, "dims_ok": True, "reencode": "skipped", "exc2": "", "same": True}
        if oc == "problem" and not make_url:
            try:
                o["dims_ok"] = bool(dims(p, h, w))
            except Exception:
                o["dims_ok"] = False
            if o["dims_ok"] and h * w >= 1:
                oc2, url2, exc2 = classify(lambda: enc(p, h, w))
                if oc2 != "problem":
                    o["reencode"], o["exc2"] = ("raised", exc2 or "ValueError") if oc2 != "none" else ("none", "")
                else:
                    o["reencode"] = "ok"
                    oc3, p3, _ = classify(lambda: dec(url2))
                    o["same"] = (oc3 == "problem" and p3 == p)
        out.append(o)
    return n_none, n_ve, out


SINGLE_ITEM = {"HexInt", "DecInt", "Dict", "OneOfSingle", "Tupl", "Seq", "Grid", "GridFixed", "Rooms", "RoomsSkip", "ValuedRooms",
               "TuplVR", "SeqVR", "GridIntSpaces0", "SeqIntSpaces0"}


def run_comb(name, texts, h, w, offsets):
    """library combinators: through deserialize_problem / serialize_problem when the combinator yields exactly one
    item per call, through Combinator.deserialize otherwise; optionally at every offset of the text"""
    from cspuz import problem_serializer as PS
    comb = combinators()[name]
    env = PS.CombinatorEnv(height=h, width=w)
    out, n_none, n_ve = [], 0, 0
    for k, text in enumerate(texts):
        if name in SINGLE_ITEM:
            oc, p, exc = classify(lambda: PS.deserialize_problem(comb, text, height=h, width=w))
        else:
            oc, p, exc = classify(lambda: comb.deserialize(env, text, 0))
        if oc == "none":
            n_none += 1
        elif oc == "ValueError":
            n_ve += 1
        else:
            o = {"k": k, "outcome": oc, "exc": exc, "dims_ok": True, "reencode": "skipped", "exc2": "", "same": True}
            if oc == "problem" and h * w >= 1 and name in SINGLE_ITEM:
                oc2, t2, exc2 = classify(lambda: PS.serialize_problem(comb, p, height=h, width=w))
                if oc2 == "none":
                    o["reencode"] = "none"
                elif oc2 != "problem":
                    o["reencode"], o["exc2"] = "raised", exc2 or "ValueError"
                else:
                    o["reencode"] = "ok"
                    oc3, p3, _ = classify(lambda: PS.deserialize_problem(comb, t2, height=h, width=w))
                    o["same"] = (oc3 == "problem" and p3 == p)
            out.append(o)
        if offsets:
            for idx in range(1, len(text) + 1):
                oc, _, exc = classify(lambda: comb.deserialize(env, text, idx))
                if oc == "raised":
                    out.append({"k": k, "outcome": oc, "exc": exc + f"@offset{idx}", "dims_ok": True, "reencode": "skipped",
                                "exc2": "", "same": True})
                elif oc == "none":
                    n_none += 1
                elif oc == "ValueError":
                    n_ve += 1
    return n_none, n_ve, out


def run_compass(texts, h, w):
    from cspuz.puzzle import compass
    out, n_none, n_ve = [], 0, 0
    for k, body in enumerate(texts):
        oc, p, exc = classify(lambda: compass.parse_puzz_link_url(f"https://puzz.link/p?compass/{w}/{h}/{body}"))
        if oc == "ValueError":
            n_ve += 1
        elif oc == "none":
            n_none += 1
        else:
            o = {"k": k, "outcome": oc, "exc": exc, "dims_ok": True, "reencode": "skipped", "exc2": "", "same": True}
            if oc == "problem":
                ph, pw, res = p
                o["dims_ok"] = (ph == h and pw == w) or "/" in body      # a '/' in the body makes the frame ambiguous
                inside = all(0 <= y < h and 0 <= x < w for (y, x, *_r) in res) and len({(y, x) for (y, x, *_r) in res}) == len(res)
                if o["dims_ok"] and inside and h * w >= 1 and "/" not in body:
                    oc2, url2, exc2 = classify(lambda: compass.to_puzz_link_url(h, w, res))
                    if oc2 != "problem":
                        o["reencode"], o["exc2"] = "raised", exc2 or "ValueError"
                    else:
                        o["reencode"] = "ok"
                        oc3, p3, _ = classify(lambda: compass.parse_puzz_link_url(url2))
                        o["same"] = (oc3 == "problem" and p3 == p)
            out.append(o)
    return n_none, n_ve, out


def job(args):
    kind, name, h, w, texts, extra = args
    sys.setrecursionlimit(1000)
    import signal

    class _Hang(Exception):
        pass

    def _onalarm(signum, frame):
        raise _Hang()
    signal.signal(signal.SIGALRM, _onalarm)
    signal.alarm(600)               # a decoder that does not return is the same kind of failure as one that crashes
    try:
        return _job(kind, name, h, w, texts, extra)
    except _Hang:
        return {"kind": kind, "decoder": name, "h": h, "w": w, "n": len(texts), "n_none": 0, "n_valueerror": 0, "n_raised": 1,
                "outs": [{"k": 0, "outcome": "raised", "exc": "DidNotReturnWithin600sSomewhereInThisBatch", "dims_ok": True,
                          "reencode": "skipped", "exc2": "", "same": True}]}
    finally:
        signal.alarm(0)


def _job(kind, name, h, w, texts, extra):
    if kind == "url":
        r = run_url(name, texts, h, w)
    elif kind == "frame":
        r = run_url(name, texts, h, w, make_url=lambda s: s)
    elif kind == "comb":
        r = run_comb(name, texts, h, w, extra)
    else:
        r = run_compass(texts, h, w)
    outs, raised = [], 0
    for o in r[2]:
        # every crash / failed round trip is a violation: a bounded sample per batch goes to the judge (all are counted);
        # outcomes that look fine are all judged.  (The judge's report is quadratic in the number of bad outcomes.)
        suspicious = o["outcome"] == "raised" or (o["outcome"] == "problem" and
                                                  (not o["dims_ok"] or o["reencode"] not in ("ok", "skipped") or not o["same"]))
        if suspicious:
            raised += 1
            if raised > 25:
                continue
        outs.append(o)
    return {"kind": kind, "decoder": name, "h": h, "w": w, "n": len(texts), "n_none": r[0], "n_valueerror": r[1],
            "n_raised": raised, "outs": outs}
