"""Scale-up cases of the graph-family checks: a handful of objects with more than 256 vertices / cells (a 300-cell line,
a 17x17 board, a 6x7 frame), each with a few hand-shaped patterns whose definitional verdict TLC computes
(spec/Trace_Patterns.tla).  The exhaustive part of every check stays small; these cases are there for what only shows
beyond a size - a constant like 256 in the code, an identity comparison of integers (CPython shares int objects only up
to 256), a block-wise rewrite of a sum.  They bound nothing: a threshold above these sizes stays invisible."""
from .common import write_ndjson
from .tlc import run_tlc, MachineryError


def grid_edges(h, w):
    """GraphDefs!GridGraph order is irrelevant for the array form; for the explicit-graph form: right then down per cell"""
    es = []
    for y in range(h):
        for x in range(w):
            if x + 1 < w:
                es.append([y * w + x, y * w + x + 1])
            if y + 1 < h:
                es.append([y * w + x, (y + 1) * w + x])
    return es


def judge(chk, recs, name):
    for i, r in enumerate(recs):
        r["t"] = i
    path = chk.dir / f"{name}.ndjson"
    write_ndjson(path, recs)
    res = run_tlc("Trace_Patterns", "Trace_Patterns", workdir=chk.dir, env={"TRACE_FILE": str(path)}, timeout=3000, workers=8)
    chk.add_tlc(res)
    if len(res.records) != len(recs):
        raise MachineryError(f"Trace_Patterns: {len(recs)} records but {len(res.records)} verdicts")
    chk.traces += len(recs)
    return {v["t"]: v for v in res.records}


def cell_patterns(h, w, rng):
    n = h * w
    cells = lambda f: sorted(y * w + x for y in range(h) for x in range(w) if f(y, x))
    pats = [[], list(range(n)), [0], [0, n - 1], [0, 1, n - 2, n - 1],
            cells(lambda y, x: (y * w + x) < n // 2),                        # a prefix of the cells in row-major order
            cells(lambda y, x: y == 0 or x == 0),                            # an L (a tree on a board, connected)
            cells(lambda y, x: y in (0, h - 1) or x in (0, w - 1)),          # the rim (a cycle on a board)
            cells(lambda y, x: x == 0 or x == w - 1) if w > 2 else [0],      # two far columns (disconnected)
            sorted(rng.sample(range(n), min(n, 5)))]
    if h == 1 or w == 1:
        pats += [list(range(n // 3)), list(range(n // 3)) + list(range(n - n // 3, n)), list(range(1, n))]
    seen, out = set(), []
    for p in pats:
        if tuple(p) not in seen:
            seen.add(tuple(p))
            out.append(p)
    return out


def conn_jobs(chk, tier, seed, rng):
    """C04: active_vertices_connected on objects with more than 256 vertices"""
    shapes = [(1, 300), (17, 17)] if tier == "quick" else [(1, 300), (300, 1), (17, 17), (16, 17), (2, 150)]
    # small companions of the same shapes (single row, single column, rectangle): on records of at most 100 cells
    # Trace_Patterns!GridAgree checks the fast grid notions against the GraphDefs definitions
    shapes = [(1, 7), (7, 1), (3, 5), (5, 3)] + shapes
    recs = []
    for (h, w) in shapes:
        for p in cell_patterns(h, w, rng):
            recs.append({"kind": "grid", "h": h, "w": w, "active": p})
    verdict = judge(chk, recs, "scaleup_conn")
    jobs = []
    for r in recs:
        h, w, v = r["h"], r["w"], verdict[r["t"]]
        n = h * w
        pat = sum(1 << c for c in r["active"])
        for kind in (("grid", "graph") if min(h, w) == 1 else ("grid",)):
            obj = {"kind": kind, "name": "scale-up", "h": h, "w": w, "graph": {"n": n, "edges": grid_edges(h, w)}}
            for acyclic in (False, True):
                jobs.append({"obj": obj, "id": 70000 + r["t"], "flip": r["t"] % 3, "acyclic": acyclic,
                             "form": ["vars", "neg", "const"][r["t"] % 3] if kind == "grid" else ["vars", "array", "xor"][r["t"] % 3],
                             "prim": False, "patterns": [pat], "expects": [v["tree"] if acyclic else v["connected"]]})
    chk.extra["scale_up_patterns (objects with more than 256 vertices)"] = len(recs)
    return jobs


def div_jobs(chk, tier, seed, rng):
    """C05: division_connected on a 17x17 board and a 300-cell line, with and without roots (root ids beyond 256)"""
    shapes = [(17, 17), (1, 300)] if tier == "quick" else [(17, 17), (1, 300), (300, 1)]
    recs = []
    for (h, w) in shapes:
        n = h * w
        half = [0 if (c % w) < (w + 1) // 2 else 1 for c in range(n)] if w > 1 else [0 if c < n // 2 else 1 for c in range(n)]
        stripes = [(c // max(1, (n // 3))) % 2 for c in range(n)] if min(h, w) == 1 else [((c % w) // 6) % 2 for c in range(n)]
        corner = [1 if c in (0, n - 1) else 0 for c in range(n)]
        for labels in (half, stripes, corner, [0] * n):
            for roots in ([-1, -1], [0, n - 1], [n - 1, -1], [-1, n - 1]):
                for ae in (False, True):
                    recs.append({"kind": "div", "h": h, "w": w, "labels": labels, "R": 2, "roots": roots, "allow_empty": ae})
    rng.shuffle(recs)
    recs = recs[: 12 if tier == "quick" else 200]
    verdict = judge(chk, recs, "scaleup_div")
    jobs = []
    for r in recs:
        h, w = r["h"], r["w"]
        n = h * w
        L = sum(d * (2 ** i) for i, d in enumerate(r["labels"]))
        obj = {"kind": "grid" if r["t"] % 2 == 0 or min(h, w) > 1 else "graph", "name": "scale-up", "h": h, "w": w,
               "graph": {"n": n, "edges": grid_edges(h, w)}}
        jobs.append({"obj": obj, "id": 70000 + r["t"], "flip": r["t"] % 3, "R": 2, "rootsopt": 0 if r["roots"] == [-1, -1] else 1,
                     "roots": r["roots"], "allow_empty": r["allow_empty"], "form": ["array", "list"][r["t"] % 2],
                     "patterns": [L], "expects": [verdict[r["t"]]["ok"]]})
    chk.extra["scale_up_labelings (objects with more than 256 vertices)"] = len(recs)
    return jobs


def group_jobs(chk, tier, seed, rng):
    """C07: division_connected_variable_groups on boards with more than 16 cells (3x6, 4x5): a few hand-shaped partitions,
    with and without per-cell sizes; the verdict comes from Trace_Patterns (mode "parts")"""
    recs = []
    for (h, w) in ([(3, 6)] if tier == "quick" else [(3, 6), (4, 5), (6, 3), (2, 9)]):
        n = h * w
        cell = lambda y, x: y * w + x
        parts = []
        tromino = {cell(0, 1), cell(1, 1), cell(1, 0)}
        parts.append([0 if c in tromino else 1 if c == cell(0, 0) else 2 for c in range(n)])      # L-tromino, a single, the rest
        parts.append([c // w for c in range(n)])                                                     # the rows
        parts.append([c % w for c in range(n)])                                                      # the columns
        parts.append([0] * n)                                                                        # one block
        parts.append(list(range(n)))                                                                 # all singles
        parts.append([0 if c in (cell(0, 0), cell(h - 1, w - 1)) else 1 for c in range(n)])         # a disconnected block
        snake = [0 if (c // w) % 2 == 0 or c % w == (w - 1 if (c // w) % 4 == 1 else 0) else 1 for c in range(n)]
        parts.append(snake)
        for rgs in parts:
            # restricted-growth renumbering (blocks numbered by first occurrence)
            ren, out = {}, []
            for b in rgs:
                ren.setdefault(b, len(ren))
                out.append(ren[b])
            size_of = {b: out.count(b) for b in set(out)}
            true_sizes = [size_of[b] for b in out]
            for sizes in ([-1] * n,
                          [true_sizes[c] if c % 4 == 0 else -1 for c in range(n)],
                          [(true_sizes[c] + (1 if c == n - 1 else 0)) if c % 5 == 0 or c == n - 1 else -1 for c in range(n)]):
                recs.append({"kind": "parts", "h": h, "w": w, "rgs": out, "sizes": sizes})
    verdict = judge(chk, recs, "scaleup_groups")
    jobs = []
    for r in recs:
        h, w = r["h"], r["w"]
        n = h * w
        obj = {"kind": "grid", "name": "scale-up", "h": h, "w": w, "graph": {"n": n, "edges": grid_edges(h, w)}}
        allnone = all(x < 0 for x in r["sizes"])
        jobs.append({"obj": obj, "id": 70000 + r["t"], "flip": 0, "sizekind": "none" if allnone else "list", "sizes": r["sizes"],
                     "form": ["list", "array"][r["t"] % 2], "parts": [r["rgs"]], "expects": [verdict[r["t"]]["ok"]]})
    chk.extra["scale_up_partitions (boards with more than 16 cells)"] = len(recs)
    return jobs
