"""Check driver shared by the flag-only graph families (C08, C09): every object x every pattern,
the real helper + z3 against the definitional verdict exported by TLC."""
import json

from .common import Check
from . import graph_check as GC, graph_replay as GR


def direction(observed):
    return "admits" if observed is True else "rejects" if observed is False else str(observed)


def run_family(chk, jobs, helper_name):
    results = GC.pmap(GR.run_flags, jobs)
    for job, mism in zip(jobs, results):
        for p in job["patterns"]:
            chk.note_case(f"{job['family']}/{job['id']}/{job['form']}/{job.get('as_graph', False)}/{p}",
                          bin(p).count("1") >= 2 and len(job["obj"]["graph"]["edges"]) >= 1)
        for m in mism:
            d = direction(m["observed"])
            chk.violation({"helper": helper_name(job), "kind": job["obj"]["kind"], "form": job["form"],
                           "as_graph": bool(job.get("as_graph")), "direction": d,
                           "shape": [job["obj"]["h"], job["obj"]["w"]]},
                          f"{helper_name(job)} {d} a pattern on which the definition says {m['expected']}",
                          {"family": job["family"], "obj": job["obj"], "form": job["form"],
                           "as_graph": bool(job.get("as_graph")), "nflags": job["nflags"], "flip": job.get("flip", 0),
                           "pattern": m["pattern"], "flags": GR.bits_of(m["pattern"], job["nflags"]),
                           "expected": m["expected"], "observed": m["observed"]})


def replay_flags(pid, path):
    data = json.loads(open(path).read())
    bad = 0
    for c in data["cases"]:
        job = {"family": c["family"], "obj": c["obj"], "form": c["form"], "as_graph": c["as_graph"], "flip": c.get("flip", 0),
               "nflags": c["nflags"], "patterns": [c["pattern"]], "expects": [c["expected"]]}
        mism = GR.run_flags(job)
        print(json.dumps({"obj": c["obj"], "form": c["form"], "flags": c["flags"], "expected": c["expected"],
                          "observed": mism[0]["observed"] if mism else c["expected"]}))
        bad += bool(mism)
    if bad:
        print(f"VIOLATION property={pid} replay={path}")
    return 1 if bad else 0
