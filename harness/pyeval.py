"""Python evaluator of exported trees, used only by *collaborators* (the adversarial policy backend,
the stand-in solver) to behave like a correct solver.  Every decision taken with it is logged and
re-checked by TLC with CspSem!Eval, so an error here is reported as a machinery problem."""


def ev(t, a):
    op = t["op"]
    if op == "VAR":
        return a[t["id"]]
    if op in ("INT", "BOOL"):
        return t["val"]
    x = t.get("args", [])
    if op == "NEG":
        return -ev(x[0], a)
    if op == "ADD":
        return sum(ev(y, a) for y in x)
    if op == "SUB":
        return ev(x[0], a) - sum(ev(y, a) for y in x[1:])
    if op == "IF":
        return ev(x[1], a) if ev(x[0], a) else ev(x[2], a)
    if op == "EQ":
        return ev(x[0], a) == ev(x[1], a)
    if op == "NE":
        return ev(x[0], a) != ev(x[1], a)
    if op == "LE":
        return ev(x[0], a) <= ev(x[1], a)
    if op == "LT":
        return ev(x[0], a) < ev(x[1], a)
    if op == "GE":
        return ev(x[0], a) >= ev(x[1], a)
    if op == "GT":
        return ev(x[0], a) > ev(x[1], a)
    if op == "NOT":
        return not ev(x[0], a)
    if op == "AND":
        return all(ev(y, a) for y in x)
    if op == "OR":
        return any(ev(y, a) for y in x)
    if op == "IFF":
        return bool(ev(x[0], a)) == bool(ev(x[1], a))
    if op == "XOR":
        return bool(ev(x[0], a)) != bool(ev(x[1], a))
    if op == "IMP":
        return (not ev(x[0], a)) or bool(ev(x[1], a))
    if op == "ALLDIFF":
        vals = [ev(y, a) for y in x]
        return len(set(vals)) == len(vals)
    raise ValueError("pyeval: unsupported op " + op)
