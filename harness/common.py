"""Shared plumbing of the checks: tiers, seeds, evidence files, known findings, verdict lines."""
import json
import os
import sys
import time
from pathlib import Path

VERIF = Path(__file__).resolve().parent.parent
WORK = VERIF / ".work"
EVID = VERIF / "evidence"
REPO = Path(os.environ.get("VERIF_REPO", "/repo"))
KNOWN = VERIF / "known_findings.json"
NPROC = min(16, os.cpu_count() or 4)


def tier_from(argv_tier=None):
    t = argv_tier or os.environ.get("VERIF_TIER") or "quick"
    return "thorough" if t.startswith("t") else "quick"


def seed_from():
    try:
        return int(os.environ.get("VERIF_SEED", "0"))
    except ValueError:
        return 0


def workdir(pid):
    d = WORK / pid
    d.mkdir(parents=True, exist_ok=True)
    return d


def canon(x):
    return json.dumps(x, sort_keys=True, separators=(",", ":"))


class Check:
    """Accumulates what one run of one property check covered and found."""

    def __init__(self, pid, tier, seed, level="model_checking", evidence_dir="evidence"):
        self.pid, self.tier, self.seed, self.level = pid, tier, seed, level
        self.evid = VERIF / evidence_dir      # listed properties: evidence/; extended coverage (X..): evidence_extended/
        self.t0 = time.time()
        self.states = 0
        self.transitions = 0
        self.traces = 0
        self.evaluations = 0
        self.nontrivial = set()
        self.nontrivial_extra = 0
        self.samples = []
        self.violations = []          # dicts: {"sig":{...}, "what":str, "case":{...}}
        self.assumptions = []
        self.extra = {}
        self.rule = ""
        self.exhaustive = False
        self.tlc_runs = []
        self.dir = workdir(pid)

    # -- bookkeeping -------------------------------------------------------------------
    def add_tlc(self, res):
        self.states += res.distinct
        self.transitions += res.generated
        self.tlc_runs.append({"module": res.module, "cfg": os.path.basename(res.cfg),
                              "generated": res.generated, "distinct": res.distinct,
                              "depth": res.depth, "wall_s": round(res.wall_s, 2)})

    def sample(self, x, limit=6):
        if len(self.samples) < limit:
            self.samples.append(x)

    def note_case(self, case, nontrivial):
        self.evaluations += 1
        if nontrivial:
            self.nontrivial.add(canon(case) if not isinstance(case, str) else case)

    def violation(self, sig, what, case):
        self.violations.append({"sig": sig, "what": what, "case": case})

    # -- verdict -----------------------------------------------------------------------
    def finish(self):
        known = []
        if KNOWN.exists():
            known = [e for e in json.loads(KNOWN.read_text()).get("findings", [])
                     if e.get("property") == self.pid and e.get("status") == "open"]
        matched = {}
        fresh = []
        for v in self.violations:
            hit = None
            for i, e in enumerate(known):
                if _matches(e.get("match", {}), v["sig"]):
                    hit = i
                    break
            if hit is None:
                fresh.append(v)
            else:
                matched.setdefault(hit, []).append(v)
        for i, vs in matched.items():
            print(f"KNOWN-FINDING: property={self.pid} {known[i]['what']} "
                  f"[{len(vs)} case(s) this run, e.g. {canon(vs[0]['case'])[:160]}]")
        replay_paths = []
        if fresh:
            rdir = self.dir / "replay"
            rdir.mkdir(exist_ok=True)
            groups = {}
            for v in fresh:
                groups.setdefault(canon(v["sig"]), []).append(v)
            for k, (sigc, vs) in enumerate(sorted(groups.items())):
                path = rdir / f"{self.pid}_{self.tier}_{k}.json"
                path.write_text(json.dumps({"property": self.pid, "tier": self.tier, "seed": self.seed, "sig": vs[0]["sig"],
                                            "what": vs[0]["what"], "count": len(vs),
                                            "cases": [v["case"] for v in vs[:20]]}, indent=1))
                replay_paths.append(str(path))
                print(f"VIOLATION property={self.pid} replay={path}")
                print(f"  {vs[0]['what']} ({len(vs)} case(s)); first: {canon(vs[0]['case'])[:300]}")
        self.write_evidence(len(fresh), sum(len(v) for v in matched.values()))
        return 1 if fresh else 0

    def write_evidence(self, n_fresh, n_known):
        cov = {
            "states": self.states,
            "transitions": self.transitions,
            "traces_validated_against_impl": self.traces,
            "evaluations": self.evaluations,
            "distinct_nontrivial": len(self.nontrivial) + self.nontrivial_extra,
            "rule": self.rule,
            "samples": self.samples or ["(none)"],
            "exhaustive": self.exhaustive,
            "tlc_runs": self.tlc_runs,
            "checker_cmd": "tlc (tla2tools 1.8.0) via harness/tlc.py; see tlc_runs",
            "known_findings_reobserved": n_known,
        }
        cov.update(self.extra)
        ev = {
            "property_id": self.pid,
            "tier": self.tier,
            "seed": self.seed,
            "level": self.level,
            "coverage": cov,
            "assumptions": self.assumptions,
            "wall_s": round(time.time() - self.t0, 2),
            "violations": n_fresh,
        }
        self.evid.mkdir(exist_ok=True)
        (self.evid / f"{self.pid}.json").write_text(json.dumps(ev, indent=1, sort_keys=True) + "\n")


def _matches(pattern, sig):
    """A known-finding pattern matches a violation signature when every key of the pattern is
    present in the signature with an equal value (or one of a list of allowed values)."""
    if not pattern:
        return False
    for k, want in pattern.items():
        if k not in sig:
            return False
        have = sig[k]
        if isinstance(want, list) and not isinstance(have, list):
            if have not in want:
                return False
        elif have != want:
            return False
    return True


def write_ndjson(path, records):
    with open(path, "w") as f:
        for r in records:
            f.write(json.dumps(r, separators=(",", ":")) + "\n")


def chunks(seq, n):
    k = max(1, (len(seq) + n - 1) // n)
    return [seq[i:i + k] for i in range(0, len(seq), k)]
