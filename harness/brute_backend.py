"""A correct, complete backend for tiny programs (collaborator of the Analyzer check): enumerates all assignments of the
declared variables and evaluates the real cspuz expressions through the structural exporter and harness/pyeval.py.
It implements the whole backend interface, native deduction (solve_irrefutably) included, which no offline backend does."""
import itertools

from cspuz.expr import BoolVar

from .export import tree
from .pyeval import ev


class BruteBackend:
    calls = {"solve": 0, "solve_irrefutably": 0}

    def __init__(self, variables):
        self.variables = list(variables)
        self.cons = []

    def add_constraint(self, c):
        if isinstance(c, (list, tuple)):
            for x in c:
                self.add_constraint(x)
        else:
            self.cons.append(tree(c))

    def _models(self):
        doms = [[False, True] if isinstance(v, BoolVar) else list(range(v.lo, v.hi + 1)) for v in self.variables]
        pos = {v.id: i for i, v in enumerate(self.variables)}
        size = max(pos) + 1 if pos else 0
        for vals in itertools.product(*doms):
            a = [None] * size
            for v, x in zip(self.variables, vals):
                a[v.id] = x
            if all(ev(c, a) for c in self.cons):
                yield vals

    def solve(self):
        BruteBackend.calls["solve"] += 1
        for vals in self._models():
            for v, x in zip(self.variables, vals):
                v.sol = x
            return True
        for v in self.variables:
            v.sol = None
        return False

    def solve_irrefutably(self, is_answer_key):
        BruteBackend.calls["solve_irrefutably"] += 1
        ms = list(self._models())
        for v in self.variables:
            v.sol = None
        if not ms:
            return False
        for i, v in enumerate(self.variables):
            if is_answer_key[v.id]:
                col = {m[i] for m in ms}
                if len(col) == 1:
                    v.sol = next(iter(col))
        return True
