"""pytest plugin (loaded with `-p harness.graph_recorder`): records, for every cspuz.graph.Graph object the repository's own
tests create (directly or inside the graph helpers and puzzle solvers), the sequence of add_edge / line_graph calls with the
state read back after each call - one trace per object, written as NDJSON to CSPUZ_VERIF_GRAPH_RECORD at the end of the
session.  Nothing in the repository is edited: the methods are wrapped at run time."""
import json
import os

_traces = {}
_order = []


def pytest_configure(config):
    path = os.environ.get("CSPUZ_VERIF_GRAPH_RECORD")
    if not path:
        return
    import cspuz.graph as G
    o_init, o_add, o_lg = G.Graph.__init__, G.Graph.add_edge, G.Graph.line_graph

    def init(self, num_vertices):
        o_init(self, num_vertices)
        _traces[id(self)] = {"nv": num_vertices, "events": [], "obj": self}      # the reference keeps id() unique
        _order.append(id(self))

    def add_edge(self, i, j):
        o_add(self, i, j)
        t = _traces.get(id(self))
        if t is not None and len(t["events"]) < 400:
            t["events"].append({"op": "add_edge", "i": i, "j": j, "nedges": len(self), "last": list(self[len(self) - 1]),
                                "inc_i": [list(p) for p in self.incident_edges[i]],
                                "inc_j": [list(p) for p in self.incident_edges[j]]})

    def line_graph(self):
        lg = o_lg(self)
        t = _traces.get(id(self))
        if t is not None and len(t["events"]) < 400:
            t["events"].append({"op": "line_graph", "nv": lg.num_vertices, "pairs": [list(e) for e in lg]})
        return lg
    G.Graph.__init__, G.Graph.add_edge, G.Graph.line_graph = init, add_edge, line_graph


def pytest_unconfigure(config):
    path = os.environ.get("CSPUZ_VERIF_GRAPH_RECORD")
    if not path:
        return
    with open(path, "w") as f:
        for k, oid in enumerate(_order):
            t = _traces[oid]
            g = t["obj"]
            t["events"].append({"op": "observe", "edges": [list(e) for e in g.edges],
                                "inc": [[list(p) for p in row] for row in g.incident_edges]})
            f.write(json.dumps({"tid": k, "nv": t["nv"], "events": t["events"]}, separators=(",", ":")) + "\n")
