"""A correct stand-in for the native solver modules (pycsugar / enigma_csp / cspuz_core): `solver(description)` answers for
the Solver object it is attached to, from the *exported program* (all models by brute force with harness/pyeval.py), in
the reply format the request asks for (deduction mode when the description carries an answer-key line, answer-finder mode
otherwise).  Whether the description itself is faithful is C03's business; here the point is what Solver.solve /
find_answer make of a correct solver's reply (C02 through the native-deduction route)."""
import itertools
import sys
import types

from .export import program
from .pyeval import ev

MODULES = {"csugar": "pycsugar", "enigma_csp": "enigma_csp", "cspuz_core": "cspuz_core"}


class NativeStandIn:
    def __init__(self):
        self.solver = None
        self.calls = 0

    def attach(self, solver):
        self.solver = solver

    def _reply(self, desc):
        self.calls += 1
        prog = program(self.solver)
        doms = [[False, True] if v["kind"] == "bool" else list(range(v["lo"], v["hi"] + 1)) for v in prog["vars"]]
        models = [a for a in itertools.product(*doms) if all(ev(c, a) for c in prog["cons"])]
        keyline = [line for line in desc.split("\n") if line.startswith("#")]
        deduce = bool(keyline)
        asked = []
        if deduce:
            # like the real wrapper, the stand-in decides the variables NAMED ON THE ANSWER-KEY LINE (it takes everything
            # else from the exported program): a name it does not know is an error, as it is for the real solver
            import re
            for tok in keyline[-1][1:].split():
                if not re.fullmatch(r"[bi][0-9]+", tok) or int(tok[1:]) >= len(prog["vars"]) or \
                        (tok[0] == "b") != (prog["vars"][int(tok[1:])]["kind"] == "bool"):
                    raise ValueError("stand-in solver: unknown answer key " + repr(tok))
                asked.append(int(tok[1:]))

        def line(i, val, sep):
            v = prog["vars"][i]
            return ("b%d%s%s" % (i, sep, "true" if val else "false")) if v["kind"] == "bool" else ("i%d%s%d" % (i, sep, val))
        if deduce:
            if not models:
                return "unsat\n"
            out = ["sat"]
            for k in asked:
                col = {m[k] for m in models}
                if len(col) == 1:
                    out.append(line(k, models[0][k], " "))
            return "\n".join(out) + "\n"
        if not models:
            return "s UNSATISFIABLE\n"
        m = models[(self.calls * 7) % len(models)]
        return "\n".join(["s SATISFIABLE"] + ["a " + line(i, m[i], "\t") for i in range(len(m))] + ["a"]) + "\n"

    def __enter__(self):
        self.saved = {m: sys.modules.get(m, "<absent>") for m in MODULES.values()}
        for m in MODULES.values():
            fake = types.ModuleType(m)
            fake.solver = self._reply
            sys.modules[m] = fake
        return self

    def __exit__(self, *a):
        for m, v in self.saved.items():
            if v == "<absent>":
                sys.modules.pop(m, None)
            else:
                sys.modules[m] = v
        return False
