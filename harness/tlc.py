"""TLC runner: every call is wrapped in a timeout, gets its own metadir under .work/,
and returns TLC's own state counts plus the JSON records printed by PrintT(ToJson(..))."""
import json
import os
import re
import shutil
import subprocess
import time
from dataclasses import dataclass, field
from pathlib import Path

VERIF = Path(__file__).resolve().parent.parent
SPEC = VERIF / "spec"
WORK = VERIF / ".work"
JAR_CP = "/opt/veriftools/tla/tla2tools.jar:/opt/veriftools/tla/CommunityModules-deps.jar"


import itertools
_COUNTER = itertools.count()


class MachineryError(Exception):
    """TLC failed for a reason that is not a property verdict (exit code 2 of ./check)."""


@dataclass
class TLCResult:
    module: str
    cfg: str
    exit_code: int
    wall_s: float
    generated: int = 0
    distinct: int = 0
    depth: int = 0
    records: list = field(default_factory=list)
    stdout: str = ""
    invariant_violated: str = ""
    coverage: dict = field(default_factory=dict)

    @property
    def ok(self):
        return self.exit_code == 0


_STATES = re.compile(r"(\d+) states generated, (\d+) distinct states found")
_SIMSTATES = re.compile(r"The number of states generated: (\d+)")
_DEPTH = re.compile(r"depth of the complete state graph search is (\d+)")
_INV = re.compile(r"Invariant (\S+) is violated")


def run_tlc(module, cfg=None, *, workdir, env=None, workers=16, timeout=900, simulate=None,
            depth=None, seed=None, coverage=False, deadlock=False, heap="6g", expect_ok=True,
            extra=None, dfs=False):
    """Run TLC on spec/<module>.tla with spec/<cfg>.cfg (or an explicit path).

    workdir: directory under .work/ used for metadir and the captured stdout.
    env: extra environment (IOEnv.* in the spec).
    Returns a TLCResult; raises MachineryError on timeouts / parse errors / TLC crashes
    (anything but exit 0 or, when expect_ok is False, an invariant violation)."""
    workdir = Path(workdir)
    workdir.mkdir(parents=True, exist_ok=True)
    mod_path = SPEC / (module + ".tla")
    cfg_path = Path(cfg) if cfg and os.sep in str(cfg) else SPEC / ((cfg or module) + ".cfg")
    tag = f"{module}_{os.getpid()}_{int(time.time() * 1000) % 100000000}_{next(_COUNTER)}"
    metadir = workdir / ("meta_" + tag)
    out_path = workdir / (tag + ".out")
    jtmp = workdir / ("jtmp_" + tag)       # TLC leaves an empty tlc-<n> directory in java.io.tmpdir on every run: keep it out of /tmp
    jtmp.mkdir(parents=True, exist_ok=True)
    cmd = ["java", "-XX:+UseParallelGC", f"-Xmx{heap}", "-Xss64m",     # deep (but finite) recursive definitions
           f"-Djava.io.tmpdir={jtmp}"]
    if dfs:
        cmd.append("-Dtlc2.tool.queue.IStateQueue=StateDeque")
    cmd += ["-cp", JAR_CP, "tlc2.TLC", "-workers", str(workers), "-metadir", str(metadir),
            "-noGenerateSpecTE", "-config", str(cfg_path)]
    if not deadlock:
        cmd.append("-deadlock")  # -deadlock *disables* deadlock checking
    if simulate:
        cmd += ["-simulate", simulate]
    if depth:
        cmd += ["-depth", str(depth)]
    if seed is not None:
        cmd += ["-seed", str(seed)]
    if coverage:
        cmd += ["-coverage", "1"]
    if extra:
        cmd += list(extra)
    cmd.append(str(mod_path))
    full_env = dict(os.environ)
    full_env.pop("JAVA_TOOL_OPTIONS", None)
    if env:
        full_env.update({k: str(v) for k, v in env.items()})
    t0 = time.time()
    try:
        with open(out_path, "w") as fo:
            p = subprocess.run(cmd, cwd=str(SPEC), env=full_env, stdout=fo,
                               stderr=subprocess.STDOUT, timeout=timeout)
        code = p.returncode
    except subprocess.TimeoutExpired:
        shutil.rmtree(metadir, ignore_errors=True)
        shutil.rmtree(jtmp, ignore_errors=True)
        raise MachineryError(f"TLC timeout after {timeout}s: {module} ({out_path})")
    wall = time.time() - t0
    shutil.rmtree(metadir, ignore_errors=True)
    shutil.rmtree(jtmp, ignore_errors=True)
    res = TLCResult(module=module, cfg=str(cfg_path), exit_code=code, wall_s=wall)
    lines = []
    with open(out_path, errors="replace") as fi:
        for line in fi:
            if line.startswith('"{') or line.startswith('"['):
                try:
                    res.records.append(json.loads(json.loads(line)))
                    continue
                except Exception:
                    raise MachineryError(f"unparsable PrintT record in {out_path}: {line[:200]}")
            lines.append(line)
            m = _STATES.search(line)
            if m:
                res.generated, res.distinct = int(m.group(1)), int(m.group(2))
            m = _SIMSTATES.search(line)
            if m:
                res.generated = int(m.group(1))
                res.distinct = max(res.distinct, len(res.records))
            m = _DEPTH.search(line)
            if m:
                res.depth = int(m.group(1))
            m = _INV.search(line)
            if m:
                res.invariant_violated = m.group(1)
    res.stdout = "".join(lines[-400:])
    if code != 0 and (expect_ok or code not in (12, 13)):
        raise MachineryError(
            f"TLC exit {code} on {module} (cfg {cfg_path.name}); see {out_path}\n" + res.stdout[-3000:])
    if code == 0:
        try:
            out_path.unlink()
        except OSError:
            pass
    return res


def run_tlc_chunked(module, records, *, workdir, name, chunk_bytes=40_000_000, parallel=4, **kw):
    """Judge `records` (dicts, one NDJSON line each) with a Trace_* module that reads IOEnv.TRACE_FILE: the judges read their
    input as ONE JSON sequence, which stops working at a few hundred MB, so the records are written to files of at most
    `chunk_bytes` and judged by one TLC run per file, `parallel` at a time.  Returns the list of TLCResult."""
    from concurrent.futures import ThreadPoolExecutor
    workdir = Path(workdir)
    workdir.mkdir(parents=True, exist_ok=True)
    for old in workdir.glob(f"{name}_*.ndjson"):
        old.unlink()
    paths, cur, size = [], [], 0

    def flush():
        nonlocal cur, size
        if cur:
            pth = workdir / f"{name}_{len(paths)}.ndjson"
            pth.write_text("\n".join(cur) + "\n")
            paths.append(pth)
            cur, size = [], 0
    for r in records:
        line = json.dumps(r, separators=(",", ":"))
        if cur and size + len(line) > chunk_bytes:
            flush()
        cur.append(line)
        size += len(line)
    flush()
    with ThreadPoolExecutor(max_workers=parallel) as ex:
        return list(ex.map(lambda pth: run_tlc(module, module, workdir=workdir, env={"TRACE_FILE": str(pth)}, **kw), paths))


def sany(module):
    p = subprocess.run(["java", "-cp", JAR_CP, "tla2sany.SANY", str(SPEC / (module + ".tla"))],
                       cwd=str(SPEC), capture_output=True, text=True, timeout=120)
    ok = p.returncode == 0 and "Semantic errors" not in p.stdout and "***Parse Error***" not in p.stdout \
        and "Fatal errors" not in p.stdout
    return ok, p.stdout + p.stderr
