"""Shared pipeline for the session properties (C01, C02):
   scenarios (TLC-generated + seeded random) -> real code -> NDJSON traces -> Trace_Session.tla."""
import json
import multiprocessing as mp
from .par import RobustPool
import random

from .common import NPROC, chunks, write_ndjson
from .tlc import run_tlc, MachineryError
from . import session


def tlc_scenarios_A(chk, shard, nshards, cfg="MC_SessionA"):
    res = run_tlc("MC_Session", cfg, workdir=chk.dir, env={"SHARD": shard, "NSHARDS": nshards},
                  timeout=1500)
    chk.add_tlc(res)
    return [r["hist"] for r in res.records]


def tlc_scenarios_B(chk, num, depth, seed, cfg="MC_SessionB"):
    res = run_tlc("MC_Session", cfg, workdir=chk.dir, env={"SHARD": 0, "NSHARDS": 1, "EXPORT_DEPTH": depth},
                  simulate=f"num={num}", depth=depth, seed=seed, workers=8, timeout=900)
    chk.add_tlc(res)
    return [r["hist"] for r in res.records]


def execute(scenarios, backend="z3"):
    """scenarios: list of (tid, steps) -> list of {"t","events"} (parallel, deterministic order)"""
    parts = chunks(scenarios, NPROC * 4)
    with RobustPool(NPROC) as pool:
        outs = pool.map(session.run_many, [(backend, p) for p in parts])
    return [x for o in outs for x in o]


def judge(chk, traces, name="traces"):
    """Validate traces with Trace_Session.tla; returns {t: verdict record}"""
    path = chk.dir / f"{name}.ndjson"
    write_ndjson(path, traces)
    res = run_tlc("Trace_Session", "Trace_Session", workdir=chk.dir, env={"TRACE_FILE": str(path)},
                  timeout=3000, workers=4)
    chk.add_tlc(res)
    verdicts = {}
    for r in res.records:
        if r["t"] in verdicts:
            raise MachineryError(f"two verdicts for trace {r['t']}")
        verdicts[r["t"]] = r
    if len(verdicts) != len(traces):
        raise MachineryError(f"{len(traces)} traces but {len(verdicts)} verdicts")
    chk.traces += len(traces)
    return verdicts


def repo_test_traces(chk, calls):
    """P2': run the repository's own test-suite with the recorder plugin and validate every find_answer / solve it made"""
    import os
    import subprocess
    from .common import REPO, VERIF
    out = chk.dir / "repo_tests.ndjson"
    env = dict(os.environ, CSPUZ_VERIF_RECORD=str(out), PYTHONPATH=f"{REPO}:{VERIF}")
    subprocess.run(["/venv/bin/python", "-m", "pytest", "-q", "-p", "no:cacheprovider", "-p", "harness.pytest_recorder",
                    "--timeout=900", "tests"], cwd=str(REPO), env=env, capture_output=True, text=True, timeout=1800)
    recs = []
    if out.exists():
        for line in open(out):
            r = json.loads(line)
            if r.get("status") == "recorder-failed":
                raise MachineryError("pytest recorder failed: " + r.get("exc", ""))
            if r["call"] in calls and r["status"] == "ok":
                graph_op = any(c["op"].startswith("GRAPH_") for c in r["prog"]["cons"])
                r["small"] = r["product"] <= 3000 and not graph_op
                r["t"] = len(recs)
                recs.append(r)
    if not recs:
        return [], {}
    path = chk.dir / "repo_tests_judged.ndjson"
    write_ndjson(path, recs)
    res = run_tlc("Trace_Program", "Trace_Program", workdir=chk.dir, env={"TRACE_FILE": str(path)}, timeout=1800, workers=4)
    chk.add_tlc(res)
    if len(res.records) != len(recs):
        raise MachineryError(f"{len(recs)} recorded calls but {len(res.records)} verdicts")
    chk.traces += len(recs)
    return recs, {v["t"]: v for v in res.records}
