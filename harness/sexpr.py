"""Purely lexical reader of Sugar CSP text: a line -> token tree for spec/SugarWire.tla.
   atom: {"a": text, "t": "bvar"|"ivar"|"int"|"sym", "n": number, "k": []};  list: {"a":"", "t":"list", "n":0, "k":[...]}
   answer-key line "#b0 i1": {"a":"#", "t":"keys", "n":0, "k":[atoms]}"""
import re

_INT = re.compile(r"^-?\d+$")
_BV = re.compile(r"^b(\d+)$")
_IV = re.compile(r"^i(\d+)$")


def atom(tok):
    if _INT.match(tok):
        return {"a": tok, "t": "int", "n": int(tok), "k": []}
    m = _BV.match(tok)
    if m:
        return {"a": tok, "t": "bvar", "n": int(m.group(1)), "k": []}
    m = _IV.match(tok)
    if m:
        return {"a": tok, "t": "ivar", "n": int(m.group(1)), "k": []}
    return {"a": tok, "t": "sym", "n": 0, "k": []}


def parse_line(line):
    if line.startswith("#"):
        return {"a": "#", "t": "keys", "n": 0, "k": [atom(x) for x in line[1:].split()]}
    toks = line.replace("(", " ( ").replace(")", " ) ").split()
    pos = 0

    def rd():
        nonlocal pos
        if pos >= len(toks):
            return {"a": "<eof>", "t": "sym", "n": 0, "k": []}
        t = toks[pos]
        pos += 1
        if t == "(":
            kids = []
            while pos < len(toks) and toks[pos] != ")":
                kids.append(rd())
            pos += 1
            return {"a": "", "t": "list", "n": 0, "k": kids}
        return atom(t)

    node = rd()
    if pos != len(toks):
        return {"a": "<trailing>", "t": "sym", "n": 0, "k": []}
    return node


def parse_request(text):
    return [parse_line(l) for l in text.split("\n") if l != ""]
