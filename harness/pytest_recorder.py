"""pytest plugin (loaded with `-p harness.pytest_recorder`): records every Solver.find_answer / Solver.solve call made
by the repository's own tests - the exported program, the answer keys, the returned value and the sol slots - as NDJSON
(file named by CSPUZ_VERIF_RECORD).  Nothing in the repository is edited: the two methods are wrapped at run time."""
import json
import os

_out = None


def pytest_configure(config):
    global _out
    path = os.environ.get("CSPUZ_VERIF_RECORD")
    if not path:
        return
    _out = open(path, "w")
    import cspuz.solver as S
    from harness.export import program, sol_of

    def wrap(name):
        orig = getattr(S.Solver, name)

        def wrapped(self, backend=None):
            rec = {"call": name, "status": "ok", "exc": "", "ret": False}
            try:
                r = orig(self, backend)
                rec["ret"] = bool(r) if isinstance(r, bool) else False
                if not isinstance(r, bool):
                    rec["status"], rec["exc"] = "exc", "ReturnedNonBool"
                return r
            except Exception as e:
                rec["status"], rec["exc"] = "exc", type(e).__name__
                raise
            finally:
                try:
                    rec["prog"] = program(self)
                    rec.update(sol_of(self.variables))
                    prod = 1
                    for v in rec["prog"]["vars"]:
                        prod *= 2 if v["kind"] == "bool" else (v["hi"] - v["lo"] + 1)
                        if prod > 10 ** 9:
                            break
                    rec["product"] = min(prod, 10 ** 9)
                    rec["test"] = os.environ.get("PYTEST_CURRENT_TEST", "")[:160]
                    _out.write(json.dumps(rec) + "\n")
                    _out.flush()
                except Exception as e:  # noqa
                    _out.write(json.dumps({"call": name, "status": "recorder-failed", "exc": repr(e)[:200]}) + "\n")
        setattr(S.Solver, name, wrapped)

    wrap("find_answer")
    wrap("solve")


def pytest_unconfigure(config):
    if _out:
        _out.close()
