"""P3 collaborator for C02: a *correct* backend without native deduction whose choice among the
correct answers follows a TLC-chosen priority order.  It answers for the constraints it has
actually been given, so it never starves a correct variant of the refinement loop."""
from cspuz.backend.backend import Backend
from cspuz.expr import BoolVar

from .export import tree
from .pyeval import ev


class SolveCapExceeded(Exception):
    pass


def make_backend(models, order, cap, log):
    """models/order: lists of assignments (python lists of values); returns a Backend subclass."""
    prio = list(order) + [m for m in models if m not in order]

    class PolicyBackend(Backend):
        def __init__(self, variables):
            self.variables = variables
            self.trees = []
            self.nsolve = 0
            log.append({"ev": "init", "nvars": len(variables)})

        def add_constraint(self, constraint):
            cs = constraint if isinstance(constraint, list) else [constraint]
            ts = [tree(c) for c in cs]
            self.trees += ts
            log.append({"ev": "add", "trees": ts})

        def solve(self):
            self.nsolve += 1
            if self.nsolve > cap:
                raise SolveCapExceeded()
            for m in prio:
                if all(ev(t, m) for t in self.trees):
                    for v, x in zip(self.variables, m):
                        v.sol = x
                    log.append({"ev": "solve", "ret": True, "m": typed(m)})
                    return True
            log.append({"ev": "solve", "ret": False, "m": typed(prio[0]) if prio else {"ty": [], "b": [], "n": []}})
            return False

    return PolicyBackend


def typed(m):
    return {"ty": ["bool" if type(x) is bool else "int" for x in m],
            "b": [x if type(x) is bool else False for x in m],
            "n": [x if type(x) is int else 0 for x in m]}


def untyped(t):
    return [t["b"][i] if t["ty"][i] == "bool" else t["n"][i] for i in range(len(t["ty"]))]
