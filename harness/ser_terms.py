"""Builds real problem_serializer combinators from the term records of spec/Serializer.tla and converts values."""
from cspuz import problem_serializer as PS


import itertools
_ONEOF_FORM = itertools.count()


def build(t):
    c = t["c"]
    if c == "FixStr":
        return PS.FixStr(t["s"])
    if c == "Dict":
        return PS.Dict(list(t["before"]), list(t["after"]))
    if c == "Spaces":
        return PS.Spaces(t["space"], t["smallest"])
    if c == "DecInt":
        return PS.DecInt()
    if c == "HexInt":
        return PS.HexInt()
    if c == "IntSpaces":
        return PS.IntSpaces(t["space"], t["max_int"], t["max_spaces"])
    if c == "MultiDigit":
        return PS.MultiDigit(t["radix"], t["digits"])
    if c == "OneOf":
        # every legal way of writing the same alternatives: positional, one list, and mixtures of the two
        cs = [build(x) for x in t["choices"]]
        k = next(_ONEOF_FORM) % 5
        if k == 1:
            return PS.OneOf(cs)
        if k == 2 and len(cs) >= 2:
            return PS.OneOf(cs[0], cs[1:])
        if k == 3 and len(cs) >= 2:
            return PS.OneOf(cs[:-1], cs[-1])
        if k == 4 and len(cs) >= 2:
            return PS.OneOf(cs[:1], cs[1:])
        return PS.OneOf(*cs)
    if c == "Tupl":
        return PS.Tupl(*[build(x) for x in t["elems"]])
    if c == "Seq":
        return PS.Seq(build(t["base"]), t["n"])
    if c == "Grid":
        if t["fixed"]:
            return PS.Grid(build(t["base"]), height=t["h"], width=t["w"])
        return PS.Grid(build(t["base"]))
    if c == "Rooms":
        return PS.Rooms()
    if c == "ValuedRooms":
        return PS.ValuedRooms(build(t["value"]))
    raise ValueError(c)


def to_py(t, item):
    """one item of the data list handed to term t"""
    c = t["c"]
    if c == "Tupl":
        return tuple([to_py(e, x) for x in part] for e, part in zip(t["elems"], item))
    if c == "Seq":
        return [to_py(t["base"], x) for x in item]
    if c == "Grid":
        return [[to_py(t["base"], x) for x in row] for row in item]
    if c == "Rooms":
        return [[tuple(p) for p in room] for room in item]
    if c == "ValuedRooms":
        return ([[tuple(p) for p in room] for room in item[0]], [to_py(t["value"], x) for x in item[1]])
    if c == "OneOf":
        return to_py(t["choices"][-1], item) if t["choices"][-1]["c"] in ("Tupl", "Seq", "Grid") else item
    return item


def to_json(x):
    if isinstance(x, (list, tuple)):
        return [to_json(y) for y in x]
    return x
