---------------------------- MODULE MC_Serializer ----------------------------
(* Combinator terms and the values they accept, over boundary alphabets (C15).
   Design level: RoundTrips holds on the transcription for every case (else the case is exported
   with roundtrip = FALSE: that is how the 1xN Rooms defect shows at design level).
   Every case is exported for the replay into the real combinators. *)
EXTENDS Serializer, GraphDefs, Json, TLCExt, IOUtils, SequencesExt

Tier == IOEnv.TIER
Quick == Tier = "quick"

Spaces(sp, sm)   == [c |-> "Spaces", space |-> sp, smallest |-> sm]
HexInt           == [c |-> "HexInt"]
DecInt           == [c |-> "DecInt"]
Dict(b, a)       == [c |-> "Dict", before |-> b, after |-> a]
IntSpaces(sp, mi, ms) == [c |-> "IntSpaces", space |-> sp, max_int |-> mi, max_spaces |-> ms]
MultiDigit(b, d) == [c |-> "MultiDigit", radix |-> b, digits |-> d]
OneOf(cs)        == [c |-> "OneOf", choices |-> cs]
Tupl(es)         == [c |-> "Tupl", elems |-> es]
SeqT(b, n)       == [c |-> "Seq", base |-> b, n |-> n]
GridEnv(b)       == [c |-> "Grid", base |-> b, h |-> 0, w |-> 0, fixed |-> FALSE]
GridFix(b, h, w) == [c |-> "Grid", base |-> b, h |-> h, w |-> w, fixed |-> TRUE]
FixStr(s)        == [c |-> "FixStr", s |-> s]
Rooms            == [c |-> "Rooms"]
ValuedRooms(v)   == [c |-> "ValuedRooms", value |-> v]

B1 == OneOf(<<Spaces(-1, "g"), HexInt>>)
B2 == OneOf(<<Dict(<<-2>>, <<".">>), Spaces(-1, "g"), HexInt>>)
B3 == OneOf(<<IntSpaces(-1, 4, 2), Spaces(-1, "g")>>)
B4 == MultiDigit(3, 3)
B5 == OneOf(<<Dict(<<-1, -2>>, <<".", "%">>), HexInt>>)
B6 == OneOf(<<Spaces(-1, "g"), IntSpaces(-1, 4, 2), Dict(<<5, 6>>, <<".", "_">>)>>)      \* a clue directly followed by a non-space, non-clue item
Alpha(b) == IF b = B6 THEN {-1, 0, 4, 5, 6} ELSE
            IF b = B1 THEN {-1, 0, 15, 16, 255, 256, 4095}
            ELSE IF b = B2 THEN {-2, -1, 0, 16}
            ELSE IF b = B3 THEN {-1, 0, 3, 4}
            ELSE IF b = B4 THEN {0, 1, 2} ELSE {-2, -1, 0, 17}
Alpha3(b) == IF b = B6 THEN {-1, 4, 5} ELSE IF b = B1 THEN {-1, 15, 256} ELSE IF b = B2 THEN {-2, -1, 16}
             ELSE IF b = B3 THEN {-1, 0, 4} ELSE IF b = B4 THEN {0, 1, 2} ELSE {-2, -1, 17}
Bases == {B1, B2, B3, B4, B5, B6}

Case(fam, t, h, w, v) == [fam |-> fam, term |-> t, h |-> h, w |-> w, v |-> v]

SeqCases == {Case("seq", SeqT(b, n), 1, 1, v) : b \in Bases, n \in 0 .. (IF Quick THEN 3 ELSE 4),
                                                 v \in UNION {[1 .. m -> Alpha(b2)] : m \in 0 .. 4, b2 \in Bases}}
ValidSeq(x) == Len(x.v) = x.term.n /\ \A i \in DOMAIN x.v : x.v[i] \in Alpha(x.term.base)

RunCases == {Case("runs", SeqT(B1, k + 1), 1, 1, Rep(-1, k) \o <<5>>) : k \in {0, 1, 19, 20, 21, 22, 40, 41}}
       \cup {Case("runs", SeqT(B1, k), 1, 1, Rep(-1, k)) : k \in {1, 19, 20, 21, 39, 40}}
       \cup {Case("runs", SeqT(B3, k + 1), 1, 1, <<3>> \o Rep(-1, k)) : k \in 0 .. 6}
       \cup {Case("runs", SeqT(B3, k + 2), 1, 1, <<4>> \o Rep(-1, k) \o <<0>>) : k \in 0 .. 6}
       \cup {Case("runs", SeqT(B4, n), 1, 1, [i \in 1 .. n |-> (i * 2) % 3]) : n \in 0 .. 8}
       \cup {Case("runs", SeqT(OneOf(<<Spaces(0, "a"), Dict(<<1>>, <<"#">>)>>), k + 1), 1, 1, Rep(0, k) \o <<1>>) : k \in {0, 1, 25, 26, 27, 52}}

Boards == IF Quick THEN {<<1, 1>>, <<1, 3>>, <<3, 1>>, <<2, 2>>} ELSE {<<1, 1>>, <<1, 2>>, <<1, 3>>, <<3, 1>>, <<2, 2>>, <<2, 3>>, <<3, 2>>}
GridsOver(h, w, A) == {[y \in 1 .. h |-> [x \in 1 .. w |-> f[(y - 1) * w + x]]] : f \in [1 .. h * w -> A]}
GridCases == UNION {{Case("grid", GridEnv(b), bd[1], bd[2], g) : g \in GridsOver(bd[1], bd[2], Alpha3(b))} : b \in Bases, bd \in Boards}
        \cup UNION {{Case("gridfix", GridFix(b, 2, 2), bd[1], bd[2], g) : g \in GridsOver(2, 2, Alpha3(b))} : b \in {B1, B4}, bd \in {<<1, 3>>, <<3, 3>>}}

NestedT == OneOf(<<Tupl(<<FixStr("x"), Dict(<<1, 2>>, <<"a", "b">>)>>), Tupl(<<FixStr("y"), HexInt>>)>>)
TuplCases1 == {Case("tupl", Tupl(<<DecInt, FixStr("/"), SeqT(B1, 2)>>), 1, 1, <<<<a>>, <<>>, <<s>>>>) :
                  a \in {0, 7, 10, 123}, s \in [1 .. 2 -> {-1, 0, 16}]}
TuplCases2 == {Case("oneof", NestedT, 1, 1, <<<<>>, <<n>>>>) : n \in {0, 1, 2, 15, 16, 4095}}
TuplCases3 == {Case("oneof", SeqT(NestedT, 2), 1, 1, << <<<<>>, <<a>>>>, <<<<>>, <<b>>>> >>) : a \in {1, 2, 3, 300}, b \in {1, 2, 3, 300}}
TuplCases4 == {Case("tupl", Tupl(<<GridEnv(B4), SeqT(B1, 2)>>), 1, 3, <<<<g>>, <<s>>>>) :
                  g \in GridsOver(1, 3, {0, 2}), s \in [1 .. 2 -> {-1, 256}]}

(* connected room partitions of a board, as restricted growth strings *)
RECURSIVE RGS(_, _)
MaxOf(s) == IF s = <<>> THEN -1 ELSE LET S == {s[i] : i \in DOMAIN s} IN CHOOSE x \in S : \A y \in S : y <= x
RGS(n, s) == IF Len(s) = n THEN {s} ELSE UNION {RGS(n, Append(s, b)) : b \in 0 .. MaxOf(s) + 1}
Blocks(n, r) == {{v \in 0 .. n - 1 : r[v + 1] = b} : b \in {r[i] : i \in DOMAIN r}}
ConnParts(h, w) == {r \in AllRGS(h * w) : \A B \in Blocks(h * w, r) : Connected(GridGraph(h, w), B)}
CellsOf(B, w, rev) == LET q == SetToSeqOrd({<<v \div w, v % w>> : v \in B}) IN IF rev THEN Reverse(q) ELSE q
RoomsOf(h, w, r, revRooms, revCells) ==
    LET ids == SetToSeqOrd({<<b, 0>> : b \in {r[i] : i \in DOMAIN r}})
        q == [i \in DOMAIN ids |-> CellsOf({v \in 0 .. h * w - 1 : r[v + 1] = ids[i][1]}, w, revCells)]
    IN IF revRooms THEN Reverse(q) ELSE q
RoomBoards == IF Quick THEN {<<1, 1>>, <<1, 3>>, <<3, 1>>, <<2, 2>>, <<2, 3>>} ELSE {<<1, 1>>, <<1, 2>>, <<2, 1>>, <<1, 3>>, <<3, 1>>, <<1, 4>>, <<2, 2>>, <<2, 3>>, <<3, 2>>, <<3, 3>>}
RoomCases == UNION {{Case("rooms", Rooms, bd[1], bd[2], RoomsOf(bd[1], bd[2], r, rr, rc)) :
                        r \in ConnParts(bd[1], bd[2]), rr \in BOOLEAN, rc \in BOOLEAN} : bd \in RoomBoards}
ValsFor(k, j) == [i \in 1 .. k |-> <<-1, 0, 17, 3>>[((i + j) % 4) + 1]]
VRoomCases == UNION {{Case("vrooms", ValuedRooms(B5), bd[1], bd[2],
                           LET rs == RoomsOf(bd[1], bd[2], r, rr, rc) IN <<rs, ValsFor(Len(rs), j)>>) :
                        r \in ConnParts(bd[1], bd[2]), rr \in BOOLEAN, rc \in BOOLEAN, j \in 0 .. 1} : bd \in RoomBoards \ {<<3, 3>>}}

(* room combinators that do not start at offset 0 of the text *)
NestedVR == Tupl(<<DecInt, FixStr("/"), ValuedRooms(B5)>>)
NestedR  == Tupl(<<SeqT(B1, 2), Rooms>>)
NestedCases1 == UNION {{Case("nested", NestedVR, bd[1], bd[2],
                             LET rs == RoomsOf(bd[1], bd[2], r, rr, FALSE) IN <<<<a>>, <<>>, <<<<rs, ValsFor(Len(rs), j)>>>>>>) :
                          r \in ConnParts(bd[1], bd[2]), rr \in BOOLEAN, j \in 0 .. 1, a \in {0, 12}} : bd \in {<<2, 2>>, <<1, 3>>, <<2, 3>>}}
NestedCases2 == UNION {{Case("nested", NestedR, bd[1], bd[2], <<<<s>>, <<RoomsOf(bd[1], bd[2], r, FALSE, rc)>>>>) :
                          r \in ConnParts(bd[1], bd[2]), rc \in BOOLEAN, s \in [1 .. 2 -> {-1, 16}]} : bd \in {<<2, 2>>, <<3, 1>>}}

(* one sequence per family: the values of different families have different shapes *)
All == TLCEval(SetToSeq({x \in SeqCases : ValidSeq(x)}) \o SetToSeq(RunCases) \o SetToSeq(GridCases) \o SetToSeq(TuplCases1)
               \o SetToSeq(TuplCases2) \o SetToSeq(TuplCases3) \o SetToSeq(TuplCases4) \o SetToSeq(RoomCases) \o SetToSeq(VRoomCases)
               \o SetToSeq(NestedCases1) \o SetToSeq(NestedCases2))

VARIABLES shard, i
Init == shard \in 0 .. 63 /\ i = 0
Next == i = 0 /\ i' \in {j \in DOMAIN All : j % 64 = shard} /\ shard' = shard
Env(x) == [h |-> x.h, w |-> x.w]
Export == i = 0 \/
    LET x == All[i]  r == Ser(x.term, Env(x), <<x.v>>, 0) IN
    PrintT(ToJson([id |-> i, case |-> x, accepted |-> r.ok, text |-> r.text,
                   roundtrip |-> RoundTrips(x.term, Env(x), x.v)]))
=============================================================================
