------------------------------- MODULE Trace_Url -------------------------------
(***************************************************************************)
(* Judges the URL codecs of the puzzle modules (C16).  One record per      *)
(* problem: the canonical-integer problem (MC_Url), the URL the real       *)
(* encoder produced split lexically into name / numbers / body, and what   *)
(* the real decoder (where the module has one) made of that URL.           *)
(* Required: (i) real decode(encode(p)) = p with its dimensions;           *)
(* (ii) name, width, height in the puzz.link order; (iii) the independent  *)
(* pzpr decoder reads the body back as p (the encoder is called twice on   *)
(* the same objects; the second URL is judged); (iv) legacy helper encoders and *)
(* combinator codecs give identical text for identical data.               *)
(***************************************************************************)
EXTENDS Pzpr, Json, IOUtils, TLCExt

Recs == ndJsonDeserialize(IOEnv.TRACE_FILE)
VARIABLES shard, t
Init == shard \in 0 .. 63 /\ t = 0
Next == t = 0 /\ t' \in {i \in DOMAIN Recs : i % 64 = shard} /\ shard' = shard
R == Recs[t]
C == R.case
N == C.h * C.w

MapCells(cs, e, q) == [i \in DOMAIN cs |-> IF cs[i] = EMPTY THEN e ELSE IF cs[i] = QMARK THEN q ELSE cs[i]]
Whole(r) == r.ok /\ r.pos = Len(R.body)

BlocksOf(rgs) == {{v \in 0 .. Len(rgs) - 1 : rgs[v + 1] = b} : b \in {rgs[i] : i \in DOMAIN rgs}}
BodyRooms == LET bd == Border(R.body, 0, C.h, C.w) IN
             IF ~bd.ok THEN [ok |-> FALSE, rooms |-> <<>>, pos |-> 0]
             ELSE [ok |-> TRUE, rooms |-> RoomSeq(bd, C.h, C.w, {}), pos |-> bd.pos]

GridModule == C.mod \in {"nurikabe", "sudoku", "nurimisaki", "slither", "masyu", "yajilin"}
PzprReadsBack ==
    CASE C.mod = "nurikabe"   -> LET r == Number16(R.body, 0, N, <<>>) IN Whole(r) /\ MapCells(r.cells, 0, -1) = C.cells
      [] C.mod = "sudoku"     -> LET r == Number16(R.body, 0, N, <<>>) IN Whole(r) /\ MapCells(r.cells, 0, QMARK) = C.cells
      [] C.mod = "nurimisaki" -> LET r == Number16(R.body, 0, N, <<>>) IN Whole(r) /\ MapCells(r.cells, -1, 0) = C.cells
      [] C.mod = "slither"    -> LET r == FourCell(R.body, 0, N, <<>>) IN Whole(r) /\ MapCells(r.cells, -1, QMARK) = C.cells
      [] C.mod = "masyu"      -> LET r == Circle(R.body, 0, N, <<>>) IN Whole(r) /\ r.cells = C.cells
      [] C.mod = "yajilin"    -> LET r == Arrow(R.body, 0, N, <<>>) IN Whole(r) /\ r.cells = C.cells
      [] C.mod \in {"lits", "norinori", "starbattle"} ->
            LET b == BodyRooms IN b.ok /\ b.pos = Len(R.body) /\ {b.rooms[i] : i \in DOMAIN b.rooms} = BlocksOf(C.rgs)
      [] C.mod = "heyawake" ->
            LET b == BodyRooms IN
            b.ok /\ LET v == Number16(R.body, b.pos, Len(b.rooms), <<>>) IN
                    Whole(v) /\ {<<b.rooms[i], MapCells(v.cells, -1, QMARK)[i]>> : i \in DOMAIN b.rooms}
                                = {<<{c \in 0 .. N - 1 : C.rgs[c + 1] = k}, C.vals[k + 1]>> : k \in {C.rgs[i] : i \in DOMAIN C.rgs}}
      [] C.mod = "aquarium" ->
            LET b == BodyRooms IN
            b.ok /\ b.pos = Len(R.body) /\ {b.rooms[i] : i \in DOMAIN b.rooms} = BlocksOf(C.rgs)
            /\ LET v == Number16(R.body2, 0, C.h + C.w, <<>>) IN
               v.ok /\ v.pos = Len(R.body2) /\ MapCells(v.cells, -1, QMARK) = C.vals
      [] C.mod = "compass" ->
            LET r == Compass(R.body, 0, 0, N, <<>>) IN
            r.ok /\ {[i \in 1 .. 5 |-> IF r.cells[j][i] = QMARK THEN -1 ELSE r.cells[j][i]] : j \in DOMAIN r.cells}
                    = {C.clues[j] : j \in DOMAIN C.clues}

DecodedSame ==
    IF GridModule THEN R.dec_cells = C.cells
    ELSE IF C.mod \in {"lits", "norinori"} THEN {{R.dec_rooms[i][j] : j \in DOMAIN R.dec_rooms[i]} : i \in DOMAIN R.dec_rooms} = BlocksOf(C.rgs)
    ELSE IF C.mod = "heyawake" THEN
         {<<{R.dec_rooms[i][j] : j \in DOMAIN R.dec_rooms[i]}, R.dec_vals[i]>> : i \in DOMAIN R.dec_rooms}
           = {<<{c \in 0 .. N - 1 : C.rgs[c + 1] = k}, C.vals[k + 1]>> : k \in {C.rgs[i] : i \in DOMAIN C.rgs}}
    ELSE IF C.mod = "compass" THEN {R.dec_clues[j] : j \in DOMAIN R.dec_clues} = {C.clues[j] : j \in DOMAIN C.clues}
    ELSE TRUE

Verdict ==
    IF R.status # "ok" THEN "url:encoder-raised-" \o R.exc
    ELSE IF R.second_encoding_differs THEN "url:encoding-the-same-problem-objects-a-second-time-gives-another-url"
    ELSE IF ~R.frame_ok THEN "url:not-of-the-form-prefix-name-width-height-body"
    ELSE IF R.name # R.expected_name THEN "url:wrong-puzzle-name"
    ELSE IF R.width # C.w \/ R.height # C.h THEN "url:width-and-height-not-in-puzz.link-order"
    ELSE IF C.mod = "starbattle" /\ R.extra # C.vals[1] THEN "url:star-count-missing"
    ELSE IF ~PzprReadsBack THEN "url:independent-pzpr-decoder-does-not-read-the-body-back-as-the-problem"
    ELSE IF R.has_decoder /\ R.dec_status # "ok" THEN "url:decoder-failed-on-the-encoder-output-" \o R.dec_status
    ELSE IF R.has_decoder /\ (R.dec_h # C.h \/ R.dec_w # C.w) THEN "url:decoded-dimensions-differ"
    ELSE IF R.has_decoder /\ ~DecodedSame THEN "url:decode-of-encode-differs-from-the-problem"
    ELSE IF R.legacy_applicable /\ ~R.legacy_same THEN "url:legacy-helper-and-combinator-texts-differ"
    ELSE IF ~R.host_ok THEN "url:the-same-codec-under-another-pzpr-host-prefix-" \o R.host_why
    ELSE "ok"

Report == t = 0 \/ PrintT(ToJson([t |-> R.t, verdict |-> Verdict]))
=============================================================================
