------------------------------ MODULE Trace_Sugar ------------------------------
(***************************************************************************)
(* Judges the CSP descriptions the Sugar-family backends handed to the     *)
(* (substituted) external solver.  One record per request: the Solver's    *)
(* program as exported from the real objects, the mode, and the request    *)
(* text as token trees (one per line).                                     *)
(***************************************************************************)
EXTENDS SugarWire, Json, IOUtils, TLCExt

Recs == ndJsonDeserialize(IOEnv.TRACE_FILE)
VARIABLES shard, t
Init == shard \in 0 .. 63 /\ t = 0
Next == t = 0 /\ t' \in {i \in DOMAIN Recs : i % 64 = shard} /\ shard' = shard

R == Recs[t]
P == R.prog
Lines == R.lines
DeclIdx == {i \in DOMAIN Lines : IsDecl(Lines[i])}
KeyIdx  == {i \in DOMAIN Lines : Lines[i].t = "keys"}
ConsIdx == (DOMAIN Lines \ DeclIdx) \ KeyIdx
ConsSeq == LET RECURSIVE Pick(_)
               Pick(i) == IF i > Len(Lines) THEN <<>>
                          ELSE (IF i \in ConsIdx THEN <<Lines[i]>> ELSE <<>>) \o Pick(i + 1)
           IN Pick(1)

RECURSIVE SameTree(_, _)
SameTree(e1, e2) ==
    /\ e1.op = e2.op
    /\ CASE e1.op = "VAR" -> e1.id = e2.id
         [] e1.op \in {"INT", "BOOL"} -> e1.val = e2.val
         [] e1.op = "HOLE" -> TRUE
         [] OTHER -> /\ Len(e1.args) = Len(e2.args)
                     /\ \A i \in DOMAIN e1.args : SameTree(e1.args[i], e2.args[i])

RECURSIVE AllAsg(_)
AllAsg(k) == IF k > Len(P.vars) THEN {<<>>} ELSE {<<x>> \o r : x \in Dom(P.vars[k]), r \in AllAsg(k + 1)}
Asgs == AllAsg(1)
SemEq(d, c) == Type(d, P.vars) = "bool" /\ Type(c, P.vars) = "bool" /\
               \A a \in Asgs : Eval(d, a) = Eval(c, a)

DeclsOK ==
    /\ Cardinality(DeclIdx) = Len(P.vars)
    /\ {DeclOf(Lines[i]) : i \in DeclIdx} =
         {[id |-> k - 1, kind |-> P.vars[k].kind, lo |-> P.vars[k].lo, hi |-> P.vars[k].hi] : k \in DOMAIN P.vars}

KeysOK ==
    IF R.mode = "find" THEN KeyIdx = {}
    ELSE /\ KeyIdx = {Len(Lines)}
         /\ LET ks == Lines[Len(Lines)].k IN
            /\ \A j \in DOMAIN ks : ks[j].t \in {"bvar", "ivar"} /\ PrefixesOK(ks[j], P.vars)
            /\ {ks[j].n : j \in DOMAIN ks} = {P.keys[j] : j \in DOMAIN P.keys}
            /\ Len(ks) = Len(P.keys)

ConsVerdict ==
    IF Len(ConsSeq) # Len(P.cons) THEN "wire:number-of-constraint-lines-differs-from-posted-constraints"
    ELSE IF \E i \in DOMAIN ConsSeq : ~PrefixesOK(ConsSeq[i], P.vars) THEN "wire:variable-atom-with-wrong-prefix-or-id"
    ELSE IF \E i \in DOMAIN ConsSeq :
              LET d == Denote(ConsSeq[i]) IN
              ~(SameTree(d, P.cons[i]) \/ (R.small /\ d.op \notin GraphOps /\ SemEq(d, P.cons[i])))
         THEN "wire:a-constraint-line-does-not-denote-the-posted-constraint"
    ELSE "ok"

Verdict ==
    IF R.status # "ok" THEN "wire:backend-raised-" \o R.exc
    ELSE IF ~R.transport_ok THEN "wire:solver-not-invoked-as-configured"
    ELSE IF ~DeclsOK THEN "wire:declarations-differ-from-the-solver-variables"
    ELSE IF ~KeysOK THEN "wire:answer-key-line-wrong"
    ELSE ConsVerdict

Report == t = 0 \/ PrintT(ToJson([t |-> R.t, verdict |-> Verdict]))
=============================================================================
