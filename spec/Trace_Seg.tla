------------------------------- MODULE Trace_Seg -------------------------------
(***************************************************************************)
(* C18 judge.  One record per builder value visited: the board, the bounds,*)
(* the value (blocks as sequences of cell numbers) and, for every update   *)
(* the real candidates() proposed there, the value copy_with_update        *)
(* returned and whether a deep snapshot of the value it was applied to     *)
(* still equals it.  Required: every after-value is a valid partition      *)
(* within the bounds, and the before-value is unchanged.  Whether the step *)
(* is a Merge / Split / Move of Segmentation.tla is reported as diagnostic.*)
(***************************************************************************)
EXTENDS SegDefs, Json, IOUtils, TLC, TLCExt

Recs == ndJsonDeserialize(IOEnv.TRACE_FILE)
VARIABLES shard, t
Init == shard \in 0 .. 63 /\ t = 0
Next == t = 0 /\ t' \in {i \in DOMAIN Recs : i % 64 = shard} /\ shard' = shard
R == Recs[t]

AsSet(blocks) == {{blocks[i][j] : j \in DOMAIN blocks[i]} : i \in DOMAIN blocks}
(* a sequence-of-sequences value is a partition only if no cell is listed twice and no block is empty *)
WellFormed(blocks) ==
    /\ \A i \in DOMAIN blocks : blocks[i] # <<>>
    /\ \A c \in 0 .. R.h * R.w - 1 :
          Cardinality({<<i, j>> \in UNION {{<<i, j>> : j \in DOMAIN blocks[i]} : i \in DOMAIN blocks} : blocks[i][j] = c}) = 1
    /\ \A i \in DOMAIN blocks : \A j \in DOMAIN blocks[i] : blocks[i][j] \in 0 .. R.h * R.w - 1
ValidValue(blocks) == WellFormed(blocks) /\ ValidP(R.h, R.w, AsSet(blocks), R.bnd)

StepKind(before, after) ==
    LET B == AsSet(before)  A == AsSet(after)  gone == B \ A  new == A \ B IN
    IF Cardinality(gone) = 2 /\ Cardinality(new) = 1 /\ UNION gone = UNION new THEN "merge"
    ELSE IF Cardinality(gone) = 1 /\ Cardinality(new) = 2 /\ UNION gone = UNION new THEN "split"
    ELSE IF Cardinality(gone) = 2 /\ Cardinality(new) = 2 /\ UNION gone = UNION new
            /\ \E X \in gone, Y \in new : Cardinality(X \ Y) = 1 /\ Y \subseteq X THEN "move"
    ELSE "other"

UpdVerdict(u) ==
    IF ~u.before_unchanged THEN "seg:update-modified-the-value-it-was-applied-to"
    ELSE IF ~ValidValue(u.after) THEN "seg:update-yields-an-invalid-partition"
    ELSE "ok"

BadIdx == {i \in DOMAIN R.updates : UpdVerdict(R.updates[i]) # "ok"}
Report == t = 0 \/
    PrintT(ToJson([t |-> R.t,
                   start_valid |-> ValidValue(R.before),
                   nbad |-> Cardinality(BadIdx),
                   first_bad |-> IF BadIdx = {} THEN 0 ELSE CHOOSE i \in BadIdx : \A j \in BadIdx : i <= j,
                   verdict |-> IF BadIdx = {} THEN "ok" ELSE UpdVerdict(R.updates[CHOOSE i \in BadIdx : \A j \in BadIdx : i <= j]),
                   other_kind |-> Cardinality({i \in DOMAIN R.updates : StepKind(R.before, R.updates[i].after) = "other"})]))
=============================================================================
