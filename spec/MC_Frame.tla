------------------------------- MODULE MC_Frame -------------------------------
(* Every frame size up to MaxDim: design-level consistency of the geometry, and the
   expected result of every accessor for every coordinate inside and outside the frame. *)
EXTENDS GridFrame, Json, TLC, TLCExt, IOUtils, SequencesExt

MaxDim == atoi(IOEnv.MAXDIM)
VARIABLES h, w
Init == h \in 0 .. MaxDim /\ w \in 0 .. MaxDim
Next == UNCHANGED <<h, w>>

Consistent == LatticeConsistent(h, w) /\ CellDuality(h, w) /\ PointDuality(h, w)

SetSeq(S) == SetToSeq(S)
Rec ==
    [h |-> h, w |-> w,
     doubled |-> SetToSeq({[Y |-> Y, X |-> X, r |-> ByDoubled(h, w, Y, X)] :
                            Y \in -2 .. 2 * h + 2, X \in -2 .. 2 * w + 2}),
     cells   |-> SetToSeq({[y |-> y, x |-> x, err |-> ~CellOK(h, w, y, x),
                            segs |-> IF CellOK(h, w, y, x) THEN SetSeq(CellEdges(y, x)) ELSE <<>>] :
                            y \in -1 .. h, x \in -1 .. w}),
     points  |-> SetToSeq({[y |-> y, x |-> x, err |-> ~PointOK(h, w, y, x),
                            segs |-> IF PointOK(h, w, y, x) THEN SetSeq(PointEdges(h, w, y, x)) ELSE <<>>] :
                            y \in -1 .. h + 1, x \in -1 .. w + 1}),
     all_edges |-> AllEdgesSeq(h, w),
     lattice |-> LatticeSegs(h, w)]
Export == PrintT(ToJson(Rec))
=============================================================================
