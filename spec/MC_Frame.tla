------------------------------- MODULE MC_Frame -------------------------------
(* Every frame size up to MaxDim: design-level consistency of the geometry, and the
   expected result of every accessor for every coordinate inside and outside the frame. *)
EXTENDS GridFrame, Json, TLC, TLCExt, IOUtils, SequencesExt

MaxDim == atoi(IOEnv.MAXDIM)
VARIABLES h, w
(* scale-up frames (sides beyond 256): the same expectations, but only for coordinates near the corners *)
BigDims == {<<257, 1>>, <<1, 300>>, <<2, 258>>, <<260, 0>>}
Init == \E d \in ((0 .. MaxDim) \X (0 .. MaxDim)) \cup BigDims : h = d[1] /\ w = d[2]
Next == UNCHANGED <<h, w>>
Big == <<h, w>> \in BigDims
Near(n, lo, hi) == IF Big THEN {k \in (lo .. lo + 3) \cup (n - 2 .. hi) : k >= lo /\ k <= hi} ELSE lo .. hi

Consistent == Big \/ (LatticeConsistent(h, w) /\ CellDuality(h, w) /\ PointDuality(h, w))

SetSeq(S) == SetToSeq(S)
Rec ==
    [h |-> h, w |-> w,
     doubled |-> SetToSeq({[Y |-> Y, X |-> X, r |-> ByDoubled(h, w, Y, X)] :
                            Y \in Near(2 * h, -2, 2 * h + 2), X \in Near(2 * w, -2, 2 * w + 2)}),
     cells   |-> SetToSeq({[y |-> y, x |-> x, err |-> ~CellOK(h, w, y, x),
                            segs |-> IF CellOK(h, w, y, x) THEN SetSeq(CellEdges(y, x)) ELSE <<>>] :
                            y \in Near(h, -1, h), x \in Near(w, -1, w)}),
     points  |-> SetToSeq({[y |-> y, x |-> x, err |-> ~PointOK(h, w, y, x),
                            segs |-> IF PointOK(h, w, y, x) THEN SetSeq(PointEdges(h, w, y, x)) ELSE <<>>] :
                            y \in Near(h, -1, h + 1), x \in Near(w, -1, w + 1)}),
     all_edges |-> AllEdgesSeq(h, w),
     lattice |-> LatticeSegs(h, w)]
Export == PrintT(ToJson(Rec))
=============================================================================
