--------------------------------- MODULE Prng ---------------------------------
(***************************************************************************)
(* The deterministic PRNG's derived operations over an abstract raw source *)
(* of D equally likely values 0..D-1 (C19): rejection-sampling randint,    *)
(* choice, Fisher-Yates shuffle, random.                                   *)
(***************************************************************************)
EXTENDS Integers, Sequences, FiniteSets, TLC

(* randint(a, b) from a sequence of raw draws: skip draws >= limit, return a + x mod w.      *)
(* Result: [ok, val, used] - ok is FALSE when the draws run out before one is accepted.       *)
Limit(D, w) == D - (D % w)
RECURSIVE RandInt(_, _, _, _, _)
RandInt(D, a, b, raws, k) ==
    LET w == b - a + 1 IN
    IF k > Len(raws) THEN [ok |-> FALSE, val |-> 0, used |-> Len(raws)]
    ELSE IF raws[k] < Limit(D, w) THEN [ok |-> TRUE, val |-> a + (raws[k] % w), used |-> k]
    ELSE RandInt(D, a, b, raws, k + 1)

(* uniformity: every value of [a, b] has the same number of accepted raw values, nothing else comes out *)
Uniform(D, a, b) ==
    LET w == b - a + 1
        out(x) == RandInt(D, a, b, <<x>>, 1)
        accepted == {x \in 0 .. D - 1 : out(x).ok}
    IN  /\ accepted # {}
        /\ \A x \in accepted : out(x).val \in a .. b
        /\ \A v \in a .. b : Cardinality({x \in accepted : out(x).val = v}) = Cardinality(accepted) \div w
        /\ Cardinality(accepted) % w = 0
AllUniform(maxD) == \A D \in 1 .. maxD : \A w \in 1 .. D : \A a \in {-3, 0, 5} : Uniform(D, a, a + w - 1)

(* shuffle: for i = 1 .. n-1: j = randint(0, i); swap positions i and j.  js[i] is the index drawn at step i. *)
RECURSIVE Shuffle(_, _, _)
Swap(s, i, j) == [s EXCEPT ![i] = s[j], ![j] = s[i]]          \* 1-based positions
Shuffle(s, js, i) == IF i > Len(js) THEN s ELSE Shuffle(Swap(s, i + 1, js[i] + 1), js, i + 1)
IndexChoices(n) == {js \in [1 .. n - 1 -> 0 .. n - 1] : \A i \in 1 .. n - 1 : js[i] <= i}
(* a bijection between index-choice sequences and permutations: uniform when the indices are *)
ShuffleBijective(n) ==
    LET id == [i \in 1 .. n |-> i]
        perms == {Shuffle(id, js, 1) : js \in IndexChoices(n)}
    IN  Cardinality(perms) = Cardinality(IndexChoices(n))
        /\ \A p \in perms : {p[i] : i \in 1 .. n} = 1 .. n

(* choice(cand) = cand[randint(0, n-1)] *)
Choice(D, cand, raws) == LET r == RandInt(D, 0, Len(cand) - 1, raws, 1) IN
                         [ok |-> r.ok, val |-> IF r.ok THEN cand[r.val + 1] ELSE cand[1], used |-> r.used]
=============================================================================
