CONSTANTS
  VarTemplates = {}
  MaxDecl = 1000
  MaxEnsure = 100000
  MaxSolves = 100000
  Pool <- NoPool
INIT TraceInit
NEXT TraceNext
INVARIANT Report
INVARIANT TraceTypeOK
CHECK_DEADLOCK FALSE
