CONSTANTS
  Kinds <- K4
  IntDom <- D3
INIT Init4
NEXT Next
INVARIANT Exact
INVARIANT DemotionSound
INVARIANT Progress
INVARIANT Export
CHECK_DEADLOCK FALSE
