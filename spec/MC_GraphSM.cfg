CONSTANT NV <- MCNV
CONSTANT MaxE <- MCMaxE
SPECIFICATION Spec
INVARIANT TypeOK
INVARIANT IncSound
INVARIANT IncComplete
INVARIANT IncOrdered
INVARIANT DegreeSum
INVARIANT Report
PROPERTY AppendOnly
