SPECIFICATION MCSpec
INVARIANT StepSound
INVARIANT ReasonsKnown
INVARIANT Progress
INVARIANT Partition
INVARIANT ExplMinimal
INVARIANT Complete
INVARIANT NoneIffUnsat
INVARIANT Report
PROPERTY Terminates
