------------------------------- MODULE Trace_Gen -------------------------------
(***************************************************************************)
(* Trace validation of generate_problem runs (C19).  One record per run:   *)
(* the pattern descriptor, the initial problem, every callback the real    *)
(* loop made (with a deep snapshot of its argument, its result) and what   *)
(* generate_problem returned.  The accept / reject decisions of the        *)
(* annealing step are NOT logged: after a satisfiable, non-unique          *)
(* candidate the specification may or may not make it current, and TLC     *)
(* explores both (a trace is accepted when some such choice explains every *)
(* event).  Judged, as C19 states: every candidate tried is a neighbour of *)
(* the current problem; the returned problem is the argument of a solver   *)
(* call reported satisfiable and accepted by the uniqueness test, nothing  *)
(* is returned before that, None only if no such call happened; nothing    *)
(* handed out earlier was mutated.                                         *)
(***************************************************************************)
EXTENDS Generator, Json, IOUtils, TLCExt

Runs == ndJsonDeserialize(IOEnv.TRACE_FILE)

VARIABLES t,      \* which run
          k,      \* events consumed
          cur,    \* the specification's current problem
          pend,   \* candidate awaiting its verdict: <<>> or <<p>> after a satisfiable solver call
          uniq,   \* has the uniqueness test accepted the pending candidate?
          scored, \* has the pending candidate been scored?  (only then may it become current)
          why     \* "" or the reason the last event cannot be explained
vars == <<t, k, cur, pend, uniq, scored, why>>

R == Runs[t]
Ev == R.events[k + 1]
Pat == R.pattern

Init == /\ t \in DOMAIN Runs /\ k = 0 /\ cur = R.initial /\ pend = <<>> /\ uniq = FALSE /\ scored = FALSE /\ why = ""

(* the current problem may silently become the pending candidate once it has been scored (accept), or not (reject) *)
Currents == IF pend # <<>> /\ scored /\ ~uniq THEN {cur, pend[1]} ELSE {cur}

Stay(c) == cur' = c /\ pend' = <<>> /\ uniq' = FALSE /\ scored' = FALSE

Explain ==
    \/ /\ Ev.ev = "pretest"
       /\ \E c \in Currents : Neighbour(Pat, c, Ev.p) /\ Stay(c)
    \/ /\ Ev.ev = "solver"
       /\ \E c \in Currents : /\ Neighbour(Pat, c, Ev.p)
                              /\ cur' = c /\ uniq' = FALSE /\ scored' = FALSE
                              /\ pend' = IF Ev.sat THEN <<Ev.p>> ELSE <<>>
    \/ /\ Ev.ev = "unique" /\ pend # <<>> /\ ~scored
       /\ uniq' = Ev.ret /\ UNCHANGED <<cur, pend, scored>>
    \/ /\ Ev.ev \in {"score", "penalty"} /\ pend # <<>> /\ ~uniq
       /\ scored' = TRUE /\ UNCHANGED <<cur, pend, uniq>>
    \/ /\ Ev.ev = "return" /\ Ev.some /\ Ev.intact
       /\ pend # <<>> /\ uniq /\ Ev.p = pend[1]            \* exactly the satisfiable, unique candidate
       /\ UNCHANGED <<cur, pend, uniq, scored>>
    \/ /\ Ev.ev = "return" /\ ~Ev.some /\ Ev.intact
       /\ ~(pend # <<>> /\ uniq)                            \* None only when nothing qualified
       /\ UNCHANGED <<cur, pend, uniq, scored>>
    \/ /\ Ev.ev = "solver_initial" /\ k = 0 /\ Ev.p = R.initial    \* solve_initial_problem=True
       /\ UNCHANGED <<cur, pend, uniq, scored>>
    \/ /\ Ev.ev \in {"score_initial", "penalty_initial"} /\ k \in 1 .. 2
       /\ UNCHANGED <<cur, pend, uniq, scored>>

Reason ==
    CASE Ev.ev \in {"pretest", "solver"} -> "gen:candidate-is-not-a-neighbour-of-the-current-problem"
      [] Ev.ev = "unique" -> "gen:uniqueness-test-called-without-a-satisfiable-candidate"
      [] Ev.ev \in {"score", "penalty"} -> "gen:score-computed-without-a-satisfiable-non-unique-candidate"
      [] Ev.ev = "return" -> IF ~Ev.intact THEN "gen:a-problem-handed-out-earlier-was-mutated"
                             ELSE IF Ev.some THEN "gen:returned-a-problem-that-was-not-reported-satisfiable-and-unique"
                             ELSE "gen:returned-None-although-a-candidate-was-satisfiable-and-unique"
      [] OTHER -> "machinery:unknown-event"

(* the guards of Explain, as a state predicate *)
CanExplain ==
    \/ (Ev.ev \in {"pretest", "solver"} /\ \E c \in Currents : Neighbour(Pat, c, Ev.p))
    \/ (Ev.ev = "unique" /\ pend # <<>> /\ ~scored)
    \/ (Ev.ev \in {"score", "penalty"} /\ pend # <<>> /\ ~uniq)
    \/ (Ev.ev = "return" /\ Ev.some /\ Ev.intact /\ pend # <<>> /\ uniq /\ Ev.p = pend[1])
    \/ (Ev.ev = "return" /\ ~Ev.some /\ Ev.intact /\ ~(pend # <<>> /\ uniq))
    \/ (Ev.ev = "solver_initial" /\ k = 0 /\ Ev.p = R.initial)
    \/ (Ev.ev \in {"score_initial", "penalty_initial"} /\ k \in 1 .. 2)

Next == /\ why = "" /\ k < Len(R.events) /\ t' = t
        /\ IF CanExplain THEN (Explain /\ k' = k + 1 /\ why' = "")
           ELSE (why' = Reason /\ UNCHANGED <<k, cur, pend, uniq, scored>>)

(* one line per maximal prefix; the harness keeps, per run, the furthest one *)
Report == (why # "" \/ k = Len(R.events)) =>
              PrintT(ToJson([t |-> R.t, k |-> k, n |-> Len(R.events), why |-> why]))
=============================================================================
