------------------------------ MODULE SolverSM ------------------------------
(***************************************************************************)
(* The Solver session as a state machine (cspuz/solver.py).                *)
(*                                                                         *)
(* State S1 of DESIGN.md: the growing lists `variables`, `constraints`,    *)
(* `is_answer_key`, and the `sol` slot of every variable.  One action per  *)
(* public call (bool_var / int_var, bool_array / int_array, ensure,        *)
(* add_answer_key, find_answer, solve). What find_answer / solve must establish is written once,  *)
(* as the predicates FindVerdict / SolveVerdict, and used both by the      *)
(* abstract actions below (model checking, scenario generation) and by the *)
(* trace specification (Trace_Session.tla) that judges the real code.      *)
(***************************************************************************)
EXTENDS CspSem, DriverAST

CONSTANTS VarTemplates,     \* set of [kind, lo, hi]
          MaxDecl, MaxEnsure, MaxSolves,
          Pool(_)           \* driver expressions that may be posted, given the declarations

VARIABLES decl,   \* Seq([kind, lo, hi])
          cons,   \* Seq(tree): meaning of every posted constraint
          keys,   \* set of 1-based variable indices registered as answer keys
          sol,    \* Seq([ty, b, n]): the sol slot of every variable
          last,   \* [op |-> "none"|"find"|"solve", ret, keys]: result of the last solve call
                  \* (keys: the answer keys at the time of a solve)
          hist    \* the calls made so far (scenario for the replayer)

vars == <<decl, cons, keys, sol, last, hist>>

-----------------------------------------------------------------------------
(* sol slots: homogeneously typed records, as in the trace format *)
NoneSlot     == [ty |-> "none", b |-> FALSE, n |-> 0]
Slot(kind, v) == IF kind = "bool" THEN [ty |-> "bool", b |-> v, n |-> 0]
                                  ELSE [ty |-> "int", b |-> FALSE, n |-> v]
WrapModel(d, m) == [k \in DOMAIN d |-> Slot(d[k].kind, m[k])]
AllNone(d)      == [k \in DOMAIN d |-> NoneSlot]
SlotVal(kind, s) == IF kind = "bool" THEN s.b ELSE s.n
SolAsg(d, s)    == [k \in DOMAIN d |-> SlotVal(d[k].kind, s[k])]
SolTyped(d, s)  == Len(s) = Len(d) /\ \A k \in DOMAIN d : s[k].ty = d[k].kind
InDomain(d, s)  == \A k \in DOMAIN d : d[k].kind = "int" => (s[k].n >= d[k].lo /\ s[k].n <= d[k].hi)

Prog(d, c) == [vars |-> d, cons |-> c]

-----------------------------------------------------------------------------
(* What C01 requires of find_answer: the verdict is "ok" or names the clause. *)
(* A returned TRUE is checked through its witness (linear); only a returned   *)
(* FALSE needs the search.  sol after FALSE is unconstrained.                 *)
FindVerdict(p, r, s) ==
    IF r THEN
        IF ~SolTyped(p.vars, s) THEN "find:sol-has-wrong-type"
        ELSE IF ~InDomain(p.vars, s) THEN "find:sol-outside-declared-bounds"
        ELSE IF \E i \in DOMAIN p.cons : ~Eval(p.cons[i], SolAsg(p.vars, s))
             THEN (IF Sat(p) THEN "find:sol-is-not-a-model" ELSE "find:true-but-unsatisfiable")
        ELSE "ok"
    ELSE IF Sat(p) THEN "find:false-but-satisfiable" ELSE "ok"

(* What C02 requires of solve: ret iff satisfiable; for each answer key, sol is *)
(* the common value if all models agree and None if two models disagree.        *)
SolveVerdict(p, ks, r, s) ==
    LET M == Models(p) IN
    IF r # (M # {}) THEN (IF r THEN "solve:true-but-unsatisfiable" ELSE "solve:false-but-satisfiable")
    ELSE IF ~r THEN "ok"
    ELSE IF Len(s) # Len(p.vars) THEN "solve:sol-length"
    ELSE IF \E k \in ks : FactOf(M, k) = {} /\ s[k].ty # "none"
         THEN "solve:reports-a-fact-that-is-not-common-to-all-solutions"
    ELSE IF \E k \in ks : FactOf(M, k) # {} /\ s[k].ty = "none"
         THEN "solve:misses-a-fact-common-to-all-solutions"
    ELSE IF \E k \in ks : FactOf(M, k) # {} /\
                (s[k].ty # p.vars[k].kind \/ {SlotVal(p.vars[k].kind, s[k])} # FactOf(M, k))
         THEN "solve:wrong-value-or-type-for-a-decided-key"
    ELSE "ok"

-----------------------------------------------------------------------------
(* The same requirements decided *by witness* for programs whose solution set is too   *)
(* large to enumerate: the driver supplies assignments ws (1/0 for booleans) that it   *)
(* claims are solutions; the claim itself is checked first (linear).  A FALSE answer   *)
(* is then wrong, a reported fact must agree with every supplied solution, and a TRUE  *)
(* answer of find_answer is checked through its own sol exactly as above.              *)
WAsg(d, w)    == [k \in DOMAIN d |-> IF d[k].kind = "bool" THEN w[k] = 1 ELSE w[k]]
WitnessesOK(p, ws) == \A j \in DOMAIN ws : Len(ws[j]) = Len(p.vars) /\ IsModel(p, WAsg(p.vars, ws[j]))

FindVerdictW(p, r, s, ws) ==
    IF ~WitnessesOK(p, ws) THEN "machinery:supplied-witness-is-not-a-solution"
    ELSE IF ~r THEN "find:false-but-satisfiable"
    ELSE IF ~SolTyped(p.vars, s) THEN "find:sol-has-wrong-type"
    ELSE IF ~InDomain(p.vars, s) THEN "find:sol-outside-declared-bounds"
    ELSE IF \E i \in DOMAIN p.cons : ~Eval(p.cons[i], SolAsg(p.vars, s)) THEN "find:sol-is-not-a-model"
    ELSE "ok"

SolveVerdictW(p, ks, r, s, ws) ==
    IF ~WitnessesOK(p, ws) THEN "machinery:supplied-witness-is-not-a-solution"
    ELSE IF ~r THEN "solve:false-but-satisfiable"
    ELSE IF Len(s) # Len(p.vars) THEN "solve:sol-length"
    ELSE IF \E k \in ks : s[k].ty # "none" /\
              (s[k].ty # p.vars[k].kind \/
               \E j \in DOMAIN ws : SlotVal(p.vars[k].kind, s[k]) # WAsg(p.vars, ws[j])[k])
         THEN "solve:reports-a-fact-that-is-not-common-to-all-solutions"
    ELSE "ok"

-----------------------------------------------------------------------------
Init == /\ decl = <<>> /\ cons = <<>> /\ keys = {} /\ sol = <<>>
        /\ last = [op |-> "none", ret |-> FALSE, keys |-> {}] /\ hist = <<>>

Declare(v) ==
    /\ Len(decl) < MaxDecl
    /\ decl' = Append(decl, v) /\ sol' = Append(sol, NoneSlot)
    /\ hist' = Append(hist, IF v.kind = "bool" THEN [a |-> "bool_var"]
                                                ELSE [a |-> "int_var", lo |-> v.lo, hi |-> v.hi])
    /\ UNCHANGED <<cons, keys, last>>

(* bool_array(shape) / int_array(shape, lo, hi): one call declares all cells, numbered consecutively in *)
(* row-major order; shape is <<n>> or <<h, w>> (zero-sized arrays are legal and declare nothing)       *)
Cells(shape) == IF Len(shape) = 1 THEN shape[1] ELSE shape[1] * shape[2]
DeclareArray(v, shape) ==
    /\ Len(decl) + Cells(shape) <= MaxDecl
    /\ decl' = decl \o [i \in 1 .. Cells(shape) |-> v]
    /\ sol' = sol \o [i \in 1 .. Cells(shape) |-> NoneSlot]
    /\ hist' = Append(hist, IF v.kind = "bool" THEN [a |-> "bool_array", shape |-> shape]
                                                ELSE [a |-> "int_array", shape |-> shape, lo |-> v.lo, hi |-> v.hi])
    /\ UNCHANGED <<cons, keys, last>>

Ensure(x) ==
    /\ Len(cons) < MaxEnsure
    /\ LET posted == Posted(x) IN
       /\ \A i \in DOMAIN posted : Type(posted[i], decl) = "bool"
       /\ cons' = cons \o posted
    /\ hist' = Append(hist, [a |-> "ensure", x |-> x])
    /\ UNCHANGED <<decl, keys, sol, last>>

AddKey(k) ==
    /\ k \in DOMAIN decl /\ k \notin keys
    /\ keys' = keys \cup {k}
    /\ hist' = Append(hist, [a |-> "add_key", id |-> k - 1])
    /\ UNCHANGED <<decl, cons, sol, last>>

NSolves == Len(SelectSeq(hist, LAMBDA h : h.a \in {"find_answer", "solve"}))

(* find_answer returning r and leaving s in the sol slots: the state update only.  *)
(* Whether (r, s) is a *correct* outcome is FindVerdict / SolveVerdict: the        *)
(* abstract calls below construct correct outcomes (invariant ResultsAreCorrect     *)
(* re-checks them against the verdict predicates), the trace specification judges   *)
(* observed outcomes with the same predicates before taking the step.               *)
FindAnswerWith(r, s) ==
    /\ NSolves < MaxSolves
    /\ last' = [op |-> "find", ret |-> r, keys |-> {}] /\ sol' = s
    /\ hist' = Append(hist, [a |-> "find_answer"])
    /\ UNCHANGED <<decl, cons, keys>>

SolveWith(r, s) ==
    /\ NSolves < MaxSolves
    /\ last' = [op |-> "solve", ret |-> r, keys |-> keys] /\ sol' = s
    /\ hist' = Append(hist, [a |-> "solve"])
    /\ UNCHANGED <<decl, cons, keys>>

(* the abstract calls: every outcome a correct implementation may produce     *)
(* (after an unsatisfiable call z3 keeps the old slots, the Sugar family      *)
(* resets them; the properties leave this open)                               *)
FindAnswer ==
    LET M == Models(Prog(decl, cons)) IN
    IF M # {} THEN \E m \in M : FindAnswerWith(TRUE, WrapModel(decl, m))
              ELSE \E s \in {sol, AllNone(decl)} : FindAnswerWith(FALSE, s)

Solve ==
    LET M == Models(Prog(decl, cons)) IN
    IF M # {}
    THEN \E m \in M : \E nk \in BOOLEAN :     \* non-key slots: the last model's value, or None
           SolveWith(TRUE, [k \in DOMAIN decl |->
                             IF k \in keys
                             THEN (IF FactOf(M, k) = {} THEN NoneSlot
                                   ELSE Slot(decl[k].kind, CHOOSE v \in FactOf(M, k) : TRUE))
                             ELSE IF nk THEN NoneSlot ELSE Slot(decl[k].kind, m[k])])
    ELSE \E s \in {sol, AllNone(decl)} : SolveWith(FALSE, s)

ArrayShapes == {<<n>> : n \in 0 .. 3} \cup {<<h, w>> : h \in 0 .. 2, w \in 1 .. 2}
Next == \/ \E v \in VarTemplates : Declare(v)
        \/ \E v \in VarTemplates : \E sh \in ArrayShapes : DeclareArray(v, sh)
        \/ \E x \in Pool(decl) : Ensure(x)
        \/ \E k \in DOMAIN decl : AddKey(k)
        \/ FindAnswer
        \/ Solve

Spec == Init /\ [][Next]_vars

-----------------------------------------------------------------------------
(* Design-level properties checked by TLC on bounded instances. *)

TypeOK == /\ Len(sol) = Len(decl)
          /\ keys \subseteq DOMAIN decl
          /\ \A k \in DOMAIN sol : sol[k].ty \in {"none", decl[k].kind}

(* the abstract actions establish exactly the verdict predicates *)
JustSolved == hist # <<>> /\ hist[Len(hist)].a \in {"find_answer", "solve"}
ResultsAreCorrect ==
    JustSolved =>
      /\ last.op = "find"  => FindVerdict(Prog(decl, cons), last.ret, sol) = "ok"
      /\ last.op = "solve" => SolveVerdict(Prog(decl, cons), keys, last.ret, sol) = "ok"
(* a solve() that succeeds leaves, in every key it decides, a value that find_answer *)
(* could also have produced there: the two calls agree on satisfiability             *)
SolveAgreesWithFind ==
    JustSolved /\ last.op = "solve" =>
        last.ret = Sat(Prog(decl, cons))

(* constraints are only ever added: once unsatisfiable, always unsatisfiable, *)
(* whatever is declared or posted in between                                  *)
Monotone == [][(last.op # "none" /\ ~last.ret) => ~last'.ret]_vars

(* a decided key stays decided with the same value when constraints are added *)
FactsPersist ==
    [][\A k \in last.keys :
         (last.op = "solve" /\ last.ret /\ last'.op = "solve" /\ last'.ret /\ sol[k].ty # "none")
            => sol'[k] = sol[k]]_vars

=============================================================================
