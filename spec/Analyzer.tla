------------------------------ MODULE Analyzer ------------------------------
(***************************************************************************)
(* cspuz/analyzer.py: Analyzer.analyze() explains, step by step, how the   *)
(* facts common to all solutions follow from the axioms, the *named*       *)
(* optional constraint groups and facts learnt in earlier steps.           *)
(*                                                                         *)
(* This module is beyond the listed properties (extended coverage X01).    *)
(* It specifies the procedure as a state machine                           *)
(*     Start -> Step* -> Finish          (or Start -> "none" when UNSAT)   *)
(* at the grain of the code: one Step is one iteration of the while loop   *)
(* (greedy minimisation of an explanation for every unlearnt fact, choice  *)
(* of the lexicographically smallest candidate, re-deduction), and states  *)
(* what a user relies on as invariants: every reported fact really follows *)
(* from the reasons given for it (StepSound), reasons only name facts      *)
(* reported earlier (ReasonsKnown), every step learns something            *)
(* (Progress), nothing is learnt twice or lost (Partition), the chosen     *)
(* explanation is minimal for some fact of the step (ExplMinimal), and the *)
(* procedure terminates having explained every fact (Terminates,           *)
(* Complete).                                                              *)
(*                                                                         *)
(* A program is  [vars, dax, dgroups, keys]:                               *)
(*   vars    Seq([kind, lo, hi])                                           *)
(*   dax     Seq(driver expression)   posted without a name (axioms)       *)
(*   dgroups Seq(driver expression)   each posted with its own name; a     *)
(*                                    "list" form posts several constraints*)
(*   keys    Seq(1-based variable positions, ascending) answer keys        *)
(***************************************************************************)
EXTENDS CspSem, DriverAST

RECURSIVE FlatCat(_)
FlatCat(ss) == IF ss = <<>> THEN <<>> ELSE Head(ss) \o FlatCat(Tail(ss))

Axioms(A)    == FlatCat([i \in DOMAIN A.dax |-> Posted(A.dax[i])])
Group(A, j)  == Posted(A.dgroups[j])
NG(A)        == Len(A.dgroups)

(* facts: homogeneously typed records *)
Fact(k, kind, v) == IF kind = "bool" THEN [var |-> k, ty |-> "bool", b |-> v, n |-> 0]
                                     ELSE [var |-> k, ty |-> "int", b |-> FALSE, n |-> v]
FVal(f)   == IF f.ty = "bool" THEN f.b ELSE f.n
FactCon(f) == IF f.ty = "bool"
              THEN [op |-> "IFF", args |-> <<[op |-> "VAR", id |-> f.var - 1], [op |-> "BOOL", val |-> f.b]>>]
              ELSE [op |-> "EQ",  args |-> <<[op |-> "VAR", id |-> f.var - 1], [op |-> "INT", val |-> f.n]>>]

RECURSIVE SeqOfSet(_)
(* ascending sequence of a finite set of naturals *)
SeqOfSet(S) == IF S = {} THEN <<>>
               ELSE LET x == CHOOSE y \in S : \A z \in S : y <= z IN <<x>> \o SeqOfSet(S \ {x})

(* the sub-program: axioms + the groups in C + the facts F (a sequence of facts) *)
SubProg(A, C, F) ==
    LET cs == SeqOfSet(C) IN
    [vars |-> A.vars,
     cons |-> Axioms(A) \o FlatCat([i \in DOMAIN cs |-> Group(A, cs[i])]) \o [i \in DOMAIN F |-> FactCon(F[i])]]
FullProg(A) == SubProg(A, 1 .. NG(A), <<>>)

Entails(A, C, F, f) == \A m \in Models(SubProg(A, C, F)) : m[f.var] = FVal(f)

(* the facts of the full program, in variable order (the code scans the variables) *)
AllFacts(A) ==
    LET M == Models(FullProg(A))
        ks == SelectSeq(A.keys, LAMBDA k : FactOf(M, k) # {})
    IN  [i \in DOMAIN ks |-> Fact(ks[i], A.vars[ks[i]].kind, CHOOSE v \in FactOf(M, ks[i]) : TRUE)]

Pick(s, idx) == [i \in DOMAIN idx |-> s[idx[i]]]     \* the facts of s at the positions idx

-----------------------------------------------------------------------------
(* _test_unlearnt_fact: start from everything, drop each named group, then  *)
(* each learnt fact, whenever the target still follows without it           *)
RECURSIVE DropGroups(_, _, _, _, _)
DropGroups(A, learnt, f, C, j) ==
    IF j > NG(A) THEN C
    ELSE IF Entails(A, C \ {j}, learnt, f) THEN DropGroups(A, learnt, f, C \ {j}, j + 1)
         ELSE DropGroups(A, learnt, f, C, j + 1)

RECURSIVE DropFacts(_, _, _, _, _, _)
DropFacts(A, learnt, f, C, FI, j) ==
    IF j > Len(learnt) THEN FI
    ELSE IF Entails(A, C, Pick(learnt, SeqOfSet(FI \ {j})), f)
         THEN DropFacts(A, learnt, f, C, FI \ {j}, j + 1)
         ELSE DropFacts(A, learnt, f, C, FI, j + 1)

Cand(A, learnt, f) ==
    LET C  == DropGroups(A, learnt, f, 1 .. NG(A), 1)
        FI == DropFacts(A, learnt, f, C, 1 .. Len(learnt), 1)
    IN  [score |-> Cardinality(C) + Cardinality(FI), cs |-> SeqOfSet(C), fs |-> SeqOfSet(FI)]

(* Python's ordering of (score, [ids], [ids]) tuples *)
RECURSIVE LexLess(_, _)
LexLess(s, t) == IF s = <<>> THEN t # <<>>
                 ELSE IF t = <<>> THEN FALSE
                 ELSE IF Head(s) # Head(t) THEN Head(s) < Head(t)
                 ELSE LexLess(Tail(s), Tail(t))
CandLess(x, y) == \/ x.score < y.score
                  \/ x.score = y.score /\ LexLess(x.cs, y.cs)
                  \/ x.score = y.score /\ x.cs = y.cs /\ LexLess(x.fs, y.fs)

Best(A, learnt, unlearnt) ==
    LET cands == {Cand(A, learnt, unlearnt[i]) : i \in DOMAIN unlearnt}
    IN  CHOOSE c \in cands : \A d \in cands : c = d \/ CandLess(c, d)

-----------------------------------------------------------------------------
VARIABLES A,         \* the analysed program (chosen once)
          phase,     \* "start" | "loop" | "none" | "done"
          learnt,    \* Seq(fact), in the order learnt
          unlearnt,  \* Seq(fact), in variable order
          steps      \* Seq([new: Seq(fact), cs: Seq(group index), fs: Seq(index into learnt-at-that-time)])

avars == <<A, phase, learnt, unlearnt, steps>>

AInit(Programs) == A \in Programs /\ phase = "start" /\ learnt = <<>> /\ unlearnt = <<>> /\ steps = <<>>

Start ==
    /\ phase = "start"
    /\ IF Models(FullProg(A)) = {} THEN phase' = "none" /\ UNCHANGED unlearnt
       ELSE phase' = "loop" /\ unlearnt' = AllFacts(A)
    /\ UNCHANGED <<A, learnt, steps>>

Step ==
    /\ phase = "loop" /\ unlearnt # <<>>
    /\ LET best == Best(A, learnt, unlearnt)
           F    == Pick(learnt, best.fs)
           C    == {best.cs[i] : i \in DOMAIN best.cs}
           new  == SelectSeq(unlearnt, LAMBDA f : Entails(A, C, F, f))
       IN  /\ steps' = Append(steps, [new |-> new, cs |-> best.cs, fs |-> best.fs, nlearnt |-> Len(learnt)])
           /\ learnt' = learnt \o new
           /\ unlearnt' = SelectSeq(unlearnt, LAMBDA f : ~Entails(A, C, F, f))
    /\ UNCHANGED <<A, phase>>

Finish == phase = "loop" /\ unlearnt = <<>> /\ phase' = "done" /\ UNCHANGED <<A, learnt, unlearnt, steps>>

ANext == Start \/ Step \/ Finish
Terminal == phase \in {"none", "done"}

-----------------------------------------------------------------------------
(* what a user of analyze() relies on *)

RECURSIVE LearntBefore(_, _)
LearntBefore(ss, i) == IF i = 1 THEN <<>> ELSE LearntBefore(ss, i - 1) \o ss[i - 1].new

StepSound ==
    \A i \in DOMAIN steps :
        LET s == steps[i]  before == LearntBefore(steps, i) IN
        \A j \in DOMAIN s.new :
            Entails(A, {s.cs[k] : k \in DOMAIN s.cs}, Pick(before, s.fs), s.new[j])
ReasonsKnown ==
    \A i \in DOMAIN steps : \A k \in DOMAIN steps[i].fs : steps[i].fs[k] \in 1 .. Len(LearntBefore(steps, i))
Progress  == \A i \in DOMAIN steps : steps[i].new # <<>>
Partition ==
    phase \in {"loop", "done"} =>
        LET L == {learnt[i] : i \in DOMAIN learnt}  U == {unlearnt[i] : i \in DOMAIN unlearnt}
            All == {AllFacts(A)[i] : i \in DOMAIN AllFacts(A)} IN
        L \cup U = All /\ L \cap U = {} /\ Cardinality(L) = Len(learnt)
ExplMinimal ==
    \A i \in DOMAIN steps :
        LET s == steps[i]  before == LearntBefore(steps, i)
            C == {s.cs[k] : k \in DOMAIN s.cs}  FI == {s.fs[k] : k \in DOMAIN s.fs} IN
        \E j \in DOMAIN s.new :
            /\ \A c \in C : ~Entails(A, C \ {c}, Pick(before, s.fs), s.new[j])
            /\ \A x \in FI : ~Entails(A, C, Pick(before, SeqOfSet(FI \ {x})), s.new[j])
Complete  == phase = "done" => unlearnt = <<>> /\ Len(learnt) = Len(AllFacts(A))
NoneIffUnsat == phase = "none" <=> (phase # "start" /\ Models(FullProg(A)) = {})

Terminates == <>Terminal
=============================================================================
