CONSTANT NV = 10
CONSTANT MaxE = 1000
SPECIFICATION TraceSpec
INVARIANT IncSound
INVARIANT IncComplete
INVARIANT IncOrdered
INVARIANT DegreeSum
INVARIANT Progress
CHECK_DEADLOCK FALSE
