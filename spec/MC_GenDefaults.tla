--------------------------- MODULE MC_GenDefaults ---------------------------
(* every argument tuple of <= 2 answer terms of depth <= 2 with <= 3 items per container; every problem of depth <= 2 *)
EXTENDS GenDefaults, Json, TLC

Flags(n) == UNION {[1 .. k -> BOOLEAN] : k \in 0 .. n}
T0 == {[t |-> "var", d |-> b] : b \in BOOLEAN} \cup {[t |-> "arr", items |-> f] : f \in Flags(3)} \cup {[t |-> "other"]}
T0x == {[t |-> "var", d |-> TRUE], [t |-> "var", d |-> FALSE], [t |-> "arr", items |-> <<TRUE, FALSE>>],
        [t |-> "arr", items |-> <<TRUE>>], [t |-> "other"]}
L1 == {[t |-> "list", items |-> s] : s \in UNION {[1 .. k -> T0x] : k \in 0 .. 2}}
L2 == {[t |-> "list", items |-> s] : s \in UNION {[1 .. k -> (T0x \cup {x \in L1 : Len(x.items) <= 1})] : k \in 1 .. 2}}
Terms == T0 \cup L1 \cup L2
ArgTuples == {<<x>> : x \in Terms} \cup {<<x, y>> : x \in T0x \cup L1, y \in T0x} \cup {<<>>}

Leaf == {[t |-> "leaf", v |-> v] : v \in {0, 1, -1, 300}}
P1 == {[t |-> "seq", tuple |-> tp, items |-> s] : tp \in BOOLEAN, s \in UNION {[1 .. k -> Leaf] : k \in 0 .. 2}}
P2 == {[t |-> "seq", tuple |-> tp, items |-> s] : tp \in BOOLEAN, s \in UNION {[1 .. k -> (Leaf \cup {p \in P1 : Len(p.items) = 1})] : k \in 1 .. 2}}
Problems == Leaf \cup P1 \cup P2

VARIABLES kind, x
Init == \/ kind = "args" /\ x \in ArgTuples
        \/ kind = "problem" /\ x \in Problems
Next == UNCHANGED <<kind, x>>

CoherentInv == kind = "args" => Coherent(x)
Report ==
    IF kind = "args"
    THEN PrintT(ToJson([kind |-> "args", args |-> x, score |-> ScoreArgs(x), unique |-> UniqueArgs(x)]))
    ELSE PrintT(ToJson([kind |-> "problem", problem |-> x,
                        counts |-> [d \in {0, 1, 300} |-> [w \in {1, 5} |-> CountNonDefault(x, d, w)]]]))
=============================================================================
