------------------------------ MODULE Trace_Array ------------------------------
(***************************************************************************)
(* Judges what the real array layer produced for each case of MC_Array.    *)
(* A record: the case, the kinds of the declared variables, the outcome    *)
(* ("raised" / "notimplemented" / "value"), the result shape and the       *)
(* exported tree of every element.  Required (C12): rejection exactly      *)
(* where ArrayOps says Reject; otherwise same shape, well-typed elements,  *)
(* and every element equal in value to its specified meaning under EVERY   *)
(* assignment of the variables it mentions.                                *)
(***************************************************************************)
EXTENDS ArrayOps, CspSem, Json, IOUtils, TLCExt

Recs == ndJsonDeserialize(IOEnv.TRACE_FILE)
VARIABLES shard, t
Init == shard \in 0 .. 63 /\ t = 0
Next == t = 0 /\ t' \in {i \in DOMAIN Recs : i % 64 = shard} /\ shard' = shard

R == Recs[t]
C == R.case
Vars == [k \in DOMAIN R.vars |-> [kind |-> R.vars[k], lo |-> -1, hi |-> 1]]

Expected ==
    CASE C.form = "bin" -> Binary(C.op, C.ops[1], C.ops[2])
      [] C.form = "un" -> Unary(C.op, C.ops[1])
      [] C.form \in {"then", "thenf"} -> Binary("then", C.ops[1], C.ops[2])
      [] C.form \in {"cond", "condf"} -> Cond(C.ops[1], C.ops[2], C.ops[3])
      [] C.form \in {"helper", "method"} -> Helper(C.op, C.args)
      [] C.form = "conv2d" -> Conv2d(C.ops[1], C.kh, C.kw, C.op)

RECURSIVE VarsOf(_)
VarsOf(e) == IF e.op = "VAR" THEN {e.id}
             ELSE IF e.op \in {"INT", "BOOL", "HOLE"} THEN {}
             ELSE UNION {VarsOf(e.args[i]) : i \in DOMAIN e.args}

(* all assignments (as functions on the whole variable list, defaulting elsewhere) of the mentioned variables *)
RECURSIVE AsgOver(_, _)
Default(k) == IF Vars[k].kind = "bool" THEN FALSE ELSE 0
AsgOver(S, a) ==
    IF S = {} THEN {a}
    ELSE LET k == CHOOSE x \in S : TRUE IN
         UNION {AsgOver(S \ {k}, [a EXCEPT ![k + 1] = v]) : v \in Dom(Vars[k + 1])}
(* more than 12 variables (the scale-up helper cases): all assignments are too many; a structured sample instead - *)
(* everything at its default, everything at its top value, and each of the two with one variable moved through    *)
(* its whole domain (an operand that is dropped, duplicated or swapped shows on these)                            *)
Top(k) == IF Vars[k].kind = "bool" THEN TRUE ELSE Vars[k].hi
Probes(S, base) ==
    LET top == [k \in DOMAIN Vars |-> IF k - 1 \in S THEN Top(k) ELSE base[k]] IN
    {base, top} \cup UNION {UNION {{[base EXCEPT ![k + 1] = v], [top EXCEPT ![k + 1] = v]} : v \in Dom(Vars[k + 1])} : k \in S}
SameMeaning(e1, e2) ==
    LET S == VarsOf(e1) \cup VarsOf(e2)
        base == [k \in DOMAIN Vars |-> Default(k)]
    IN  IF Cardinality(S) <= 12 THEN \A a \in AsgOver(S, base) : Eval(e1, a) = Eval(e2, a)
        ELSE \A a \in Probes(S, base) : Eval(e1, a) = Eval(e2, a)

ElemVerdict(exp) ==
    IF Len(R.elems) # Len(exp.elems) THEN "array:wrong-number-of-elements"
    ELSE IF \E i \in DOMAIN exp.elems : Type(R.elems[i], Vars) # Type(exp.elems[i], Vars)
         THEN "array:element-is-ill-typed-or-of-the-wrong-kind"
    ELSE IF \E i \in DOMAIN exp.elems : ~SameMeaning(R.elems[i], exp.elems[i])
         THEN "array:element-does-not-denote-its-pointwise-meaning"
    ELSE "ok"

Verdict ==
    LET exp == Expected IN
    IF exp.verdict = "unspecified" THEN "ok"
    ELSE IF exp.verdict = "reject"
         THEN (IF R.outcome = "raised" THEN "ok"
               ELSE IF R.outcome = "notimplemented" THEN "array:returns-NotImplemented-instead-of-rejecting"
               ELSE "array:ill-typed-or-mis-shaped-operands-accepted")
    ELSE IF R.outcome = "raised" THEN "array:raised-" \o R.exc
    ELSE IF R.outcome = "notimplemented" THEN "array:returns-NotImplemented-for-valid-operands"
    ELSE IF R.shape # exp.shape THEN "array:wrong-result-shape"
    ELSE ElemVerdict(exp)

Report == t = 0 \/ PrintT(ToJson([t |-> R.t, verdict |-> Verdict]))
=============================================================================
