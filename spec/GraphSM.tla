------------------------------ MODULE GraphSM ------------------------------
(* cspuz.graph.Graph as a state machine (extended coverage X03, cspuz/graph.py lines 43-118, 129-153).

   The class is the carrier of every graph constraint (C04-C10): vertices 0..n-1, an append-only edge list whose positions
   are the edge ids that callers pair with their edge variables, and per-vertex incidence lists (neighbour, edge id) that the
   encodings walk.  One action per public mutator (`add_edge`), as in the code; `line_graph`, `_grid_graph` and
   `_from_grid_frame` are stated as functions of the state / as particular behaviours of the machine.

   What a caller relies on:
     * IncSound / IncComplete - the incidence lists are exactly the edge list seen from each vertex (a loop is listed twice
       at its vertex, parallel edges are kept apart by their ids);
     * IncOrdered            - each incidence list is in insertion order (edge ids never decrease);
     * AppendOnly            - add_edge never renumbers or drops an edge, and never touches another vertex's list;
     * LineGraphPairs        - line_graph(): one vertex per edge id, two joined iff the edges share an endpoint (each
       unordered pair once, however many endpoints they share);
     * GridEdges / FrameEdges - the lattice graphs the grid forms of the constraints are built on, with the edge order that
       ties edge ids to cells / frame edges. *)
EXTENDS Naturals, Sequences, FiniteSets, SequencesExt

CONSTANTS NV,     \* number of vertices
          MaxE    \* bound on the number of add_edge calls (model checking only)

VARIABLES edges,  \* sequence of <<i, j>> as given by the caller; edge id = position - 1
          inc     \* [0..NV-1 -> sequence of <<neighbour, edge id>>]
vars == <<edges, inc>>

V == 0 .. NV - 1

Init == edges = <<>> /\ inc = [v \in V |-> <<>>]

(* cspuz/graph.py add_edge: append the pair, then (j, id) to i's list and (i, id) to j's list - in that order, so a loop
   is listed twice at its vertex *)
AddEdge(i, j) ==
    LET e == Len(edges)
        a == [inc EXCEPT ![i] = Append(@, <<j, e>>)]
    IN /\ edges' = Append(edges, <<i, j>>)
       /\ inc' = [a EXCEPT ![j] = Append(@, <<i, e>>)]

Next == \E i, j \in V : Len(edges) < MaxE /\ AddEdge(i, j)
Spec == Init /\ [][Next]_vars

-----------------------------------------------------------------------------
TypeOK == /\ edges \in Seq(V \X V)
          /\ \A v \in V : \A k \in 1 .. Len(inc[v]) : inc[v][k][1] \in V /\ inc[v][k][2] \in 0 .. Len(edges) - 1

Other(e, v) == IF edges[e + 1][1] = v THEN edges[e + 1][2] ELSE edges[e + 1][1]
Ends(e) == {edges[e + 1][1], edges[e + 1][2]}

IncSound == \A v \in V : \A k \in 1 .. Len(inc[v]) :
                LET w == inc[v][k][1]
                    e == inc[v][k][2]
                IN Ends(e) = {v, w}

Occ(v, e) == Cardinality({k \in 1 .. Len(inc[v]) : inc[v][k][2] = e})
IncComplete == \A e \in 0 .. Len(edges) - 1 : \A v \in V :
                   Occ(v, e) = (IF edges[e + 1][1] = v THEN 1 ELSE 0) + (IF edges[e + 1][2] = v THEN 1 ELSE 0)

IncOrdered == \A v \in V : \A k \in 1 .. Len(inc[v]) - 1 : inc[v][k][2] <= inc[v][k + 1][2]

DegreeSum == LET S[k \in 0 .. NV] == IF k = 0 THEN 0 ELSE S[k - 1] + Len(inc[k - 1]) IN S[NV] = 2 * Len(edges)

AppendOnly == [][/\ IsPrefix(edges, edges') /\ Len(edges') = Len(edges) + 1
                 /\ \A v \in V : IsPrefix(inc[v], inc'[v])
                 /\ LET p == edges'[Len(edges')]
                    IN \A v \in V : v \notin {p[1], p[2]} => inc'[v] = inc[v]]_vars

-----------------------------------------------------------------------------
(* line_graph(): the set of unordered pairs of distinct edge ids with a common endpoint *)
LineGraphPairs == {<<x, y>> \in (0 .. Len(edges) - 1) \X (0 .. Len(edges) - 1) : x < y /\ Ends(x) \cap Ends(y) # {}}
LoopFree == \A e \in 0 .. Len(edges) - 1 : edges[e + 1][1] # edges[e + 1][2]
(* in a loop-free graph the code adds nothing else; a loop e makes the code add the degenerate pair (e, e) as well *)
LineGraphLoops == {e \in 0 .. Len(edges) - 1 : edges[e + 1][1] = edges[e + 1][2]}

(* the line graph is a graph of the same machine: some behaviour with Len(edges) vertices reaches it; its own line graph is
   then determined - LineGraphOf is the same definition on an explicit edge sequence *)
EndsOf(es, e) == {es[e + 1][1], es[e + 1][2]}
LineGraphOf(es) == {<<x, y>> \in (0 .. Len(es) - 1) \X (0 .. Len(es) - 1) : x < y /\ EndsOf(es, x) \cap EndsOf(es, y) # {}}

-----------------------------------------------------------------------------
(* _grid_graph(h, w): for each cell in row-major order, the edge to the right neighbour, then the edge to the lower one *)
RECURSIVE CatSeq(_, _, _)
CatSeq(F(_), lo, hi) == IF lo > hi THEN <<>> ELSE F(lo) \o CatSeq(F, lo + 1, hi)

GridCellEdges(h, w, c) ==
    LET y == c \div w
        x == c % w
    IN (IF x < w - 1 THEN <<<<c, c + 1>>>> ELSE <<>>) \o (IF y < h - 1 THEN <<<<c, c + w>>>> ELSE <<>>)
GridEdges(h, w) == LET F(c) == GridCellEdges(h, w, c) IN CatSeq(F, 0, (h * w) - 1)

(* _from_grid_frame(frame h x w): lattice points in row-major order; for each, the vertical edge below it - frame cell
   (2y+1, 2x) - then the horizontal edge to its right - frame cell (2y, 2x+1) *)
FramePointEdges(h, w, p) ==
    LET y == p \div (w + 1)
        x == p % (w + 1)
    IN (IF y # h THEN <<[ends |-> <<p, p + w + 1>>, cell |-> <<(2 * y) + 1, 2 * x>>]>> ELSE <<>>)
       \o (IF x # w THEN <<[ends |-> <<p, p + 1>>, cell |-> <<2 * y, (2 * x) + 1>>]>> ELSE <<>>)
FrameEdges(h, w) == LET F(p) == FramePointEdges(h, w, p) IN CatSeq(F, 0, ((h + 1) * (w + 1)) - 1)

(* geometry the two builders must respect, whatever the order: every lattice adjacency exactly once *)
GridAdj(h, w) == {{a, b} : a, b \in 0 .. (h * w) - 1} \ {{a} : a \in 0 .. (h * w) - 1}
IsLattice(es, h, w) ==
    /\ \A k \in 1 .. Len(es) : LET a == es[k][1]
                                   b == es[k][2]
                               IN \/ (b = a + 1 /\ (a % w) # w - 1)
                                  \/ b = a + w
    /\ Len(es) = (h * (w - 1)) + ((h - 1) * w)
    /\ \A k, l \in 1 .. Len(es) : k # l => es[k] # es[l]
=============================================================================
