---------------------------- MODULE Trace_Session ----------------------------
(***************************************************************************)
(* Trace validation of Solver sessions executed by the real code.          *)
(*                                                                         *)
(* IOEnv.TRACE_FILE is NDJSON, one session per line:                       *)
(*   {"t": id, "events": [ {"ev": ...}, ... ]}                             *)
(* A find_answer / solve event may carry "w": solutions supplied by the    *)
(* driver, for programs too large to enumerate (SolverSM!FindVerdictW).    *)
(* Every event is the return of one public call (harness/session.py).      *)
(* The session machine is SolverSM; an event is accepted when the          *)
(* corresponding SolverSM action, with the observed result bound, is       *)
(* allowed.  Verdicts are total: a rejected event names the violated       *)
(* clause and the position; the rest of that trace is not consumed.        *)
(***************************************************************************)
EXTENDS SolverSM, Json, IOUtils, TLCExt

Traces == ndJsonDeserialize(IOEnv.TRACE_FILE)
NoPool(d) == {}

VARIABLES t,        \* which trace
          k,        \* events consumed
          verdict   \* "ok" or the violated clause

tvars == <<vars, t, k, verdict>>

Ev == Traces[t].events[k + 1]
EvSol(e) == [i \in DOMAIN e.ty |-> [ty |-> e.ty[i], b |-> e.b[i], n |-> e.n[i]]]

TraceInit == /\ t \in DOMAIN Traces /\ k = 0 /\ verdict = "ok"
             /\ decl = <<>> /\ cons = <<>> /\ keys = {} /\ sol = <<>>
             /\ last = [op |-> "none", ret |-> FALSE, keys |-> {}] /\ hist = <<>>

Reject(why) == verdict' = why /\ UNCHANGED vars

TrDeclare ==
    /\ Ev.ev \in {"bool_var", "int_var"}
    /\ IF Ev.id # Len(decl) THEN Reject("declare:variable-id-is-not-its-position")
       ELSE /\ Declare(IF Ev.ev = "bool_var" THEN [kind |-> "bool", lo |-> 0, hi |-> 0]
                                              ELSE [kind |-> "int", lo |-> Ev.lo, hi |-> Ev.hi])
            /\ verdict' = "ok"

TrDeclareArray ==
    /\ Ev.ev = "array"
    /\ LET n == Cells(Ev.shape) IN
       IF Ev.got_shape # Ev.shape THEN Reject("declare:array-has-another-shape-than-requested")
       ELSE IF Len(Ev.ids) # n \/ \E i \in 1 .. n : Ev.ids[i] # Len(decl) + i - 1
            THEN Reject("declare:array-cells-are-not-numbered-consecutively-in-row-major-order")
       ELSE IF Ev.declared # Len(decl) + n THEN Reject("declare:array-call-declared-another-number-of-variables")
       ELSE /\ DeclareArray(IF Ev.kind = "bool" THEN [kind |-> "bool", lo |-> 0, hi |-> 0]
                                                  ELSE [kind |-> "int", lo |-> Ev.lo, hi |-> Ev.hi], Ev.shape)
            /\ verdict' = "ok"

TrEnsure ==
    /\ Ev.ev = "ensure"
    /\ LET posted == Posted(Ev.x) IN
       IF \E i \in DOMAIN posted : Type(posted[i], decl) # "bool"
       THEN Reject("machinery:driver-posted-an-ill-typed-constraint")
       ELSE IF Ev.status # "ok" THEN Reject("ensure:raised-on-well-typed-constraint")
       ELSE Ensure(Ev.x) /\ verdict' = "ok"

TrAddKey ==
    /\ Ev.ev = "add_key"
    /\ IF Ev.status # "ok" THEN Reject("add_key:raised")
       ELSE /\ keys' = keys \cup {i + 1 : i \in {Ev.ids[j] : j \in DOMAIN Ev.ids}}
            /\ hist' = Append(hist, [a |-> "add_key"])
            /\ UNCHANGED <<decl, cons, sol, last>> /\ verdict' = "ok"

TrFind ==
    /\ Ev.ev = "find_answer"
    /\ IF Ev.status # "ok" THEN Reject("find:raised-" \o Ev.exc)
       ELSE LET v == IF "w" \in DOMAIN Ev THEN FindVerdictW(Prog(decl, cons), Ev.ret, EvSol(Ev), Ev.w)
                                            ELSE FindVerdict(Prog(decl, cons), Ev.ret, EvSol(Ev)) IN
            IF v # "ok" THEN Reject(v)
            ELSE FindAnswerWith(Ev.ret, EvSol(Ev)) /\ verdict' = "ok"

TrSolve ==
    /\ Ev.ev = "solve"
    /\ IF Ev.status # "ok" THEN Reject("solve:raised-" \o Ev.exc)
       ELSE LET v == IF "w" \in DOMAIN Ev
                     THEN SolveVerdictW(Prog(decl, cons), keys, Ev.ret, EvSol(Ev), Ev.w)
                     ELSE SolveVerdict(Prog(decl, cons), keys, Ev.ret, EvSol(Ev)) IN
            IF v # "ok" THEN Reject(v)
            ELSE SolveWith(Ev.ret, EvSol(Ev)) /\ verdict' = "ok"

(* setting an option of cspuz.config is a stuttering step of the session machine: *)
(* no option may change what find_answer / solve must establish                  *)
TrConfig == Ev.ev = "config" /\ UNCHANGED vars /\ verdict' = "ok"

TraceNext ==
    /\ verdict = "ok" /\ k < Len(Traces[t].events)
    /\ k' = k + 1 /\ t' = t
    /\ (TrDeclare \/ TrDeclareArray \/ TrEnsure \/ TrAddKey \/ TrFind \/ TrSolve \/ TrConfig)

Terminal == verdict # "ok" \/ k = Len(Traces[t].events)

(* one verdict line per trace *)
Report == Terminal =>
    PrintT(ToJson([t |-> Traces[t].t, k |-> k, n |-> Len(Traces[t].events), verdict |-> verdict]))

(* session-level facts re-checked in every state of every observed execution *)
TraceTypeOK == Len(sol) = Len(decl) /\ keys \subseteq DOMAIN decl

=============================================================================
