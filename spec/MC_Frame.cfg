INIT Init
NEXT Next
INVARIANT Consistent
INVARIANT Export
CHECK_DEADLOCK FALSE
