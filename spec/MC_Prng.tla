-------------------------------- MODULE MC_Prng --------------------------------
(* design level: uniformity for every raw-source size D <= 16 and width, shuffle bijective for n <= 5;
   export: every (D, a, b, raw sequence of length <= 3) with the specified result, for the replay into the real
   functions with a scripted raw source. *)
EXTENDS Prng, Json, TLCExt, IOUtils, SequencesExt

ASSUME AllUniform(16)
ASSUME \A n \in 1 .. 5 : ShuffleBijective(n)

Ds == {1, 2, 3, 5, 8, 13, 16}
VARIABLES D, a, w
Init == D \in Ds /\ w \in 1 .. 16 /\ w <= D /\ a \in {-3, 0, 5}
Next == UNCHANGED <<D, a, w>>
RawSeqs == UNION {[1 .. n -> 0 .. D - 1] : n \in 1 .. (IF D <= 5 THEN 3 ELSE 2)}
Export == PrintT(ToJson([D |-> D, a |-> a, b |-> a + w - 1,
                         cases |-> LET q == SetToSeq(RawSeqs) IN
                                   [i \in DOMAIN q |-> [raws |-> q[i], r |-> RandInt(D, a, a + w - 1, q[i], 1)]]]))
=============================================================================
