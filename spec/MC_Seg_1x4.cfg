CONSTANTS
  H = 1
  W = 4
SPECIFICATION Spec
INVARIANT Inv
INVARIANT Export
CHECK_DEADLOCK FALSE
