----------------------------- MODULE MC_GraphSM -----------------------------
(* every behaviour of add_edge on 3 vertices up to 4 edges (loops, parallel edges, both orientations); each state is
   exported with its incidence lists and line graph for replay into cspuz.graph.Graph; plus the lattice builders *)
EXTENDS GraphSM, Json, TLC, Integers, IOUtils

(* quick: 3 vertices, 4 calls (7 381 states); thorough: 4 vertices, 4 calls (69 905 states) *)
MCNV == IF IOEnv.TIER = "thorough" THEN 4 ELSE 3
MCMaxE == 4

GridSizes == {<<h, w>> : h \in 1 .. 4, w \in 1 .. 4}
GridOK == \A s \in GridSizes : IsLattice(GridEdges(s[1], s[2]), s[1], s[2])
FrameOK == \A s \in GridSizes :
    LET fe == FrameEdges(s[1], s[2])
        es == [k \in 1 .. Len(fe) |-> fe[k].ends]
    IN /\ IsLattice(es, s[1] + 1, s[2] + 1)
       /\ \A k \in 1 .. Len(fe) :      \* the frame cell named for an edge is the midpoint of its two lattice points
              LET a == fe[k].ends[1]
                  b == fe[k].ends[2]
                  ya == a \div (s[2] + 1)
                  xa == a % (s[2] + 1)
                  yb == b \div (s[2] + 1)
                  xb == b % (s[2] + 1)
              IN fe[k].cell = <<ya + yb, xa + xb>>
ASSUME GridOK
ASSUME FrameOK

Report ==
    PrintT(ToJson([kind |-> "state", edges |-> edges, inc |-> [k \in 1 .. NV |-> inc[k - 1]],
                   lg |-> LineGraphPairs, loops |-> LineGraphLoops, loopfree |-> LoopFree]))

GridReport == \A s \in GridSizes :
    PrintT(ToJson([kind |-> "grid", h |-> s[1], w |-> s[2], edges |-> GridEdges(s[1], s[2]),
                   frame |-> FrameEdges(s[1], s[2])]))
ASSUME GridReport
=============================================================================
