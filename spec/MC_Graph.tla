------------------------------ MODULE MC_Graph ------------------------------
(***************************************************************************)
(* Bounded enumeration of the graph-constraint input spaces (C04-C10) with *)
(* the definitional verdict of GraphDefs for every pattern.  One exported  *)
(* record per (object, options); the verdicts of all 2^m patterns of that  *)
(* object are one sequence indexed by pattern number + 1, where bit i of   *)
(* the pattern number says whether vertex / edge i (0-based) is active.    *)
(***************************************************************************)
EXTENDS GraphDefs, Json, TLCExt, IOUtils, SequencesExt, FiniteSetsExt

Family == IOEnv.FAMILY          \* which input space this run enumerates
Tier   == IOEnv.TIER            \* "quick" | "thorough"

Bit(p, i)  == (p \div (2 ^ i)) % 2 = 1
VSet(n, p) == {v \in 0 .. n - 1 : Bit(p, v)}
ESet(m, p) == {e \in 1 .. m : Bit(p, e - 1)}
Mask(S)    == LET RECURSIVE Sum(_)
                  Sum(T) == IF T = {} THEN 0 ELSE LET x == CHOOSE x \in T : TRUE IN 2 ^ x + Sum(T \ {x})
              IN Sum(S)

G(n, es) == [n |-> n, edges |-> es]
Obj(kind, name, h, w, g) == [kind |-> kind, name |-> name, h |-> h, w |-> w, graph |-> g]
GraphObj(name, g) == Obj("graph", name, 0, 0, g)
GridObj(h, w)  == Obj("grid", "grid", h, w, GridGraph(h, w))
FrameObj(h, w) == Obj("frame", "frame", h, w, Lattice(h, w))

Catalogue ==
    << GraphObj("path5", PathG(5)), GraphObj("cycle5", CycleG(5)), GraphObj("star5", StarG(5)),
       GraphObj("K5", CompleteG(5)), GraphObj("cycle6", CycleG(6)),
       GraphObj("two-triangles", G(6, <<<<0, 1>>, <<1, 2>>, <<0, 2>>, <<3, 4>>, <<4, 5>>, <<3, 5>>>>)),
       GraphObj("path3+isolated", G(5, <<<<0, 1>>, <<1, 2>>>>)),
       GraphObj("digon", G(2, <<<<0, 1>>, <<0, 1>>>>)),
       GraphObj("triangle+double-edge", G(3, <<<<0, 1>>, <<1, 2>>, <<0, 2>>, <<1, 2>>>>)),
       GraphObj("tests8", G(8, <<<<0, 1>>, <<1, 2>>, <<2, 3>>, <<3, 4>>, <<4, 5>>, <<5, 6>>, <<6, 7>>,
                                 <<0, 7>>, <<1, 6>>, <<2, 5>>>>)),
       GraphObj("bowtie", G(5, <<<<0, 1>>, <<1, 2>>, <<0, 2>>, <<2, 3>>, <<3, 4>>, <<2, 4>>>>)),
       GraphObj("K33", G(6, <<<<0, 3>>, <<0, 4>>, <<0, 5>>, <<1, 3>>, <<1, 4>>, <<1, 5>>, <<2, 3>>, <<2, 4>>, <<2, 5>>>>)) >>

SmallGraphs(maxn) ==
    LET S == UNION {SimpleGraphs(n) : n \in 1 .. maxn} IN
    LET q == SetToSeq(S) IN [i \in DOMAIN q |-> GraphObj("simple", q[i])]

(* loop-free multigraphs: every pair of vertices joined 0, 1 or 2 times, at most maxe edges *)
RECURSIVE Rep(_, _)
Rep(x, k) == IF k = 0 THEN <<>> ELSE <<x>> \o Rep(x, k - 1)
RECURSIVE MultiEdges(_, _)
MultiEdges(ps, mult) == IF ps = <<>> THEN <<>>
                        ELSE Rep(Head(ps), mult[Head(ps)]) \o MultiEdges(Tail(ps), mult)
MultiGraphs(n, maxe) ==
    LET ps == SetToSeqOrd(Pairs(n))
        Ms == {mu \in [Pairs(n) -> 0 .. 2] : FoldFunctionOnSet(LAMBDA a, b : a + b, 0, mu, Pairs(n)) <= maxe}
    IN  {G(n, MultiEdges(ps, mu)) : mu \in Ms}
SmallMultiGraphs(maxn, maxe) ==
    LET q == SetToSeq(UNION {MultiGraphs(n, maxe) : n \in 2 .. maxn})
    IN  [i \in DOMAIN q |-> GraphObj("multi", q[i])]

Grids(dims) == LET q == SetToSeq(dims) IN [i \in DOMAIN q |-> GridObj(q[i][1], q[i][2])]
Frames(dims) == LET q == SetToSeq(dims) IN [i \in DOMAIN q |-> FrameObj(q[i][1], q[i][2])]

Quick == Tier = "quick"

-----------------------------------------------------------------------------
(* C04 *)
ConnObjs == SmallGraphs(4) \o Catalogue \o
            Grids(IF Quick THEN {<<1, 1>>, <<1, 2>>, <<2, 1>>, <<2, 2>>, <<1, 3>>, <<3, 1>>, <<2, 3>>, <<3, 2>>, <<1, 4>>}
                  ELSE {<<1, 1>>, <<1, 2>>, <<2, 1>>, <<2, 2>>, <<1, 3>>, <<3, 1>>, <<2, 3>>, <<3, 2>>, <<1, 4>>,
                        <<4, 1>>, <<3, 3>>, <<2, 4>>, <<3, 4>>})
ConnRec(o) ==
    LET g == o.graph  np == 2 ^ g.n IN
    [family |-> "conn", obj |-> o,
     connected |-> [p \in 1 .. np |-> Connected(g, VSet(g.n, p - 1))],
     tree      |-> [p \in 1 .. np |-> IsTree(g, VSet(g.n, p - 1))]]

(* C08 *)
NotSegObjs == SmallGraphs(IF Quick THEN 4 ELSE 5) \o Catalogue \o
              Grids(IF Quick THEN {<<1, 1>>, <<1, 2>>, <<2, 2>>, <<1, 3>>, <<3, 1>>, <<2, 3>>, <<3, 2>>, <<3, 3>>, <<1, 5>>}
                    ELSE {<<1, 1>>, <<1, 2>>, <<2, 1>>, <<2, 2>>, <<1, 3>>, <<3, 1>>, <<2, 3>>, <<3, 2>>, <<3, 3>>,
                          <<1, 4>>, <<4, 1>>, <<1, 5>>, <<5, 1>>, <<2, 4>>, <<2, 5>>, <<3, 4>>, <<4, 3>>, <<4, 4>>})
NotSegRec(o) ==
    LET g == o.graph  np == 2 ^ g.n IN
    [family |-> "notseg", obj |-> o,
     notadj |-> [p \in 1 .. np |-> NotAdj(g, VSet(g.n, p - 1))],
     notseg |-> [p \in 1 .. np |-> NotSeg(g, VSet(g.n, p - 1))]]

(* C09 *)
AcyclicObjs == SmallMultiGraphs(IF Quick THEN 3 ELSE 4, 6) \o SmallGraphs(4) \o Catalogue
AcyclicRec(o) ==
    LET g == o.graph  m == Len(g.edges)  np == 2 ^ m IN
    [family |-> "acyclic", obj |-> o,
     forest |-> [p \in 1 .. np |-> Forest(g, ESet(m, p - 1))]]

(* C06 *)
CycleObjs == SmallMultiGraphs(IF Quick THEN 3 ELSE 4, 6) \o SmallGraphs(4) \o Catalogue \o
             Frames(IF Quick THEN {<<0, 0>>, <<0, 1>>, <<1, 0>>, <<1, 1>>, <<1, 2>>, <<2, 1>>, <<0, 2>>, <<2, 0>>}
                    ELSE {<<0, 0>>, <<0, 1>>, <<1, 0>>, <<1, 1>>, <<1, 2>>, <<2, 1>>, <<0, 2>>, <<2, 0>>,
                          <<2, 2>>, <<1, 3>>, <<3, 1>>})
CycleRec(o) ==
    LET g == o.graph  m == Len(g.edges)  np == 2 ^ m IN
    [family |-> "cycle", obj |-> o,
     cycle   |-> [p \in 1 .. np |-> SingleCycle(g, ESet(m, p - 1))],
     path    |-> [p \in 1 .. np |-> SinglePath(g, ESet(m, p - 1))],
     touched |-> [p \in 1 .. np |-> Mask(Touched(g, ESet(m, p - 1)))]]

-----------------------------------------------------------------------------
Objs == CASE Family = "conn"    -> ConnObjs
          [] Family = "notseg"  -> NotSegObjs
          [] Family = "acyclic" -> AcyclicObjs
          [] Family = "cycle"   -> CycleObjs
Rec(o) == CASE Family = "conn"    -> ConnRec(o)
            [] Family = "notseg"  -> NotSegRec(o)
            [] Family = "acyclic" -> AcyclicRec(o)
            [] Family = "cycle"   -> CycleRec(o)

ObjSeq == TLCEval(Objs)

VARIABLES shard, i
Init == shard \in 0 .. 63 /\ i = 0
Next == i = 0 /\ i' \in {j \in DOMAIN ObjSeq : j % 64 = shard} /\ shard' = shard
Export == i = 0 \/ PrintT(ToJson([id |-> i] @@ Rec(ObjSeq[i])))
=============================================================================
