------------------------------ MODULE MC_Graph ------------------------------
(***************************************************************************)
(* Bounded enumeration of the graph-constraint input spaces (C04-C10) with *)
(* the definitional verdict of GraphDefs for every pattern.  One exported  *)
(* record per (object, options); the verdicts of all 2^m patterns of that  *)
(* object are one sequence indexed by pattern number + 1, where bit i of   *)
(* the pattern number says whether vertex / edge i (0-based) is active.    *)
(***************************************************************************)
EXTENDS GraphDefs, Json, TLCExt, IOUtils, SequencesExt, FiniteSetsExt

Family == IOEnv.FAMILY          \* which input space this run enumerates
Tier   == IOEnv.TIER            \* "quick" | "thorough"

Bit(p, i)  == (p \div (2 ^ i)) % 2 = 1
VSet(n, p) == {v \in 0 .. n - 1 : Bit(p, v)}
ESet(m, p) == {e \in 1 .. m : Bit(p, e - 1)}
Mask(S)    == LET RECURSIVE Sum(_)
                  Sum(T) == IF T = {} THEN 0 ELSE LET x == CHOOSE x \in T : TRUE IN 2 ^ x + Sum(T \ {x})
              IN Sum(S)

G(n, es) == [n |-> n, edges |-> es]
Obj(kind, name, h, w, g) == [kind |-> kind, name |-> name, h |-> h, w |-> w, graph |-> g]
GraphObj(name, g) == Obj("graph", name, 0, 0, g)
GridObj(h, w)  == Obj("grid", "grid", h, w, GridGraph(h, w))
FrameObj(h, w) == Obj("frame", "frame", h, w, Lattice(h, w))

Catalogue ==
    << GraphObj("path5", PathG(5)), GraphObj("cycle5", CycleG(5)), GraphObj("star5", StarG(5)),
       GraphObj("K5", CompleteG(5)), GraphObj("cycle6", CycleG(6)),
       GraphObj("two-triangles", G(6, <<<<0, 1>>, <<1, 2>>, <<0, 2>>, <<3, 4>>, <<4, 5>>, <<3, 5>>>>)),
       GraphObj("path3+isolated", G(5, <<<<0, 1>>, <<1, 2>>>>)),
       GraphObj("wheel5", G(6, <<<<0, 1>>, <<0, 2>>, <<0, 3>>, <<0, 4>>, <<0, 5>>, <<1, 2>>, <<2, 3>>, <<3, 4>>, <<4, 5>>, <<1, 5>>>>)),
       GraphObj("digon", G(2, <<<<0, 1>>, <<0, 1>>>>)),
       GraphObj("digon+triangle", G(5, <<<<0, 1>>, <<0, 1>>, <<2, 3>>, <<3, 4>>, <<2, 4>>>>)),
       GraphObj("two-digons", G(4, <<<<0, 1>>, <<0, 1>>, <<2, 3>>, <<2, 3>>>>)),
       GraphObj("digon-on-a-path", G(4, <<<<0, 1>>, <<1, 2>>, <<1, 2>>, <<2, 3>>>>)),
       GraphObj("triangle+double-edge", G(3, <<<<0, 1>>, <<1, 2>>, <<0, 2>>, <<1, 2>>>>)),
       GraphObj("tests8", G(8, <<<<0, 1>>, <<1, 2>>, <<2, 3>>, <<3, 4>>, <<4, 5>>, <<5, 6>>, <<6, 7>>,
                                 <<0, 7>>, <<1, 6>>, <<2, 5>>>>)),
       GraphObj("bowtie", G(5, <<<<0, 1>>, <<1, 2>>, <<0, 2>>, <<2, 3>>, <<3, 4>>, <<2, 4>>>>)),
       GraphObj("K33", G(6, <<<<0, 3>>, <<0, 4>>, <<0, 5>>, <<1, 3>>, <<1, 4>>, <<1, 5>>, <<2, 3>>, <<2, 4>>, <<2, 5>>>>)) >>

SmallGraphs(maxn) ==
    LET S == UNION {SimpleGraphs(n) : n \in 1 .. maxn} IN
    LET q == SetToSeq(S) IN [i \in DOMAIN q |-> GraphObj("simple", q[i])]

(* loop-free multigraphs: every pair of vertices joined 0, 1 or 2 times, at most maxe edges *)
RECURSIVE Rep(_, _)
Rep(x, k) == IF k = 0 THEN <<>> ELSE <<x>> \o Rep(x, k - 1)
RECURSIVE MultiEdges(_, _)
MultiEdges(ps, mult) == IF ps = <<>> THEN <<>>
                        ELSE Rep(Head(ps), mult[Head(ps)]) \o MultiEdges(Tail(ps), mult)
MultiGraphs(n, maxe) ==
    LET ps == SetToSeqOrd(Pairs(n))
        Ms == {mu \in [Pairs(n) -> 0 .. 2] : FoldFunctionOnSet(LAMBDA a, b : a + b, 0, mu, Pairs(n)) <= maxe}
    IN  {G(n, MultiEdges(ps, mu)) : mu \in Ms}
SmallMultiGraphs(maxn, maxe) ==
    LET q == SetToSeq(UNION {MultiGraphs(n, maxe) : n \in 2 .. maxn})
    IN  [i \in DOMAIN q |-> GraphObj("multi", q[i])]

Grids(dims) == LET q == SetToSeq(dims) IN [i \in DOMAIN q |-> GridObj(q[i][1], q[i][2])]
Frames(dims) == LET q == SetToSeq(dims) IN [i \in DOMAIN q |-> FrameObj(q[i][1], q[i][2])]

Quick == Tier = "quick"

-----------------------------------------------------------------------------
(* C04 *)
ConnObjs == SmallGraphs(4) \o Catalogue \o
            Grids(IF Quick THEN {<<1, 1>>, <<1, 2>>, <<2, 1>>, <<2, 2>>, <<1, 3>>, <<3, 1>>, <<2, 3>>, <<3, 2>>, <<1, 4>>}
                  ELSE {<<1, 1>>, <<1, 2>>, <<2, 1>>, <<2, 2>>, <<1, 3>>, <<3, 1>>, <<2, 3>>, <<3, 2>>, <<1, 4>>,
                        <<4, 1>>, <<3, 3>>, <<2, 4>>, <<3, 4>>})
ConnRec(o) ==
    LET g == o.graph  np == 2 ^ g.n IN
    [family |-> "conn", obj |-> o,
     connected |-> [p \in 1 .. np |-> Connected(g, VSet(g.n, p - 1))],
     tree      |-> [p \in 1 .. np |-> IsTree(g, VSet(g.n, p - 1))]]

(* C08 *)
LoopObjs == << GraphObj("loop", G(1, <<<<0, 0>>>>)), GraphObj("path3+loop", G(3, <<<<0, 1>>, <<1, 1>>, <<1, 2>>>>)),
              GraphObj("path4+end-loop", G(4, <<<<0, 1>>, <<1, 2>>, <<2, 3>>, <<3, 3>>>>)) >>      \* an active vertex with a loop is adjacent to itself
NotSegObjs == SmallGraphs(IF Quick THEN 4 ELSE 5) \o Catalogue \o LoopObjs \o
              Grids(IF Quick THEN {<<1, 1>>, <<1, 2>>, <<2, 2>>, <<1, 3>>, <<3, 1>>, <<2, 3>>, <<3, 2>>, <<3, 3>>, <<1, 5>>}
                    ELSE {<<1, 1>>, <<1, 2>>, <<2, 1>>, <<2, 2>>, <<1, 3>>, <<3, 1>>, <<2, 3>>, <<3, 2>>, <<3, 3>>,
                          <<1, 4>>, <<4, 1>>, <<1, 5>>, <<5, 1>>, <<2, 4>>, <<2, 5>>, <<3, 4>>, <<4, 3>>, <<4, 4>>})
NotSegRec(o) ==
    LET g == o.graph  np == 2 ^ g.n IN
    [family |-> "notseg", obj |-> o,
     notadj |-> [p \in 1 .. np |-> NotAdj(g, VSet(g.n, p - 1))],
     notseg |-> [p \in 1 .. np |-> NotSeg(g, VSet(g.n, p - 1))]]

(* C09 *)
AcyclicObjs == SmallMultiGraphs(IF Quick THEN 3 ELSE 4, 6) \o SmallGraphs(4) \o Catalogue
AcyclicRec(o) ==
    LET g == o.graph  m == Len(g.edges)  np == 2 ^ m IN
    [family |-> "acyclic", obj |-> o,
     forest |-> [p \in 1 .. np |-> Forest(g, ESet(m, p - 1))]]

(* C06 *)
CycleObjs == SmallMultiGraphs(IF Quick THEN 3 ELSE 4, 6) \o SmallGraphs(4) \o Catalogue \o
             Frames(IF Quick THEN {<<0, 0>>, <<0, 1>>, <<1, 0>>, <<1, 1>>, <<1, 2>>, <<2, 1>>, <<0, 2>>, <<2, 0>>}
                    ELSE {<<0, 0>>, <<0, 1>>, <<1, 0>>, <<1, 1>>, <<1, 2>>, <<2, 1>>, <<0, 2>>, <<2, 0>>,
                          <<2, 2>>, <<1, 3>>, <<3, 1>>})
CycleRec(o) ==
    LET g == o.graph  m == Len(g.edges)  np == 2 ^ m IN
    [family |-> "cycle", obj |-> o,
     cycle   |-> [p \in 1 .. np |-> SingleCycle(g, ESet(m, p - 1))],
     path    |-> [p \in 1 .. np |-> SinglePath(g, ESet(m, p - 1))],
     touched |-> [p \in 1 .. np |-> Mask(Touched(g, ESet(m, p - 1)))],
     linegraph |-> SetToSeq(LineGraphPairs(g))]

(* C05: division_connected.  Labeling number L in base R: vertex v has label digit v.   *)
Lab(n, R, L) == [v \in 0 .. n - 1 |-> (L \div (R ^ v)) % R]
RootsOpt(n, R, k) ==      \* sequences of optional vertices ({} = None)
    CASE k = 1 -> [i \in 1 .. R |-> {}]
      [] k = 2 -> [i \in 1 .. R |-> IF i = 1 THEN {n - 1} ELSE {}]
      [] k = 3 -> [i \in 1 .. R |-> {((i - 1) * 2) % n}]
      [] k = 4 -> [i \in 1 .. R + 1 |-> IF i = R + 1 THEN {0} ELSE {}]      \* a list longer than the number of labels: position R names
                                                                            \* a label no vertex can carry - nothing is admitted
      [] k = 5 -> [i \in 1 .. R + 2 |-> IF i = 1 THEN {n - 1} ELSE {}]      \* over-long, the extra entries None: as k = 2
      [] OTHER -> <<>>
RootsJson(r) == [i \in DOMAIN r |-> IF r[i] = {} THEN -1 ELSE CHOOSE x \in r[i] : TRUE]
DivBase == SmallGraphs(IF Quick THEN 3 ELSE 4) \o
           << GraphObj("path5", PathG(5)), GraphObj("cycle5", CycleG(5)), GraphObj("star5", StarG(5)),
              GraphObj("path3+isolated", G(5, <<<<0, 1>>, <<1, 2>>>>)),
              GraphObj("square+chord", G(4, <<<<0, 1>>, <<1, 2>>, <<2, 3>>, <<0, 3>>, <<0, 2>>>>)),
              GraphObj("path4", PathG(4)), GraphObj("empty4", G(4, <<>>)) >> \o
           Grids(IF Quick THEN {<<1, 1>>, <<1, 3>>, <<2, 2>>, <<3, 1>>, <<2, 3>>}
                 ELSE {<<1, 1>>, <<1, 2>>, <<1, 3>>, <<2, 2>>, <<3, 1>>, <<2, 3>>, <<3, 2>>, <<1, 4>>})
DivObjs ==
    LET combos == {<<i, R, k, ae>> : i \in DOMAIN DivBase, R \in 1 .. 3, k \in 0 .. 5, ae \in BOOLEAN}
        q == SetToSeq(combos)
    IN  [j \in DOMAIN q |-> [base |-> DivBase[q[j][1]], R |-> q[j][2], k |-> q[j][3], ae |-> q[j][4]]]
    \o (IF Quick THEN <<>> ELSE
        LET c2 == SetToSeq({<<R, k, ae>> : R \in 1 .. 2, k \in 0 .. 5, ae \in BOOLEAN}) IN
        [j \in DOMAIN c2 |-> [base |-> GridObj(3, 3), R |-> c2[j][1], k |-> c2[j][2], ae |-> c2[j][3]]])
DivRec(o) ==
    LET g == o.base.graph  roots == RootsOpt(g.n, o.R, o.k)  nl == o.R ^ g.n IN
    [family |-> "div", obj |-> o.base, R |-> o.R, rootsopt |-> o.k, roots |-> RootsJson(roots),
     allow_empty |-> o.ae,
     ok |-> [L \in 1 .. nl |-> DivOK(g, Lab(g.n, o.R, L - 1), o.R, roots, o.ae)]]

(* C07: variable groups.  A set partition is exported as its restricted-growth string. *)
RECURSIVE RGS(_, _)
(* all restricted growth strings of length n that extend prefix s (block ids from 0) *)
MaxOf(s) == IF s = <<>> THEN -1 ELSE LET S == {s[i] : i \in DOMAIN s} IN CHOOSE x \in S : \A y \in S : y <= x
RGS(n, s) == IF Len(s) = n THEN {s}
             ELSE UNION {RGS(n, Append(s, b)) : b \in 0 .. MaxOf(s) + 1}
PartOf(n, r) == {{v \in 0 .. n - 1 : r[v + 1] = b} : b \in {r[i] : i \in DOMAIN r}}
(* size specifications: kind, plus per-vertex optional sizes *)
SizeSpec(n, k) ==
    CASE k = 0 -> [kind |-> "none",   sz |-> [v \in 0 .. n - 1 |-> {}]]
      [] k = 1 -> [kind |-> "const1", sz |-> [v \in 0 .. n - 1 |-> {1}]]
      [] k = 2 -> [kind |-> "const2", sz |-> [v \in 0 .. n - 1 |-> {2}]]
      [] k = 3 -> [kind |-> "shared", sz |-> [v \in 0 .. n - 1 |-> {}]]
      [] k = 4 -> [kind |-> "list",   sz |-> [v \in 0 .. n - 1 |-> IF v = 0 THEN {2} ELSE {}]]
      [] k = 5 -> [kind |-> "list",   sz |-> [v \in 0 .. n - 1 |-> IF v = n - 1 THEN {1} ELSE IF v = 0 THEN {3} ELSE {}]]
      [] k = 6 -> [kind |-> "list",   sz |-> [v \in 0 .. n - 1 |-> IF v % 2 = 0 THEN {2} ELSE {}]]
      [] k = 7 -> [kind |-> "list",   sz |-> [v \in 0 .. n - 1 |-> IF v = 0 THEN {2} ELSE {3}]]          \* no hole, sizes differ
      [] k = 8 -> [kind |-> "list",   sz |-> [v \in 0 .. n - 1 |-> {1 + (v % 3)}]]                       \* no hole, sizes differ
      [] k = 9 -> [kind |-> "const0", sz |-> [v \in 0 .. n - 1 |-> {0}]]                               \* no block has 0 vertices: nothing is realisable
      [] k = 10 -> [kind |-> "list",  sz |-> [v \in 0 .. n - 1 |-> IF v = n - 1 THEN {0} ELSE {}]]      \* one impossible entry
SzJson(n, sz) == [v \in 1 .. n |-> IF sz[v - 1] = {} THEN -1 ELSE CHOOSE x \in sz[v - 1] : TRUE]
GroupBase == SmallGraphs(IF Quick THEN 3 ELSE 4) \o
             << GraphObj("path4", PathG(4)), GraphObj("cycle4", CycleG(4)), GraphObj("star4", StarG(4)),
                GraphObj("path5", PathG(5)), GraphObj("cycle5", CycleG(5)),
                GraphObj("digon+tail", G(3, <<<<0, 1>>, <<0, 1>>, <<1, 2>>>>)) >> \o
             Grids(IF Quick THEN {<<1, 1>>, <<1, 3>>, <<2, 2>>, <<2, 3>>} ELSE {<<1, 1>>, <<1, 2>>, <<1, 3>>, <<3, 1>>, <<2, 2>>, <<2, 3>>, <<3, 2>>})
GroupObjs == LET q == SetToSeq({<<i, k>> : i \in DOMAIN GroupBase, k \in 0 .. 10})
             IN  [j \in DOMAIN q |-> [base |-> GroupBase[q[j][1]], k |-> q[j][2]]]
GroupRec(o) ==
    LET g == o.base.graph  spec == SizeSpec(g.n, o.k)
        rs == SetToSeq(AllRGS(g.n)) IN
    [family |-> "groups", obj |-> o.base, sizekind |-> spec.kind, sizes |-> SzJson(g.n, spec.sz),
     parts |-> rs,
     ok |-> [j \in DOMAIN rs |->
               IF spec.kind = "shared" THEN RealisableShared(g, PartOf(g.n, rs[j]))
               ELSE Realisable(g, PartOf(g.n, rs[j]), spec.sz)]]

(* C07 borders: pattern bit e-1 says whether edge e is a border *)
InnerObj(h, w) == Obj("inner", "inner", h, w, Lattice(h - 1, w - 1))     \* cells are the points of the dual frame
BorderBase == SmallGraphs(IF Quick THEN 3 ELSE 4) \o
              << GraphObj("path4", PathG(4)), GraphObj("cycle4", CycleG(4)), GraphObj("cycle5", CycleG(5)),
                 GraphObj("digon+tail", G(3, <<<<0, 1>>, <<0, 1>>, <<1, 2>>>>)) >> \o
              (LET q == SetToSeq(IF Quick THEN {<<1, 1>>, <<1, 3>>, <<2, 2>>, <<2, 3>>}
                                 ELSE {<<1, 1>>, <<1, 2>>, <<1, 3>>, <<3, 1>>, <<2, 2>>, <<2, 3>>, <<3, 2>>, <<3, 3>>})
               IN [i \in DOMAIN q |-> InnerObj(q[i][1], q[i][2])])
BorderObjs == LET q == SetToSeq({<<i, k>> : i \in DOMAIN BorderBase, k \in {0, 1, 2, 4, 5, 6, 7, 8, 9, 10}})
              IN  [j \in DOMAIN q |-> [base |-> BorderBase[q[j][1]], k |-> q[j][2]]]
BorderRec(o) ==
    LET g == o.base.graph  m == Len(g.edges)  spec == SizeSpec(g.n, o.k) IN
    [family |-> "borders", obj |-> o.base, sizekind |-> spec.kind, sizes |-> SzJson(g.n, spec.sz),
     ok |-> [p \in 1 .. 2 ^ m |-> BorderOK(g, [e \in 1 .. m |-> Bit(p - 1, e - 1)], spec.sz)]]

(* C10: crossable loop / path on a frame.  Segments are the lattice edges (in Lattice order);  *)
(* a segment is horizontal iff its endpoints are consecutive point numbers.                     *)
(* Horizontal, Joined, Strand, Crossable: see GraphDefs *)
CrossObjs ==
    LET dims == IF Quick THEN {<<0, 0>>, <<0, 1>>, <<1, 0>>, <<1, 1>>, <<1, 2>>, <<2, 1>>, <<2, 2>>}
                ELSE {<<0, 0>>, <<0, 1>>, <<1, 0>>, <<0, 2>>, <<1, 1>>, <<1, 2>>, <<2, 1>>, <<2, 2>>, <<1, 3>>, <<3, 1>>}
        q == SetToSeq({<<d, c>> : d \in dims, c \in BOOLEAN})
    IN  [i \in DOMAIN q |-> [base |-> FrameObj(q[i][1][1], q[i][1][2]), cyc |-> q[i][2]]]
CrossRec(o) ==
    LET g == o.base.graph  m == Len(g.edges)  np == 2 ^ m IN
    [family |-> "cross", obj |-> o.base, single_cycle |-> o.cyc,
     ok     |-> [p \in 1 .. np |-> Crossable(g, ESet(m, p - 1), o.cyc)],
     passed |-> [p \in 1 .. np |-> Mask(Touched(g, ESet(m, p - 1)))],
     cross  |-> [p \in 1 .. np |-> Mask({v \in V(g) : Deg(g, ESet(m, p - 1), v) = 4})]]

-----------------------------------------------------------------------------
Objs == CASE Family = "conn"    -> ConnObjs
          [] Family = "notseg"  -> NotSegObjs
          [] Family = "acyclic" -> AcyclicObjs
          [] Family = "cycle"   -> CycleObjs
          [] Family = "div"     -> DivObjs
          [] Family = "groups"  -> GroupObjs
          [] Family = "borders" -> BorderObjs
          [] Family = "cross"   -> CrossObjs
Rec(o) == CASE Family = "conn"    -> ConnRec(o)
            [] Family = "notseg"  -> NotSegRec(o)
            [] Family = "acyclic" -> AcyclicRec(o)
            [] Family = "cycle"   -> CycleRec(o)
            [] Family = "div"     -> DivRec(o)
            [] Family = "groups"  -> GroupRec(o)
            [] Family = "borders" -> BorderRec(o)
            [] Family = "cross"   -> CrossRec(o)

ObjSeq == TLCEval(Objs)

VARIABLES shard, i
Init == shard \in 0 .. 63 /\ i = 0
Next == i = 0 /\ i' \in {j \in DOMAIN ObjSeq : j % 64 = shard} /\ shard' = shard
Export == i = 0 \/ PrintT(ToJson([id |-> i] @@ Rec(ObjSeq[i])))
=============================================================================
