INIT Init
NEXT Next
INVARIANT Export
CHECK_DEADLOCK FALSE
