---------------------------- MODULE MC_Analyzer ----------------------------
(***************************************************************************)
(* Bounded instance of Analyzer: every program made of <= 1 axiom and 1..3 *)
(* named groups drawn from a pool of 10 driver expressions over 3 booleans *)
(* and one integer 0..2, for 4 answer-key choices.  TLC checks the design  *)
(* invariants and termination, and exports each program with the result    *)
(* analyze() must return (P1: replayed into the real Analyzer with a       *)
(* brute-force backend).  IOEnv.TIER = "thorough" adds the groups in       *)
(* descending pool order (the greedy minimisation depends on the order).   *)
(***************************************************************************)
EXTENDS Analyzer, Json, IOUtils, TLCExt

V(k)  == [f |-> "var", id |-> k]
IL(x) == [f |-> "ilit", n |-> x]
Ap1(f, a)    == [f |-> f, args |-> <<a>>]
Ap2(f, a, b) == [f |-> f, args |-> <<a, b>>]
Lst(items)   == [f |-> "list", args |-> items]

Vars == << [kind |-> "bool", lo |-> 0, hi |-> 0], [kind |-> "bool", lo |-> 0, hi |-> 0],
           [kind |-> "bool", lo |-> 0, hi |-> 0], [kind |-> "int", lo |-> 0, hi |-> 2] >>

Pool == << V(0),
           Ap2("then", V(0), V(1)),
           Ap2("then", V(1), V(2)),
           Ap2("or", Ap1("not", V(2)), Ap2("eq", V(3), IL(2))),
           Ap2("ge", V(3), IL(1)),
           Ap2("or", V(0), V(1)),
           Ap2("ne", V(3), IL(1)),
           Ap2("iff", V(2), Ap2("eq", V(3), IL(0))),
           Lst(<<Ap1("not", V(1)), Ap2("le", V(3), IL(1))>>),
           Ap2("xor", V(0), V(2)) >>
NP == Len(Pool)

Thorough == IF "TIER" \in DOMAIN IOEnv THEN IOEnv.TIER = "thorough" ELSE FALSE

KeySets == { <<1, 2, 3, 4>>, <<1, 2, 3>>, <<4>>, <<1, 4>> }
AxSets  == { <<>> } \cup { <<i>> : i \in 1 .. NP }
Asc  == { <<i>> : i \in 1 .. NP } \cup { <<i, j>> : i, j \in 1 .. NP } \cup { <<i, j, k>> : i, j, k \in 1 .. NP }
Strict(s, up) == \A i \in 1 .. Len(s) - 1 : IF up THEN s[i] < s[i + 1] ELSE s[i] > s[i + 1]
GroupSeqs == { s \in Asc : Strict(s, TRUE) \/ (Thorough /\ Len(s) >= 2 /\ Strict(s, FALSE)) }

Programs ==
    { [vars |-> Vars, dax |-> [i \in DOMAIN ax |-> Pool[ax[i]]], dgroups |-> [i \in DOMAIN gs |-> Pool[gs[i]]],
       keys |-> ks, ax |-> ax, gs |-> gs]
      : ax \in AxSets, gs \in GroupSeqs, ks \in KeySets }

MCInit == AInit({p \in Programs : \A i \in DOMAIN p.gs : \A j \in DOMAIN p.ax : p.gs[i] # p.ax[j]})
MCSpec == MCInit /\ [][ANext]_avars /\ WF_avars(ANext)

StepOut(s) == [new |-> s.new, cs |-> s.cs, fs |-> s.fs]
Report == Terminal =>
    PrintT(ToJson([vars |-> A.vars, dax |-> A.dax, dgroups |-> A.dgroups, keys |-> A.keys, ax |-> A.ax, gs |-> A.gs,
                   none |-> (phase = "none"),
                   steps |-> [i \in DOMAIN steps |-> StepOut(steps[i])]]))
=============================================================================
