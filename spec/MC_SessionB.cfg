CONSTANTS
  VarTemplates <- TemplatesB
  MaxDecl = 4
  MaxEnsure = 5
  MaxSolves = 3
  Pool <- PoolB
  InitDecl <- DeclA
  ILitVals <- LitsA
  Rich = FALSE
  ExportDepth <- ExportDepthEnv
  Shard = 0
  NShards = 1
INIT Init
NEXT Next
INVARIANT ExportB
INVARIANT TypeOK
INVARIANT ResultsAreCorrect
INVARIANT SolveAgreesWithFind
PROPERTY Monotone
PROPERTY FactsPersist
CHECK_DEADLOCK FALSE
