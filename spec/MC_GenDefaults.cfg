INIT Init
NEXT Next
INVARIANT CoherentInv
INVARIANT Report
