--------------------------- MODULE Trace_SolveLoop ---------------------------
(***************************************************************************)
(* Judges runs of the real Solver.solve against an adversarial policy      *)
(* backend (harness/policy_backend.py) whose model set and priority order  *)
(* come from behaviours of SolveLoop.tla.                                  *)
(* One record per run: the model set, the answer keys, the conversation    *)
(* the backend had with the code (constraints received as exported trees,  *)
(* replies given) and what solve() finally returned / left in sol.         *)
(* Judged: (i) the collaborator really answered correctly for what it was  *)
(* given (otherwise: machinery verdict); (ii) exactly what C02 states.     *)
(***************************************************************************)
EXTENDS CspSem, Json, IOUtils, TLCExt

Runs == ndJsonDeserialize(IOEnv.TRACE_FILE)

VARIABLES g, t       \* g: shard (so that TLC workers share the runs), t: the run judged (0 = none yet)
Init == g \in 0 .. 63 /\ t = 0
Next == t = 0 /\ t' \in {i \in DOMAIN Runs : i % 64 = g} /\ g' = g

R == Runs[t]
NV == Len(R.kinds)
Vars == [k \in 1 .. NV |-> [kind |-> R.kinds[k], lo |-> -1000, hi |-> 1000]]
Asg(m) == [k \in 1 .. NV |-> IF m.ty[k] = "bool" THEN m.b[k] ELSE m.n[k]]
MSet == {Asg(R.models[i]) : i \in DOMAIN R.models}
Keys == {R.keys[i] : i \in DOMAIN R.keys}

Conv == R.conv
(* trees received by the backend before conversation step j *)
ReceivedBefore(j) ==
    UNION {{Conv[i].trees[x] : x \in DOMAIN Conv[i].trees} : i \in {i \in 1 .. j - 1 : Conv[i].ev = "add"}}
SolveSteps == {j \in DOMAIN Conv : Conv[j].ev = "solve"}

TreesWellTyped == \A j \in DOMAIN Conv : Conv[j].ev = "add" =>
                     \A x \in DOMAIN Conv[j].trees : Type(Conv[j].trees[x], Vars) = "bool"

BackendAnsweredCorrectly ==
    \A j \in SolveSteps :
       LET rc == ReceivedBefore(j) IN
       IF Conv[j].ret
       THEN Asg(Conv[j].m) \in MSet /\ \A c \in rc : Eval(c, Asg(Conv[j].m))
       ELSE \A m \in MSet : \E c \in rc : ~Eval(c, m)

Slot(k) == [ty |-> R.ty[k], b |-> R.b[k], n |-> R.n[k]]
SlotVal(k) == IF R.kinds[k] = "bool" THEN R.b[k] ELSE R.n[k]

Verdict ==
    IF ~TreesWellTyped THEN "solve:gave-the-backend-an-ill-typed-constraint"
    ELSE IF ~BackendAnsweredCorrectly THEN "machinery:policy-backend-answered-incorrectly"
    ELSE IF R.status # "ok" THEN "solve:raised-" \o R.exc
    ELSE IF R.ret # (MSet # {}) THEN
            (IF R.ret THEN "solve:true-but-unsatisfiable" ELSE "solve:false-but-satisfiable")
    ELSE IF ~R.ret THEN "ok"
    ELSE IF \E k \in Keys : FactOf(MSet, k) = {} /\ R.ty[k] # "none"
         THEN "solve:reports-a-fact-that-is-not-common-to-all-solutions"
    ELSE IF \E k \in Keys : FactOf(MSet, k) # {} /\ R.ty[k] = "none"
         THEN "solve:misses-a-fact-common-to-all-solutions"
    ELSE IF \E k \in Keys : FactOf(MSet, k) # {} /\
                (R.ty[k] # R.kinds[k] \/ {SlotVal(k)} # FactOf(MSet, k))
         THEN "solve:wrong-value-or-type-for-a-decided-key"
    ELSE "ok"

Report == t = 0 \/ PrintT(ToJson([t |-> R.t, verdict |-> Verdict,
                         nsolve |-> Cardinality(SolveSteps)]))
=============================================================================
