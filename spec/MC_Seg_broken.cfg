CONSTANTS
  H = 2
  W = 3
SPECIFICATION SpecBroken
INVARIANT Inv
CHECK_DEADLOCK FALSE
