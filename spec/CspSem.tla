------------------------------- MODULE CspSem -------------------------------
(***************************************************************************)
(* Meaning of cspuz constraint programs.                                   *)
(*                                                                         *)
(* A *tree* is a record shaped like the JSON the harness exports from a    *)
(* cspuz expression (harness/export.py) or like the "semantic tree" a      *)
(* driver attaches to say what it meant:                                   *)
(*   [op |-> "VAR", id |-> k]            variable number k (0-based)       *)
(*   [op |-> "INT", val |-> n]           integer constant / Python int     *)
(*   [op |-> "BOOL", val |-> b]          boolean constant / Python bool    *)
(*   [op |-> "HOLE"]                     None (only inside GRAPH_DIVISION) *)
(*   [op |-> <name>, args |-> <<...>>]   operator node                     *)
(* A *program* is [vars |-> Seq([kind,lo,hi]), cons |-> Seq(tree)].        *)
(* Values are TLA+ integers and booleans; an assignment is a sequence of   *)
(* values indexed by variable number + 1.                                  *)
(***************************************************************************)
EXTENDS Integers, Sequences, FiniteSets, TLC

IntOps  == {"INT", "NEG", "ADD", "SUB", "IF", "COUNT"}
CmpOps  == {"EQ", "NE", "LE", "LT", "GE", "GT"}
BoolBin == {"IFF", "XOR", "IMP"}
GraphOps == {"GRAPH_ACTIVE_VERTICES_CONNECTED", "GRAPH_DIVISION"}

Dom(v) == IF v.kind = "bool" THEN BOOLEAN ELSE v.lo .. v.hi

-----------------------------------------------------------------------------
(* Typing.  "int" | "bool" | "hole" | "ill".  Evaluated before Eval so that *)
(* an ill-typed tree is a reported verdict, never a TLC evaluation error.  *)

RECURSIVE Type(_, _)
AllType(args, vars, t) == \A i \in DOMAIN args : Type(args[i], vars) = t

GraphConnShape(e, vars) ==
    /\ Len(e.args) >= 2
    /\ e.args[1].op = "INT" /\ e.args[2].op = "INT"
    /\ LET n == e.args[1].val  m == e.args[2].val IN
       /\ n >= 0 /\ m >= 0 /\ Len(e.args) = 2 + n + 2 * m
       /\ \A i \in 3 .. 2 + n : Type(e.args[i], vars) = "bool"
       /\ \A i \in 3 + n .. 2 + n + 2 * m :
            e.args[i].op = "INT" /\ e.args[i].val \in 0 .. n - 1

GraphDivShape(e, vars) ==
    /\ Len(e.args) >= 2
    /\ e.args[1].op = "INT" /\ e.args[2].op = "INT"
    /\ LET n == e.args[1].val  m == e.args[2].val IN
       /\ n >= 0 /\ m >= 0 /\ Len(e.args) = 2 + n + 3 * m
       /\ \A i \in 3 .. 2 + n : Type(e.args[i], vars) \in {"int", "hole"}
       /\ \A i \in 3 + n .. 2 + n + 2 * m :
            e.args[i].op = "INT" /\ e.args[i].val \in 0 .. n - 1
       /\ \A i \in 3 + n + 2 * m .. 2 + n + 3 * m : Type(e.args[i], vars) = "bool"

Type(e, vars) ==
    CASE e.op = "VAR"  -> IF e.id + 1 \in DOMAIN vars THEN vars[e.id + 1].kind ELSE "ill"
      [] e.op = "INT"  -> "int"
      [] e.op = "BOOL" -> "bool"
      [] e.op = "HOLE" -> "hole"
      [] e.op = "NEG"  -> IF Len(e.args) = 1 /\ AllType(e.args, vars, "int") THEN "int" ELSE "ill"
      [] e.op \in {"ADD", "SUB"} ->
            IF Len(e.args) >= 1 /\ AllType(e.args, vars, "int") THEN "int" ELSE "ill"
      [] e.op = "COUNT" -> IF AllType(e.args, vars, "bool") THEN "int" ELSE "ill"
      [] e.op = "IF"   ->
            IF Len(e.args) = 3 /\ Type(e.args[1], vars) = "bool"
               /\ Type(e.args[2], vars) = "int" /\ Type(e.args[3], vars) = "int"
            THEN "int" ELSE "ill"
      [] e.op \in CmpOps ->
            IF Len(e.args) = 2 /\ AllType(e.args, vars, "int") THEN "bool" ELSE "ill"
      [] e.op = "NOT"  -> IF Len(e.args) = 1 /\ AllType(e.args, vars, "bool") THEN "bool" ELSE "ill"
      [] e.op \in {"AND", "OR"} -> IF AllType(e.args, vars, "bool") THEN "bool" ELSE "ill"
      [] e.op \in BoolBin ->
            IF Len(e.args) = 2 /\ AllType(e.args, vars, "bool") THEN "bool" ELSE "ill"
      [] e.op = "ALLDIFF" -> IF AllType(e.args, vars, "int") THEN "bool" ELSE "ill"
      [] e.op = "GRAPH_ACTIVE_VERTICES_CONNECTED" ->
            IF GraphConnShape(e, vars) THEN "bool" ELSE "ill"
      [] e.op = "GRAPH_DIVISION" -> IF GraphDivShape(e, vars) THEN "bool" ELSE "ill"
      [] OTHER -> "ill"

-----------------------------------------------------------------------------
(* Graph-theoretic meaning of the two native operators.                    *)

RECURSIVE Closure(_, _, _)
(* least set containing R, inside S, closed under the symmetric relation adj *)
Closure(S, adj(_, _), R) ==
    LET N == {v \in S \ R : \E u \in R : adj(u, v)}
    IN  IF N = {} THEN R ELSE Closure(S, adj, R \cup N)

ConnectedBy(S, adj(_, _)) ==
    S = {} \/ Closure(S, adj, {CHOOSE r \in S : TRUE}) = S

-----------------------------------------------------------------------------
(* Evaluation.                                                             *)

RECURSIVE SumSeq(_)
SumSeq(s) == IF s = <<>> THEN 0 ELSE Head(s) + SumSeq(Tail(s))

RECURSIVE Eval(_, _)

EvalArgs(e, a) == [i \in DOMAIN e.args |-> Eval(e.args[i], a)]

EvalGraphConn(e, a) ==
    LET n == e.args[1].val
        m == e.args[2].val
        act == {v \in 0 .. n - 1 : Eval(e.args[3 + v], a)}
        EU(j) == e.args[2 + n + 2 * j - 1].val
        EV(j) == e.args[2 + n + 2 * j].val
        adj(u, v) == \E j \in 1 .. m : (EU(j) = u /\ EV(j) = v) \/ (EU(j) = v /\ EV(j) = u)
    IN  ConnectedBy(act, adj)

(* graph-division: sizes (holes allowed), edges, borders.  The blocks are  *)
(* the components left after cutting the border edges; every border edge   *)
(* must separate two different blocks; a vertex with a size lies in a      *)
(* block of exactly that size.                                             *)
EvalGraphDiv(e, a) ==
    LET n == e.args[1].val
        m == e.args[2].val
        EU(j) == e.args[2 + n + 2 * j - 1].val
        EV(j) == e.args[2 + n + 2 * j].val
        border(j) == Eval(e.args[2 + n + 2 * m + j], a)
        adj(u, v) == \E j \in 1 .. m :
                        ~border(j) /\ ((EU(j) = u /\ EV(j) = v) \/ (EU(j) = v /\ EV(j) = u))
        V == 0 .. n - 1
        block(v) == Closure(V, adj, {v})
    IN  /\ \A j \in 1 .. m : border(j) => EV(j) \notin block(EU(j))
        /\ \A v \in V : e.args[3 + v].op # "HOLE" =>
                           Cardinality(block(v)) = Eval(e.args[3 + v], a)

Eval(e, a) ==
    CASE e.op = "VAR"  -> a[e.id + 1]
      [] e.op \in {"INT", "BOOL"} -> e.val
      [] e.op = "NEG"  -> 0 - Eval(e.args[1], a)
      [] e.op = "ADD"  -> SumSeq(EvalArgs(e, a))
      [] e.op = "SUB"  -> Eval(e.args[1], a) - SumSeq(Tail(EvalArgs(e, a)))
      [] e.op = "COUNT" -> Cardinality({i \in DOMAIN e.args : Eval(e.args[i], a)})
      [] e.op = "IF"   -> IF Eval(e.args[1], a) THEN Eval(e.args[2], a) ELSE Eval(e.args[3], a)
      [] e.op = "EQ"   -> Eval(e.args[1], a) = Eval(e.args[2], a)
      [] e.op = "NE"   -> Eval(e.args[1], a) # Eval(e.args[2], a)
      [] e.op = "LE"   -> Eval(e.args[1], a) <= Eval(e.args[2], a)
      [] e.op = "LT"   -> Eval(e.args[1], a) < Eval(e.args[2], a)
      [] e.op = "GE"   -> Eval(e.args[1], a) >= Eval(e.args[2], a)
      [] e.op = "GT"   -> Eval(e.args[1], a) > Eval(e.args[2], a)
      [] e.op = "NOT"  -> ~Eval(e.args[1], a)
      [] e.op = "AND"  -> \A i \in DOMAIN e.args : Eval(e.args[i], a)
      [] e.op = "OR"   -> \E i \in DOMAIN e.args : Eval(e.args[i], a)
      [] e.op = "IFF"  -> Eval(e.args[1], a) <=> Eval(e.args[2], a)
      [] e.op = "XOR"  -> ~(Eval(e.args[1], a) <=> Eval(e.args[2], a))
      [] e.op = "IMP"  -> Eval(e.args[1], a) => Eval(e.args[2], a)
      [] e.op = "ALLDIFF" ->
            \A i, j \in DOMAIN e.args : i < j => Eval(e.args[i], a) # Eval(e.args[j], a)
      [] e.op = "GRAPH_ACTIVE_VERTICES_CONNECTED" -> EvalGraphConn(e, a)
      [] e.op = "GRAPH_DIVISION" -> EvalGraphDiv(e, a)

-----------------------------------------------------------------------------
(* Variables mentioned; highest variable number (-1 if none).              *)

RECURSIVE MaxVar(_)
MaxVar(e) ==
    IF e.op = "VAR" THEN e.id
    ELSE IF e.op \in {"INT", "BOOL", "HOLE"} THEN -1
    ELSE LET ms == {MaxVar(e.args[i]) : i \in DOMAIN e.args} \cup {-1}
         IN  CHOOSE x \in ms : \A y \in ms : y <= x

WellTyped(p) == \A i \in DOMAIN p.cons : Type(p.cons[i], p.vars) = "bool"

-----------------------------------------------------------------------------
(* Models, satisfiability, facts.  Variables are assigned in declaration   *)
(* order and a constraint is checked as soon as its highest variable has a *)
(* value, so unsatisfiable prefixes are pruned.                            *)

ConsAt(p, mv, k) == {i \in DOMAIN p.cons : mv[i] = k - 1}

RECURSIVE ModelsFrom(_, _, _, _)
ModelsFrom(p, mv, k, a) ==
    IF k > Len(p.vars) THEN {a}
    ELSE UNION { LET a2 == Append(a, x) IN
                 IF \A i \in ConsAt(p, mv, k) : Eval(p.cons[i], a2)
                 THEN ModelsFrom(p, mv, k + 1, a2) ELSE {}
               : x \in Dom(p.vars[k]) }

RECURSIVE SatFrom(_, _, _, _)
SatFrom(p, mv, k, a) ==
    IF k > Len(p.vars) THEN TRUE
    ELSE \E x \in Dom(p.vars[k]) :
            LET a2 == Append(a, x) IN
            /\ \A i \in ConsAt(p, mv, k) : Eval(p.cons[i], a2)
            /\ SatFrom(p, mv, k + 1, a2)

MaxVars(p) == [i \in DOMAIN p.cons |-> MaxVar(p.cons[i])]
GroundOK(p, mv) == \A i \in DOMAIN p.cons : mv[i] = -1 => Eval(p.cons[i], <<>>)

Models(p) == LET mv == MaxVars(p) IN
             IF GroundOK(p, mv) THEN ModelsFrom(p, mv, 1, <<>>) ELSE {}
Sat(p)    == LET mv == MaxVars(p) IN GroundOK(p, mv) /\ SatFrom(p, mv, 1, <<>>)

IsModel(p, a) ==
    /\ Len(a) = Len(p.vars)
    /\ \A k \in DOMAIN p.vars : a[k] \in Dom(p.vars[k])
    /\ \A i \in DOMAIN p.cons : Eval(p.cons[i], a)

(* Facts as optional values: {} = undecided, {v} = decided. *)
FactOf(M, k) == IF \E x \in {m[k] : m \in M} : \A m \in M : m[k] = x
                THEN {(CHOOSE m \in M : TRUE)[k]} ELSE {}

=============================================================================
