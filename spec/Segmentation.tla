------------------------------ MODULE Segmentation ------------------------------
(***************************************************************************)
(* SegmentationBuilder2D as a transition system (C18).                     *)
(* A value is a set of blocks; a block is a set of cells 0..H*W-1          *)
(* (cell = y*W + x).  The builder proposes three kinds of update:          *)
(*   Merge two adjacent blocks, Split one block in two connected parts,    *)
(*   Move one cell to an adjacent block (without disconnecting its block). *)
(* Split is specified as ANY bipartition into connected parts - a superset *)
(* of the two-seed Voronoi splits the code draws at random (VoronoiOK      *)
(* shows those are always connected).                                      *)
(***************************************************************************)
EXTENDS SegDefs, TLC

CONSTANTS H, W
Cells == 0 .. H * W - 1
Adj(c, d) == AdjP(W, c, d)
Conn(B) == ConnP(W, B)
BlocksAdj(A, B) == \E a \in A, b \in B : Adj(a, b)

Bounds == [minB : 1 .. H * W, maxB : 1 .. H * W, minS : 1 .. H * W, maxS : 1 .. H * W]
Valid(Q, b) == ValidP(H, W, Q, b)

VARIABLES P, bnd
vars == <<P, bnd>>

Merge(A, B) ==
    /\ A \in P /\ B \in P /\ A # B /\ BlocksAdj(A, B)
    /\ Cardinality(P) > bnd.minB
    /\ Cardinality(A) + Cardinality(B) <= bnd.maxS
    /\ P' = (P \ {A, B}) \cup {A \cup B} /\ UNCHANGED bnd

Split(A, A1) ==
    /\ A \in P /\ A1 \subseteq A /\ A1 # {} /\ A1 # A
    /\ Cardinality(P) < bnd.maxB
    /\ Conn(A1) /\ Conn(A \ A1)
    /\ Cardinality(A1) >= bnd.minS /\ Cardinality(A \ A1) >= bnd.minS
    /\ P' = (P \ {A}) \cup {A1, A \ A1} /\ UNCHANGED bnd

Move(c, A, B) ==
    /\ A \in P /\ B \in P /\ A # B /\ c \in A
    /\ \E d \in B : Adj(c, d)
    /\ Cardinality(A) > bnd.minS /\ Cardinality(B) < bnd.maxS
    /\ Conn(A \ {c})                              \* the articulation guard
    /\ P' = (P \ {A, B}) \cup {A \ {c}, B \cup {c}} /\ UNCHANGED bnd

(* the same Move without the articulation guard: used to show that the invariant detects its absence *)
MoveUnguarded(c, A, B) ==
    /\ A \in P /\ B \in P /\ A # B /\ c \in A
    /\ \E d \in B : Adj(c, d)
    /\ Cardinality(A) > bnd.minS /\ Cardinality(B) < bnd.maxS
    /\ P' = (P \ {A, B}) \cup {A \ {c}, B \cup {c}} /\ UNCHANGED bnd

Next == \/ \E A, B \in P : Merge(A, B)
        \/ \E A \in P : \E A1 \in SUBSET A : Split(A, A1)
        \/ \E A, B \in P : \E c \in A : Move(c, A, B)
NextBroken == Next \/ \E A, B \in P : \E c \in A : MoveUnguarded(c, A, B)

Inv == Valid(P, bnd)

(* two-seed Voronoi split inside a connected block (geodesic distances, ties to the first seed) *)
RECURSIVE Dist(_, _, _, _)
Dist(B, front, seen, k) ==     \* function cell -> distance, built breadth-first
    IF front = {} THEN [c \in {} |-> 0]
    ELSE LET nxt == {d \in B \ seen : \E c \in front : Adj(c, d)} IN
         [c \in front |-> k] @@ Dist(B, nxt, seen \cup nxt, k + 1)
VoronoiA(B, sa, sb) == LET da == Dist(B, {sa}, {sa}, 0)  db == Dist(B, {sb}, {sb}, 0) IN {c \in B : da[c] <= db[c]}
VoronoiOK == \A B \in SUBSET Cells : Conn(B) /\ Cardinality(B) >= 2 =>
                \A sa, sb \in B : sa # sb => Conn(VoronoiA(B, sa, sb)) /\ Conn(B \ VoronoiA(B, sa, sb))
=============================================================================
