------------------------------ MODULE Serializer ------------------------------
(***************************************************************************)
(* Transcription of the combinators of cspuz.problem_serializer (C15).     *)
(* State of a (de)serialization = a cursor: items consumed + text produced *)
(* / characters consumed + items produced, threaded through nested         *)
(* combinators.  A term is a record [c |-> name, ...parameters].           *)
(*   Ser(term, env, data, idx)  -> [ok, n, text]   n = items consumed      *)
(*   Des(term, env, text, pos)  -> [ok, n, items]  n = characters consumed *)
(* pos / idx are 0-based as in the code; text is a TLC string.             *)
(* Leaves of data are integers; lists and tuples are sequences.            *)
(***************************************************************************)
EXTENDS Integers, Sequences, FiniteSets, TLC

B36 == "0123456789abcdefghijklmnopqrstuvwxyz"
Ch(s, i)   == SubSeq(s, i + 1, i + 1)               \* character at 0-based position i
D36(n)     == SubSeq(B36, n + 1, n + 1)
IsAlnum(c) == \E i \in 0 .. 35 : D36(i) = c
IsHexCh(c) == \E i \in 0 .. 15 : D36(i) = c
IsDigit(c) == \E i \in 0 .. 9 : D36(i) = c
Val36(c)   == CHOOSE i \in 0 .. 35 : D36(i) = c

RECURSIVE ToBase(_, _)
ToBase(n, b) == IF n < b THEN D36(n) ELSE ToBase(n \div b, b) \o D36(n % b)
RECURSIVE FromBase(_, _)
FromBase(s, b) == IF s = "" THEN 0 ELSE FromBase(SubSeq(s, 1, Len(s) - 1), b) * b + Val36(SubSeq(s, Len(s), Len(s)))
AllIn(s, P(_)) == \A i \in 1 .. Len(s) : P(SubSeq(s, i, i))

NoSer == [ok |-> FALSE, n |-> 0, text |-> ""]
NoDes == [ok |-> FALSE, n |-> 0, items |-> <<>>]
SerOK(n, t)  == [ok |-> TRUE, n |-> n, text |-> t]
DesOK(n, xs) == [ok |-> TRUE, n |-> n, items |-> xs]

Rep(x, k) == [i \in 1 .. k |-> x]
Min2(a, b) == IF a < b THEN a ELSE b

(* length of the run of `space` starting at 0-based idx, capped *)
RECURSIVE Run(_, _, _, _)
Run(data, idx, space, cap) ==
    IF cap = 0 \/ idx >= Len(data) \/ data[idx + 1] # space THEN 0 ELSE 1 + Run(data, idx + 1, space, cap - 1)

RECURSIVE Ser(_, _, _, _), Des(_, _, _, _), SerSeq(_, _, _, _, _, _), DesSeq(_, _, _, _, _, _),
          SerTupl(_, _, _, _), DesTupl(_, _, _, _, _, _)

(* ---- Rooms helpers (env.height x env.width board, rooms = sequences of <<y, x>>) ---- *)
RoomOf(rooms, y, x) == CHOOSE i \in DOMAIN rooms : \E j \in DOMAIN rooms[i] : rooms[i][j] = <<y, x>>
ValidRooms(rooms, h, w) ==
    /\ \A i \in DOMAIN rooms : \A j \in DOMAIN rooms[i] :
          rooms[i][j][1] \in 0 .. h - 1 /\ rooms[i][j][2] \in 0 .. w - 1
    /\ \A y \in 0 .. h - 1, x \in 0 .. w - 1 :
          Cardinality({<<i, j>> \in UNION {{<<i, j>> : j \in DOMAIN rooms[i]} : i \in DOMAIN rooms} : rooms[i][j] = <<y, x>>}) = 1
BorderV(rooms, h, w) == [y \in 1 .. h |-> [x \in 1 .. w - 1 |->
                            IF RoomOf(rooms, y - 1, x - 1) # RoomOf(rooms, y - 1, x) THEN 1 ELSE 0]]
BorderH(rooms, h, w) == [y \in 1 .. h - 1 |-> [x \in 1 .. w |->
                            IF RoomOf(rooms, y - 1, x - 1) # RoomOf(rooms, y, x - 1) THEN 1 ELSE 0]]
BorderTerm(h, w) ==
    [c |-> "Tupl", elems |-> << [c |-> "Grid", base |-> [c |-> "MultiDigit", radix |-> 2, digits |-> 5], h |-> h, w |-> w - 1, fixed |-> TRUE],
                                [c |-> "Grid", base |-> [c |-> "MultiDigit", radix |-> 2, digits |-> 5], h |-> h - 1, w |-> w, fixed |-> TRUE] >>]
(* flood fill of the cells not separated by a border *)
CellAdj(vert, horiz, h, w, p, q) ==
    \/ (p[1] = q[1] /\ q[2] = p[2] + 1 /\ vert[p[1] + 1][p[2] + 1] = 0)
    \/ (p[1] = q[1] /\ p[2] = q[2] + 1 /\ vert[q[1] + 1][q[2] + 1] = 0)
    \/ (p[2] = q[2] /\ q[1] = p[1] + 1 /\ horiz[p[1] + 1][p[2] + 1] = 0)
    \/ (p[2] = q[2] /\ p[1] = q[1] + 1 /\ horiz[q[1] + 1][q[2] + 1] = 0)
RECURSIVE Fill(_, _, _, _, _)
Fill(vert, horiz, h, w, R) ==
    LET cells == (0 .. h - 1) \X (0 .. w - 1)
        N == {q \in cells \ R : \E p \in R : CellAdj(vert, horiz, h, w, p, q)}
    IN  IF N = {} THEN R ELSE Fill(vert, horiz, h, w, R \cup N)
RowMajorSeq(S, w) ==      \* the cells of S in row-major order
    LET RECURSIVE Go(_)
        Go(T) == IF T = {} THEN <<>>
                 ELSE LET m == CHOOSE p \in T : \A q \in T : p[1] * w + p[2] <= q[1] * w + q[2]
                      IN <<m>> \o Go(T \ {m})
    IN Go(S)
RECURSIVE RoomsFrom(_, _, _, _, _)
RoomsFrom(vert, horiz, h, w, done) ==
    LET cells == (0 .. h - 1) \X (0 .. w - 1)  rest == cells \ done IN
    IF rest = {} THEN <<>>
    ELSE LET first == CHOOSE p \in rest : \A q \in rest : p[1] * w + p[2] <= q[1] * w + q[2]
             room == Fill(vert, horiz, h, w, {first})
         IN <<RowMajorSeq(room, w)>> \o RoomsFrom(vert, horiz, h, w, done \cup room)
Redundant(vert, horiz, h, w, rooms) ==
    \/ \E y \in 0 .. h - 2, x \in 0 .. w - 1 : horiz[y + 1][x + 1] = 1 /\ RoomOf(rooms, y, x) = RoomOf(rooms, y + 1, x)
    \/ \E y \in 0 .. h - 1, x \in 0 .. w - 2 : vert[y + 1][x + 1] = 1 /\ RoomOf(rooms, y, x) = RoomOf(rooms, y, x + 1)

(* sorted(zip(rooms, values), key = smallest cell of the room): the order deserialize numbers rooms in *)
PairLess(p, q) == p[1] < q[1] \/ (p[1] = q[1] /\ p[2] < q[2])
MinCell(room) == CHOOSE p \in {room[j] : j \in DOMAIN room} : \A q \in {room[j] : j \in DOMAIN room} : p = q \/ PairLess(p, q)
SortPairs(d) ==
    LET n == Len(d[1])
        Key(i, j) == PairLess(MinCell(d[1][i]), MinCell(d[1][j])) \/ (MinCell(d[1][i]) = MinCell(d[1][j]) /\ i < j)
        Rank(i) == Cardinality({j \in 1 .. n : Key(j, i)}) + 1
        At(r) == CHOOSE i \in 1 .. n : Rank(i) = r
    IN  << [r \in 1 .. n |-> d[1][At(r)]], [r \in 1 .. n |-> d[2][At(r)]] >>

(* ---- the combinators ---- *)
Ser(t, env, data, idx) ==
    CASE t.c = "FixStr" -> SerOK(0, t.s)
      [] t.c = "Dict" ->
            IF idx = Len(data) THEN NoSer
            ELSE LET hits == {i \in DOMAIN t.before : data[idx + 1] = t.before[i]} IN
                 IF hits = {} THEN NoSer ELSE SerOK(1, t.after[CHOOSE i \in hits : \A j \in hits : i <= j])
      [] t.c = "Spaces" ->
            IF idx = Len(data) \/ data[idx + 1] # t.space THEN NoSer
            ELSE LET off == Val36(t.smallest) - 1
                     k == Run(data, idx, t.space, 35 - off)
                 IN SerOK(k, D36(off + k))
      [] t.c = "DecInt" ->
            IF idx = Len(data) \/ data[idx + 1] < 0 THEN NoSer ELSE SerOK(1, ToBase(data[idx + 1], 10))
      [] t.c = "HexInt" ->
            IF idx = Len(data) THEN NoSer
            ELSE LET v == data[idx + 1] IN
                 IF v < 0 \/ v > 4095 THEN NoSer
                 ELSE SerOK(1, (IF v >= 256 THEN "+" ELSE IF v >= 16 THEN "-" ELSE "") \o ToBase(v, 16))
      [] t.c = "IntSpaces" ->
            IF idx = Len(data) THEN NoSer
            ELSE LET v == data[idx + 1] IN
                 IF v < 0 \/ v > t.max_int THEN NoSer
                 ELSE LET k == Run(data, idx + 1, t.space, t.max_spaces) IN
                      SerOK(1 + k, D36(k * (t.max_int + 1) + v))
      [] t.c = "MultiDigit" ->
            IF idx = Len(data) THEN NoSer
            ELSE LET avail == Min2(Len(data) - idx, t.digits)
                     RECURSIVE Pack(_, _)
                     Pack(i, acc) == IF i = t.digits THEN acc
                                     ELSE Pack(i + 1, acc * t.radix + (IF i < avail THEN data[idx + i + 1] ELSE 0))
                 IN IF \E i \in 0 .. avail - 1 : data[idx + i + 1] < 0 \/ data[idx + i + 1] >= t.radix THEN NoSer
                    ELSE SerOK(avail, D36(Pack(0, 0)))
      [] t.c = "OneOf" ->
            LET ok == {i \in DOMAIN t.choices : Ser(t.choices[i], env, data, idx).ok} IN
            IF ok = {} THEN NoSer ELSE Ser(t.choices[CHOOSE i \in ok : \A j \in ok : i <= j], env, data, idx)
      [] t.c = "Tupl" ->
            IF idx = Len(data) \/ Len(data[idx + 1]) # Len(t.elems) THEN NoSer
            ELSE SerTupl(t, env, data[idx + 1], 1)
      [] t.c = "Seq" ->
            IF idx = Len(data) THEN NoSer ELSE SerSeq(t.base, env, data[idx + 1], 0, t.n, "")
      [] t.c = "Grid" ->
            IF idx = Len(data) THEN NoSer
            ELSE LET h == IF t.fixed THEN t.h ELSE env.h
                     w == IF t.fixed THEN t.w ELSE env.w
                     d == data[idx + 1]
                     RECURSIVE Flat(_)
                     Flat(y) == IF y > h THEN <<>> ELSE d[y] \o Flat(y + 1)
                 IN IF Len(d) < h THEN NoSer          \* (the code would raise IndexError)
                    ELSE SerSeq(t.base, env, Flat(1), 0, h * w, "")
      [] t.c = "Rooms" ->
            IF idx = Len(data) \/ ~ValidRooms(data[idx + 1], env.h, env.w) THEN NoSer
            ELSE Ser(BorderTerm(env.h, env.w), env,
                     << << <<BorderV(data[idx + 1], env.h, env.w)>>, <<BorderH(data[idx + 1], env.h, env.w)>> >> >>, 0)
      [] t.c = "ValuedRooms" ->
            IF idx = Len(data) THEN NoSer
            ELSE LET d == SortPairs(data[idx + 1])        \* sorted(zip(rooms, values))
                     r1 == Ser([c |-> "Rooms"], env, <<d[1]>>, 0)
                     r2 == Ser([c |-> "Seq", base |-> t.value, n |-> Len(d[1])], env, <<d[2]>>, 0)
                 IN IF r1.ok /\ r2.ok THEN SerOK(1, r1.text \o r2.text) ELSE NoSer

SerTupl(t, env, d, i) ==
    IF i > Len(t.elems) THEN SerOK(1, "")
    ELSE LET r == Ser(t.elems[i], env, d[i], 0) IN
         IF ~r.ok THEN NoSer
         ELSE LET rest == SerTupl(t, env, d, i + 1) IN
              IF rest.ok THEN SerOK(1, r.text \o rest.text) ELSE NoSer

(* the loop of Seq.serialize: consume items until exactly n are read *)
SerSeq(base, env, d, nread, n, acc) ==
    IF nread = n THEN SerOK(1, acc)
    ELSE IF nread > n THEN NoSer                       \* the code asserts n_read == n
    ELSE LET r == Ser(base, env, d, nread) IN
         IF ~r.ok \/ r.n = 0 THEN NoSer ELSE SerSeq(base, env, d, nread + r.n, n, acc \o r.text)

Des(t, env, s, pos) ==
    CASE t.c = "FixStr" ->
            IF pos + Len(t.s) <= Len(s) /\ SubSeq(s, pos + 1, pos + Len(t.s)) = t.s THEN DesOK(Len(t.s), <<>>) ELSE NoDes
      [] t.c = "Dict" ->
            IF pos = Len(s) THEN NoDes
            ELSE LET hits == {i \in DOMAIN t.after : pos + Len(t.after[i]) <= Len(s) /\
                                                     SubSeq(s, pos + 1, pos + Len(t.after[i])) = t.after[i]} IN
                 IF hits = {} THEN NoDes
                 ELSE LET i == CHOOSE i \in hits : \A j \in hits : i <= j IN DesOK(Len(t.after[i]), <<t.before[i]>>)
      [] t.c = "Spaces" ->
            IF pos = Len(s) \/ ~IsAlnum(Ch(s, pos)) THEN NoDes
            ELSE LET off == Val36(t.smallest) - 1  i == Val36(Ch(s, pos)) IN
                 IF i > off THEN DesOK(1, Rep(t.space, i - off)) ELSE NoDes
      [] t.c = "DecInt" ->
            LET RECURSIVE ND(_)
                ND(k) == IF pos + k < Len(s) /\ IsDigit(Ch(s, pos + k)) THEN ND(k + 1) ELSE k
                k == ND(0)
            IN IF pos = Len(s) \/ k = 0 THEN NoDes ELSE DesOK(k, <<FromBase(SubSeq(s, pos + 1, pos + k), 10)>>)
      [] t.c = "HexInt" ->
            IF pos = Len(s) THEN NoDes
            ELSE LET c == Ch(s, pos) IN
                 IF c = "-" THEN (IF pos + 3 > Len(s) \/ ~AllIn(SubSeq(s, pos + 2, pos + 3), IsHexCh) THEN NoDes
                                  ELSE DesOK(3, <<FromBase(SubSeq(s, pos + 2, pos + 3), 16)>>))
                 ELSE IF c = "+" THEN (IF pos + 4 > Len(s) \/ ~AllIn(SubSeq(s, pos + 2, pos + 4), IsHexCh) THEN NoDes
                                       ELSE DesOK(4, <<FromBase(SubSeq(s, pos + 2, pos + 4), 16)>>))
                 ELSE IF IsHexCh(c) THEN DesOK(1, <<Val36(c)>>) ELSE NoDes
      [] t.c = "IntSpaces" ->
            IF pos = Len(s) \/ ~IsAlnum(Ch(s, pos)) THEN NoDes
            ELSE LET n == Val36(Ch(s, pos)) IN
                 IF n >= (t.max_int + 1) * (t.max_spaces + 1) THEN NoDes
                 ELSE DesOK(1, <<n % (t.max_int + 1)>> \o Rep(t.space, n \div (t.max_int + 1)))
      [] t.c = "MultiDigit" ->
            IF pos = Len(s) \/ ~IsAlnum(Ch(s, pos)) THEN NoDes
            ELSE LET v == Val36(Ch(s, pos)) IN
                 IF v >= t.radix ^ t.digits THEN NoDes
                 ELSE DesOK(1, [i \in 1 .. t.digits |-> (v \div (t.radix ^ (t.digits - i))) % t.radix])
      [] t.c = "OneOf" ->
            LET ok == {i \in DOMAIN t.choices : Des(t.choices[i], env, s, pos).ok} IN
            IF ok = {} THEN NoDes ELSE Des(t.choices[CHOOSE i \in ok : \A j \in ok : i <= j], env, s, pos)
      [] t.c = "Tupl" -> DesTupl(t, env, s, pos, 1, 0)
      [] t.c = "Seq" -> DesSeq(t.base, env, s, pos, t.n, <<>>)
      [] t.c = "Grid" ->
            LET h == IF t.fixed THEN t.h ELSE env.h
                w == IF t.fixed THEN t.w ELSE env.w
                r == DesSeq(t.base, env, s, pos, h * w, <<>>)
            IN IF ~r.ok THEN NoDes
               ELSE DesOK(r.n, << [y \in 1 .. h |-> [x \in 1 .. w |-> r.items[1][(y - 1) * w + x]]] >>)
      [] t.c = "Rooms" ->
            LET r == Des(BorderTerm(env.h, env.w), env, s, pos) IN
            IF ~r.ok THEN NoDes
            ELSE LET vert == r.items[1][1][1]  horiz == r.items[1][2][1]
                     rooms == RoomsFrom(vert, horiz, env.h, env.w, {})
                 IN IF Redundant(vert, horiz, env.h, env.w, rooms) THEN NoDes ELSE DesOK(r.n, <<rooms>>)
      [] t.c = "ValuedRooms" ->
            LET r1 == Des([c |-> "Rooms"], env, s, pos) IN
            IF ~r1.ok THEN NoDes
            ELSE LET r2 == Des([c |-> "Seq", base |-> t.value, n |-> Len(r1.items[1])], env, s, pos + r1.n) IN
                 IF ~r2.ok THEN NoDes ELSE DesOK(r1.n + r2.n, << <<r1.items[1], r2.items[1]>> >>)

DesTupl(t, env, s, pos, i, ofs) ==
    IF i > Len(t.elems) THEN DesOK(ofs, << <<>> >>)
    ELSE LET r == Des(t.elems[i], env, s, pos + ofs) IN
         IF ~r.ok THEN NoDes
         ELSE LET rest == DesTupl(t, env, s, pos, i + 1, ofs + r.n) IN
              IF rest.ok THEN DesOK(rest.n, << <<r.items>> \o rest.items[1] >>) ELSE NoDes

(* the loop of Seq.deserialize: read items until at least n are produced, keep the first n *)
DesSeq(base, env, s, pos, n, acc) ==
    IF Len(acc) >= n THEN DesOK(0, <<SubSeq(acc, 1, n)>>)
    ELSE LET r == Des(base, env, s, pos) IN
         IF ~r.ok \/ (r.n = 0 /\ r.items = <<>>) THEN NoDes
         ELSE LET rest == DesSeq(base, env, s, pos + r.n, n, acc \o r.items) IN
              IF rest.ok THEN DesOK(r.n + rest.n, rest.items) ELSE NoDes

(* room partitions are recovered up to the ordering of rooms and of cells *)
RoomSet(rooms) == {{rooms[i][j] : j \in DOMAIN rooms[i]} : i \in DOMAIN rooms}
ValuedSet(d)   == {<<{d[1][i][j] : j \in DOMAIN d[1][i]}, d[2][i]>> : i \in DOMAIN d[1]}

(* C15 on the transcription: whatever is accepted round-trips and is consumed exactly *)
Same(t, a, b) == IF t.c = "Rooms" THEN RoomSet(a) = RoomSet(b)
                 ELSE IF t.c = "ValuedRooms" THEN ValuedSet(a) = ValuedSet(b) ELSE a = b
RoundTrips(t, env, v) ==
    LET r == Ser(t, env, <<v>>, 0) IN
    r.ok => LET d == Des(t, env, r.text, 0) IN d.ok /\ d.n = Len(r.text) /\ Len(d.items) = 1 /\ Same(t, d.items[1], v)
=============================================================================
