CONSTANTS
  VarTemplates = {}
  MaxDecl = 10
  MaxEnsure = 1
  MaxSolves = 2
  Pool <- MCPool
  InitDecl <- DeclA2
  ILitVals <- LitsA
  Rich = FALSE
  ExportDepth = 0
  Shard <- ShardEnv
  NShards <- NShardsEnv
INIT InitA
NEXT NextA
VIEW ViewA
INVARIANT ExportA
INVARIANT TypeOK
INVARIANT ResultsAreCorrect
INVARIANT SolveAgreesWithFind
CHECK_DEADLOCK FALSE
