----------------------------- MODULE Trace_Patterns -----------------------------
(* Definitional verdicts (GraphDefs) for explicitly listed activity patterns on larger grids: the bounded
   enumerations of MC_Graph stop at 4x4; long diagonal chains need 7x7 and more.  One record per pattern:
   [t, h, w, active (cell numbers)] -> NotAdj / NotSeg / Connected of the active set on the grid graph. *)
EXTENDS GraphDefs, Json, IOUtils
Recs == ndJsonDeserialize(IOEnv.TRACE_FILE)
VARIABLES shard, t
Init == shard \in 0 .. 63 /\ t = 0
Next == t = 0 /\ t' \in {i \in DOMAIN Recs : i % 64 = shard} /\ shard' = shard
R == Recs[t]
(* records with kind = "frame": [t, kind, h, w, cyc, active (segment numbers, 1-based, Lattice order)] -> the crossable
   loop / path verdict of C10 and the two returned point sets (as point-number lists) *)
RECURSIVE SortedInts(_)
SortedInts(S) == IF S = {} THEN <<>> ELSE LET m == CHOOSE x \in S : \A y \in S : x <= y IN <<m>> \o SortedInts(S \ {m})
IsFrame == "kind" \in DOMAIN R /\ R.kind = "frame"
Report == t = 0 \/
    IF IsFrame
    THEN LET g == TLCEval(Lattice(R.h, R.w))  A == {R.active[i] : i \in DOMAIN R.active} IN
         PrintT(ToJson([t |-> R.t, ok |-> Crossable(g, A, R.cyc),
                        passed |-> SortedInts(Touched(g, A)), cross |-> SortedInts({v \in V(g) : Deg(g, A, v) = 4})]))
    ELSE LET g == TLCEval(GridGraph(R.h, R.w))  S == {R.active[i] : i \in DOMAIN R.active} IN
         PrintT(ToJson([t |-> R.t, notadj |-> NotAdj(g, S), notseg |-> NotSeg(g, S), connected |-> Connected(g, S)]))
=============================================================================
