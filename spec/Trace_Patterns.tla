----------------------------- MODULE Trace_Patterns -----------------------------
(* Definitional verdicts (GraphDefs) for explicitly listed activity patterns on larger grids: the bounded
   enumerations of MC_Graph stop at 4x4; long diagonal chains need 7x7 and more.  One record per pattern:
   [t, h, w, active (cell numbers)] -> NotAdj / NotSeg / Connected of the active set on the grid graph. *)
EXTENDS GraphDefs, Json, IOUtils
Recs == ndJsonDeserialize(IOEnv.TRACE_FILE)
VARIABLES shard, t
Init == shard \in 0 .. 63 /\ t = 0
Next == t = 0 /\ t' \in {i \in DOMAIN Recs : i % 64 = shard} /\ shard' = shard
R == Recs[t]
(* records with kind = "frame": [t, kind, h, w, cyc, active (segment numbers, 1-based, Lattice order)] -> the crossable
   loop / path verdict of C10 and the two returned point sets (as point-number lists) *)
RECURSIVE SortedInts(_)
SortedInts(S) == IF S = {} THEN <<>> ELSE LET m == CHOOSE x \in S : \A y \in S : x <= y IN <<m>> \o SortedInts(S \ {m})
(* The same notions on a grid graph written with cell arithmetic and a frontier search: what GraphDefs defines by a
   closure over the edge list costs O(n^2 m) in TLC, too slow for the scale-up boards (289 - 300 cells).  GridAgree
   (checked by TLC for every record of at most 100 cells) ties them to the definitions. *)
Nbrs(h, w, c) == {d \in (IF c % w # 0 THEN {c - 1} ELSE {}) \cup (IF (c + 1) % w # 0 THEN {c + 1} ELSE {}) \cup {c - w, c + w} :
                    d >= 0 /\ d < h * w}       \* left and right only inside the row (no horizontal neighbour at all when w = 1)
RECURSIVE GrowGrid(_, _, _, _, _)
GrowGrid(h, w, S, Reached, Frontier) ==
    LET N == ((UNION {Nbrs(h, w, c) : c \in Frontier}) \cap S) \ Reached
    IN  IF N = {} THEN Reached ELSE GrowGrid(h, w, S, Reached \cup N, N)
ConnectedGrid(h, w, S) == S = {} \/ LET r == CHOOSE c \in S : TRUE IN GrowGrid(h, w, S, {r}, {r}) = S
InducedEdgesGrid(h, w, S) == Cardinality({c \in S : c % w # w - 1 /\ c + 1 \in S}) + Cardinality({c \in S : c + w \in S})
IsTreeGrid(h, w, S)  == S = {} \/ (ConnectedGrid(h, w, S) /\ InducedEdgesGrid(h, w, S) = Cardinality(S) - 1)
NotAdjGrid(h, w, S)  == InducedEdgesGrid(h, w, S) = 0
NotSegGrid(h, w, S)  == NotAdjGrid(h, w, S) /\ ConnectedGrid(h, w, (0 .. h * w - 1) \ S)
GridAgree == t = 0 \/ ("kind" \in DOMAIN R /\ R.kind # "grid") \/ R.h * R.w > 100 \/
    LET g == GridGraph(R.h, R.w)  S == {R.active[i] : i \in DOMAIN R.active} IN
    /\ ConnectedGrid(R.h, R.w, S) = Connected(g, S) /\ IsTreeGrid(R.h, R.w, S) = IsTree(g, S)
    /\ NotAdjGrid(R.h, R.w, S) = NotAdj(g, S) /\ NotSegGrid(R.h, R.w, S) = NotSeg(g, S)

Kind == IF "kind" \in DOMAIN R THEN R.kind ELSE "grid"
(* kind "grid" (default): [t, h, w, active (cell numbers)]                                   -> NotAdj / NotSeg / Connected / IsTree
   kind "frame": [t, h, w, cyc, active (segment numbers, 1-based, Lattice order)]            -> crossable verdict + point sets
   kind "div":   [t, h, w, labels (per cell), R, roots (per label: cell number or -1), allow_empty] -> DivOK
   kind "parts": [t, h, w, rgs (block id per cell), sizes (per cell, -1 = no size)]          -> Realisable *)
Report == t = 0 \/
    CASE Kind = "frame" ->
           LET g == TLCEval(Lattice(R.h, R.w))  A == {R.active[i] : i \in DOMAIN R.active} IN
           PrintT(ToJson([t |-> R.t, ok |-> Crossable(g, A, R.cyc),
                          passed |-> SortedInts(Touched(g, A)), cross |-> SortedInts({v \in V(g) : Deg(g, A, v) = 4})]))
      [] Kind = "div" ->
           LET g == TLCEval(GridGraph(R.h, R.w))
               lab == [v \in 0 .. g.n - 1 |-> R.labels[v + 1]]
               roots == [i \in DOMAIN R.roots |-> IF R.roots[i] < 0 THEN {} ELSE {R.roots[i]}] IN
           PrintT(ToJson([t |-> R.t, ok |->
               IF g.n > 100
               THEN /\ \A i \in 0 .. R.R - 1 : ConnectedGrid(R.h, R.w, {v \in 0 .. g.n - 1 : lab[v] = i})
                    /\ R.allow_empty \/ \A i \in 0 .. R.R - 1 : \E v \in 0 .. g.n - 1 : lab[v] = i
                    /\ \A i \in DOMAIN roots : roots[i] # {} => \A r \in roots[i] : lab[r] = i - 1
               ELSE DivOK(g, lab, R.R, roots, R.allow_empty)]))
      [] Kind = "parts" ->
           LET g == TLCEval(GridGraph(R.h, R.w))
               P == {{v \in 0 .. g.n - 1 : R.rgs[v + 1] = b} : b \in {R.rgs[i] : i \in DOMAIN R.rgs}}
               sz == [v \in 0 .. g.n - 1 |-> R.sizes[v + 1]] IN
           PrintT(ToJson([t |-> R.t, ok |-> (\A B \in P : IF g.n > 100 THEN ConnectedGrid(R.h, R.w, B) ELSE Connected(g, B)) /\
                                            \A v \in 0 .. g.n - 1 : sz[v] >= 0 =>
                                                \E B \in P : v \in B /\ Cardinality(B) = sz[v]]))
      [] OTHER ->
           LET S == {R.active[i] : i \in DOMAIN R.active} IN
           IF R.h * R.w > 100
           THEN PrintT(ToJson([t |-> R.t, notadj |-> NotAdjGrid(R.h, R.w, S), notseg |-> NotSegGrid(R.h, R.w, S),
                               connected |-> ConnectedGrid(R.h, R.w, S), tree |-> IsTreeGrid(R.h, R.w, S)]))
           ELSE LET g == TLCEval(GridGraph(R.h, R.w)) IN
                PrintT(ToJson([t |-> R.t, notadj |-> NotAdj(g, S), notseg |-> NotSeg(g, S), connected |-> Connected(g, S),
                               tree |-> IsTree(g, S)]))
=============================================================================
