----------------------------- MODULE Trace_Patterns -----------------------------
(* Definitional verdicts (GraphDefs) for explicitly listed activity patterns on larger grids: the bounded
   enumerations of MC_Graph stop at 4x4; long diagonal chains need 7x7 and more.  One record per pattern:
   [t, h, w, active (cell numbers)] -> NotAdj / NotSeg / Connected of the active set on the grid graph. *)
EXTENDS GraphDefs, Json, IOUtils
Recs == ndJsonDeserialize(IOEnv.TRACE_FILE)
VARIABLES shard, t
Init == shard \in 0 .. 63 /\ t = 0
Next == t = 0 /\ t' \in {i \in DOMAIN Recs : i % 64 = shard} /\ shard' = shard
R == Recs[t]
Report == t = 0 \/
    LET g == TLCEval(GridGraph(R.h, R.w))  S == {R.active[i] : i \in DOMAIN R.active} IN
    PrintT(ToJson([t |-> R.t, notadj |-> NotAdj(g, S), notseg |-> NotSeg(g, S), connected |-> Connected(g, S)]))
=============================================================================
