------------------------------- MODULE Indexing -------------------------------
(***************************************************************************)
(* Python nested-list indexing semantics for 1-D and 2-D arrays (C13).     *)
(* An index component is an integer or a slice with optional bounds:       *)
(*   [k |-> "i", i |-> n]                                                  *)
(*   [k |-> "s", hs, s, he, e, ht, t]   (hs: has start, s: start, ...)      *)
(* A result is [err, either, dims, idx]: IndexError or the row-major flat  *)
(* positions selected, with the dimensions of the result (<<>> = scalar).  *)
(* `either` marks the one case the list semantics leaves open (see Pair).  *)
(***************************************************************************)
EXTENDS Integers, Sequences

(* CPython PySlice_AdjustIndices: the positions selected by a slice from an axis of length len *)
SliceIdx(len, c) ==
    LET step == IF c.ht THEN c.t ELSE 1
        neg  == step < 0
        lo   == IF neg THEN -1 ELSE 0
        hi   == IF neg THEN len - 1 ELSE len
        fix(has, b, dflt) == IF ~has THEN dflt
                             ELSE IF b < 0 THEN (IF b + len < 0 THEN lo ELSE b + len)
                             ELSE IF b >= len THEN hi ELSE b
        s    == fix(c.hs, c.s, IF neg THEN len - 1 ELSE 0)
        e    == fix(c.he, c.e, IF neg THEN -1 ELSE len)
        cnt  == IF ~neg THEN (IF s < e THEN (e - s - 1) \div step + 1 ELSE 0)
                        ELSE (IF e < s THEN (s - e - 1) \div (0 - step) + 1 ELSE 0)
    IN  [i \in 1 .. cnt |-> s + (i - 1) * step]

IntOK(len, i)  == i >= 0 - len /\ i < len
IntIdx(len, i) == IF i < 0 THEN i + len ELSE i

Err     == [err |-> TRUE,  either |-> FALSE, dims |-> <<>>, idx |-> <<>>]
Res(d, x) == [err |-> FALSE, either |-> FALSE, dims |-> d, idx |-> x]

(* positions along one axis; for an integer a single position *)
AxisErr(len, c) == c.k = "i" /\ ~IntOK(len, c.i)
AxisIdx(len, c) == IF c.k = "i" THEN <<IntIdx(len, c.i)>> ELSE SliceIdx(len, c)

(* 1-D array of length n *)
Index1D(n, c) ==
    IF AxisErr(n, c) THEN Err
    ELSE IF c.k = "i" THEN Res(<<>>, AxisIdx(n, c))
    ELSE LET x == AxisIdx(n, c) IN Res(<<Len(x)>>, x)

(* 2-D array h x w, key (a, b): the row-major gather *)
Pair(h, w, a, b) ==
    IF AxisErr(h, a) THEN Err
    ELSE LET ys == AxisIdx(h, a) IN
         IF AxisErr(w, b)
         THEN (IF a.k = "s" /\ Len(ys) = 0
               THEN [Err EXCEPT !.either = TRUE]    \* [row[j] for row in rows[s]] with no row: nothing is indexed
               ELSE Err)
         ELSE LET xs == AxisIdx(w, b)
                  ny == Len(ys)  nx == Len(xs)
                  flat == [i \in 1 .. ny * nx |-> ys[(i - 1) \div nx + 1] * w + xs[((i - 1) % nx) + 1]]
              IN  IF a.k = "i" /\ b.k = "i" THEN Res(<<>>, flat)
                  ELSE IF a.k = "i" THEN Res(<<nx>>, flat)
                  ELSE IF b.k = "i" THEN Res(<<ny>>, flat)
                  ELSE Res(<<ny, nx>>, flat)

FullSlice == [k |-> "s", i |-> 0, hs |-> FALSE, s |-> 0, he |-> FALSE, e |-> 0, ht |-> FALSE, t |-> 0]
(* a[c] on a 2-D array: row c (1-D) for an integer, the rows c (2-D) for a slice *)
Single(h, w, c) == Pair(h, w, c, FullSlice)

(* a list of coordinate pairs: 1-D, in the given order *)
Coords(h, w, cs) ==
    IF \E i \in DOMAIN cs : ~IntOK(h, cs[i][1]) \/ ~IntOK(w, cs[i][2]) THEN Err
    ELSE Res(<<Len(cs)>>, [i \in DOMAIN cs |-> IntIdx(h, cs[i][1]) * w + IntIdx(w, cs[i][2])])

-----------------------------------------------------------------------------
(* Transcription of cspuz.array._parse_range / _range_size, for the design-level *)
(* comparison "where does the implementation's arithmetic differ from SliceIdx"  *)
Min2(a, b) == IF a < b THEN a ELSE b
Max2(a, b) == IF a > b THEN a ELSE b
ImplSlice(len, c) ==
    LET step  == IF c.ht THEN c.t ELSE 1
        start == IF ~c.hs THEN (IF step > 0 THEN 0 ELSE len - 1)
                 ELSE Min2(Max2(0, IF c.s < 0 THEN c.s + len ELSE c.s), len)
        stop  == IF ~c.he THEN (IF step > 0 THEN len ELSE -1)
                 ELSE Min2(Max2(0, IF c.e < 0 THEN c.e + len ELSE c.e), len)
        cnt   == IF step > 0 THEN (IF start >= stop THEN 0 ELSE (stop - start + step - 1) \div step)
                 ELSE (IF start <= stop THEN 0 ELSE (start - stop - step - 1) \div (0 - step))
    IN  [i \in 1 .. cnt |-> start + (i - 1) * step]
=============================================================================
