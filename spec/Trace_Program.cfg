CONSTANTS
  VarTemplates = {}
  MaxDecl = 1000
  MaxEnsure = 100000
  MaxSolves = 100000
  Pool <- NoPool
INIT TInit
NEXT TNext
INVARIANT Report
CHECK_DEADLOCK FALSE
