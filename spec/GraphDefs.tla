------------------------------ MODULE GraphDefs ------------------------------
(***************************************************************************)
(* Graph-theoretic definitions the graph-constraint properties (C04-C10)   *)
(* are stated in, written once.  A multigraph is                           *)
(*     [n |-> Nat, edges |-> Seq(<<u, v>>)]                                *)
(* with vertices 0..n-1 and edge ids 1..Len(edges); loop-free.             *)
(***************************************************************************)
EXTENDS Integers, Sequences, FiniteSets, TLC, TLCExt

V(G)       == 0 .. G.n - 1
E(G)       == 1 .. Len(G.edges)
Ends(G, e) == {G.edges[e][1], G.edges[e][2]}
Adj(G, u, v) == \E e \in E(G) : Ends(G, e) = {u, v}

RECURSIVE ReachV(_, _, _)          \* closure inside the induced subgraph G[S]
ReachV(G, S, R) ==
    LET N == {v \in S \ R : \E u \in R : Adj(G, u, v)}
    IN  IF N = {} THEN R ELSE ReachV(G, S, R \cup N)

Connected(G, S) == S = {} \/ ReachV(G, S, {CHOOSE r \in S : TRUE}) = S
Induced(G, S)   == {e \in E(G) : Ends(G, e) \subseteq S}
IsTree(G, S)    == S = {} \/ (Connected(G, S) /\ Cardinality(Induced(G, S)) = Cardinality(S) - 1)

Deg(G, A, v)  == Cardinality({e \in A : v \in Ends(G, e)})
Touched(G, A) == {v \in V(G) : Deg(G, A, v) > 0}

RECURSIVE ReachE(_, _, _)          \* closure using only the edges of A
ReachE(G, A, R) ==
    LET N == {v \in V(G) \ R : \E e \in A : v \in Ends(G, e) /\ Ends(G, e) \cap R # {}}
    IN  IF N = {} THEN R ELSE ReachE(G, A, R \cup N)

EdgeConn(G, A) == A = {} \/ ReachE(G, A, {CHOOSE r \in Touched(G, A) : TRUE}) = Touched(G, A)
Comps(G, A)    == {ReachE(G, A, {v}) : v \in V(G)}
Forest(G, A)   == Cardinality(A) = G.n - Cardinality(Comps(G, A))

SingleCycle(G, A) == A = {} \/ ((\A v \in V(G) : Deg(G, A, v) \in {0, 2}) /\ EdgeConn(G, A))
SinglePath(G, A)  == A = {} \/ ( /\ \A v \in V(G) : Deg(G, A, v) \in 0 .. 2
                                 /\ Cardinality({v \in V(G) : Deg(G, A, v) = 1}) = 2
                                 /\ EdgeConn(G, A) )

NotAdj(G, S) == \A e \in E(G) : ~(Ends(G, e) \subseteq S)
NotSeg(G, S) == NotAdj(G, S) /\ Connected(G, V(G) \ S)

(* division_connected: lab is a function V -> 0..R-1; roots a sequence of optional vertices *)
DivOK(G, lab, R, roots, allowEmpty) ==
    /\ \A i \in 0 .. R - 1 : Connected(G, {v \in V(G) : lab[v] = i})
    /\ allowEmpty \/ \A i \in 0 .. R - 1 : \E v \in V(G) : lab[v] = i
    /\ \A i \in DOMAIN roots : roots[i] # {} => \A r \in roots[i] : lab[r] = i - 1

(* variable groups: P a set partition of V(G); sz: vertex -> {} or {size} *)
BlockOf(P, v) == CHOOSE B \in P : v \in B
SizeOK(G, P, sz) == \A v \in V(G) : sz[v] # {} => {Cardinality(BlockOf(P, v))} = sz[v]
Realisable(G, P, sz) == (\A B \in P : Connected(G, B)) /\ SizeOK(G, P, sz)
(* shared unknown size: all blocks have one common size *)
RealisableShared(G, P) == (\A B \in P : Connected(G, B)) /\
                          \A B1, B2 \in P : Cardinality(B1) = Cardinality(B2)

(* borders: b a function edge id -> BOOLEAN *)
CutBlock(G, b, v) == ReachE(G, {e \in E(G) : ~b[e]}, {v})
BorderOK(G, b, sz) ==
    LET P == {CutBlock(G, b, v) : v \in V(G)} IN
    /\ SizeOK(G, P, sz)
    /\ \A e \in E(G) : b[e] => CutBlock(G, b, G.edges[e][1]) # CutBlock(G, b, G.edges[e][2])

-----------------------------------------------------------------------------
(* Families of graphs *)

Pairs(n) == {p \in (0 .. n - 1) \X (0 .. n - 1) : p[1] < p[2]}

RECURSIVE SetToSeqOrd(_)
(* a fixed enumeration of a set of pairs: lexicographic *)
MinPair(S) == CHOOSE p \in S : \A q \in S : p[1] < q[1] \/ (p[1] = q[1] /\ p[2] <= q[2])
SetToSeqOrd(S) == IF S = {} THEN <<>> ELSE LET m == MinPair(S) IN <<m>> \o SetToSeqOrd(S \ {m})

SimpleGraphs(n) == {[n |-> n, edges |-> SetToSeqOrd(S)] : S \in SUBSET Pairs(n)}

(* grid graph in the edge order of graph._grid_graph: for y, for x: right neighbour, then lower *)
RECURSIVE GridEdgesFrom(_, _, _)
GridEdgesFrom(h, w, c) ==
    IF c >= h * w THEN <<>>
    ELSE LET y == c \div w  x == c % w IN
         (IF x < w - 1 THEN <<<<c, c + 1>>>> ELSE <<>>) \o
         (IF y < h - 1 THEN <<<<c, c + w>>>> ELSE <<>>) \o GridEdgesFrom(h, w, c + 1)
GridGraph(h, w) == [n |-> h * w, edges |-> GridEdgesFrom(h, w, 0)]

(* lattice of a h x w frame, (h+1) x (w+1) points, in the edge order of graph._from_grid_frame:
   for y, for x: the vertical segment below the point, then the horizontal one to its right *)
RECURSIVE LatticeEdgesFrom(_, _, _)
LatticeEdgesFrom(h, w, c) ==
    IF c >= (h + 1) * (w + 1) THEN <<>>
    ELSE LET y == c \div (w + 1)  x == c % (w + 1) IN
         (IF y # h THEN <<<<c, c + (w + 1)>>>> ELSE <<>>) \o
         (IF x # w THEN <<<<c, c + 1>>>> ELSE <<>>) \o LatticeEdgesFrom(h, w, c + 1)
Lattice(h, w) == [n |-> (h + 1) * (w + 1), edges |-> LatticeEdgesFrom(h, w, 0)]

(* the line graph: one vertex per edge, two of them adjacent iff the edges share an endpoint (parallel edges included) *)
LineGraphPairs(G) == {p \in E(G) \X E(G) : p[1] < p[2] /\ Ends(G, p[1]) \cap Ends(G, p[2]) # {}}

(* set partitions of 0..n-1 as restricted growth strings (block ids in order of first appearance), *)
(* built level by level (a naive recursion over lazily evaluated unions does not terminate in practice) *)
RgsMax(s) == IF s = <<>> THEN -1 ELSE LET S == {s[i] : i \in DOMAIN s} IN CHOOSE x \in S : \A y \in S : y <= x
RECURSIVE RgsGrow(_, _)
RgsGrow(n, S) == IF \A s \in S : Len(s) = n THEN S
                 ELSE RgsGrow(n, TLCEval(UNION {{Append(s, b) : b \in 0 .. RgsMax(s) + 1} : s \in S}))
AllRGS(n) == RgsGrow(n, {<<>>})

PathG(n)  == [n |-> n, edges |-> [i \in 1 .. n - 1 |-> <<i - 1, i>>]]
CycleG(n) == [n |-> n, edges |-> [i \in 1 .. n |-> <<i - 1, i % n>>]]
StarG(n)  == [n |-> n, edges |-> [i \in 1 .. n - 1 |-> <<0, i>>]]
CompleteG(n) == [n |-> n, edges |-> SetToSeqOrd(Pairs(n))]

(* C10: crossable loop / path on a frame.  Segments are the lattice edges (in Lattice order);  *)
(* a segment is horizontal iff its endpoints are consecutive point numbers.                     *)
Horizontal(g, e) == g.edges[e][2] = g.edges[e][1] + 1
Joined(g, A, s, t) ==
    /\ s # t
    /\ \E p \in Ends(g, s) \cap Ends(g, t) :
          \/ Deg(g, A, p) = 2
          \/ (Deg(g, A, p) = 4 /\ Horizontal(g, s) = Horizontal(g, t))
RECURSIVE Strand(_, _, _)
Strand(g, A, S) == LET N == {t \in A \ S : \E s \in S : Joined(g, A, s, t)}
                   IN  IF N = {} THEN S ELSE Strand(g, A, S \cup N)
Crossable(g, A, cyc) ==
    A = {} \/ ( /\ \A p \in V(g) : Deg(g, A, p) \in (IF cyc THEN {0, 2, 4} ELSE {0, 1, 2, 4})
                /\ Strand(g, A, {CHOOSE s \in A : TRUE}) = A )
=============================================================================
