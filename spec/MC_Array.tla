------------------------------- MODULE MC_Array -------------------------------
(* Enumerates the operator forms x operand kinds x shapes of the array layer (C12). *)
EXTENDS ArrayOps, Json, TLC, TLCExt, IOUtils, SequencesExt

Tier == IOEnv.TIER
Quick == Tier = "quick"

O(kind, h, w, b, n) == [kind |-> kind, h |-> h, w |-> w, base |-> 0, b |-> b, n |-> n]
A1(k, n)    == O(k, n, 0, FALSE, 0)
A2(k, h, w) == O(k, h, w, FALSE, 0)
Scalars == {O("bvar", 0, 0, FALSE, 0), O("ivar", 0, 0, FALSE, 0), O("blit", 0, 0, TRUE, 0),
            O("blit", 0, 0, FALSE, 0), O("ilit", 0, 0, FALSE, 3)}
Arr1 == {A1(k, n) : k \in {"BA1", "IA1"}, n \in {0, 1, 2, 3}}
Arr2 == {A2(k, sh[1], sh[2]) : k \in {"BA2", "IA2"},
                               sh \in (IF Quick THEN {<<1, 1>>, <<1, 3>>, <<2, 3>>, <<0, 2>>, <<3, 1>>}
                                       ELSE {0, 1, 2, 3} \X {0, 1, 2, 3})}
Arrays == Arr1 \cup Arr2
NVars(o) == IF o.kind \in {"blit", "ilit"} THEN 0 ELSE SizeOf(o)

RECURSIVE WithBases(_, _)
WithBases(ops, base) ==
    IF ops = <<>> THEN <<>>
    ELSE <<[Head(ops) EXCEPT !.base = base]>> \o WithBases(Tail(ops), base + NVars(Head(ops)))

BinOps == {"add", "sub", "le", "lt", "ge", "gt", "and", "or", "xor", "eq", "ne"}
BinCases ==
    {[form |-> "bin", op |-> op, ops |-> WithBases(<<p[1], p[2]>>, 0)] :
        op \in BinOps,
        p \in {p \in (Arrays \cup Scalars) \X (Arrays \cup Scalars) : IsArr(p[1]) \/ IsArr(p[2])}}
UnCases == {[form |-> "un", op |-> op, ops |-> WithBases(<<a>>, 0)] : op \in {"not", "neg"}, a \in Arrays}
ThenCases ==
    {[form |-> f, op |-> "then", ops |-> WithBases(<<p[1], p[2]>>, 0)] :
        f \in {"then", "thenf"},
        p \in {p \in (Arrays \cup Scalars) \X (Arrays \cup Scalars) :
                 (IsArr(p[1]) \/ IsArr(p[2])) /\ (p[1].kind \in {"BA1", "BA2", "bvar"})}}
    (* the function form with a Python bool as antecedent (no method form exists for it) *)
    \cup {[form |-> "thenf", op |-> "then", ops |-> WithBases(<<p[1], p[2]>>, 0)] :
            p \in {p \in Scalars \X Arrays : p[1].kind = "blit"}}
CondSel == {A1("BA1", 2), A1("IA1", 2), A2("BA2", 1, 3), A1("BA1", 0), O("bvar", 0, 0, FALSE, 0), O("blit", 0, 0, TRUE, 0)}
CondArm == {A1("IA1", 2), A1("IA1", 3), A1("BA1", 2), A2("IA2", 1, 3), A1("IA1", 0), O("ivar", 0, 0, FALSE, 0),
            O("ilit", 0, 0, FALSE, 3), O("bvar", 0, 0, FALSE, 0)}
CondCases ==
    {[form |-> f, op |-> "cond", ops |-> WithBases(<<t[1], t[2], t[3]>>, 0)] :
        f \in {"cond", "condf"},
        t \in {t \in CondSel \X CondArm \X CondArm :
                 (IsArr(t[1]) \/ IsArr(t[2]) \/ IsArr(t[3])) /\ t[1].kind # "blit" /\ t[1].kind # "IA1"}}
    \cup {[form |-> "condf", op |-> "cond", ops |-> WithBases(<<t[1], t[2], t[3]>>, 0)] :
        t \in {t \in CondSel \X CondArm \X CondArm : (IsArr(t[2]) \/ IsArr(t[3])) /\ t[1].kind \in {"blit", "IA1"}}}

L(items) == [kind |-> "list", items |-> items]
BV == O("bvar", 0, 0, FALSE, 0)
IV == O("ivar", 0, 0, FALSE, 0)
TT == O("blit", 0, 0, TRUE, 0)
FF == O("blit", 0, 0, FALSE, 0)
BoolNests == { <<>>, <<A1("BA1", 17)>>, <<A1("BA1", 16), TT>>, <<A1("BA1", 2)>>, <<A2("BA2", 1, 3), TT>>, <<L(<<BV, L(<<A1("BA1", 2), FF>>)>>)>>,
               <<L(<<>>), BV>>, <<TT, TT, L(<<TT>>)>>, <<FF>>, <<A1("BA1", 0)>>, <<A2("BA2", 2, 2)>>,
               <<BV, BV, L(<<L(<<L(<<BV>>)>>)>>)>>, <<L(<<A1("BA1", 1), A2("BA2", 1, 1)>>), FF, BV>> }
IntNests  == { <<>>, <<A1("IA1", 2)>>, <<A2("IA2", 1, 3), O("ilit", 0, 0, FALSE, 3)>>,
               <<L(<<IV, L(<<A1("IA1", 2), O("ilit", 0, 0, FALSE, 1)>>)>>)>>, <<IV>>,
               <<O("ilit", 0, 0, FALSE, 1), O("ilit", 0, 0, FALSE, 1)>>, <<A2("IA2", 2, 2)>>, <<IV, L(<<IV>>)>> }
RECURSIVE NestBases(_, _)      \* assign variable bases through a nesting; returns <<args, next base>>
NestBases(args, base) ==
    IF args = <<>> THEN <<<<>>, base>>
    ELSE LET a == Head(args)
             first == IF a.kind = "list"
                      THEN LET r == NestBases(a.items, base) IN <<L(r[1]), r[2]>>
                      ELSE <<[a EXCEPT !.base = base], base + NVars(a)>>
             rest == NestBases(Tail(args), first[2])
         IN  <<<<first[1]>> \o rest[1], rest[2]>>
HelperCases ==
    {[form |-> "helper", op |-> h, args |-> NestBases(s, 0)[1]] : h \in {"count_true", "fold_or", "fold_and"}, s \in BoolNests}
    \cup {[form |-> "helper", op |-> "alldifferent", args |-> NestBases(s, 0)[1]] : s \in IntNests}
    \cup {[form |-> "method", op |-> h, args |-> <<[a EXCEPT !.base = 0]>>] :
             h \in {"count_true", "fold_or", "fold_and"}, a \in {a \in Arrays : TyOf(a) = "bool"}}
    \cup {[form |-> "method", op |-> "alldifferent", args |-> <<[a EXCEPT !.base = 0]>>] : a \in {a \in Arrays : TyOf(a) = "int"}}

ConvShapes == {<<0, 1>>, <<1, 1>>, <<1, 3>>, <<2, 3>>, <<3, 3>>, <<3, 1>>}
ConvCases == {[form |-> "conv2d", op |-> which, ops |-> <<A2("BA2", sh[1], sh[2])>>, kh |-> kh, kw |-> kw] :
                 which \in {"and", "or"}, sh \in ConvShapes, kh \in 1 .. 4, kw \in 1 .. 4}
NbrCases == {[form |-> "four_neighbors", op |-> "", ops |-> <<A2(k, sh[1], sh[2])>>, y |-> p[1], x |-> p[2],
              expect |-> SetToSeq(Neighbours(A2(k, sh[1], sh[2]), p[1], p[2]))] :
                 k \in {"BA2", "IA2"}, sh \in {<<1, 1>>, <<1, 3>>, <<2, 3>>, <<3, 3>>, <<3, 1>>},
                 p \in (0 .. 2) \X (0 .. 2)}

Cases == LET q == SetToSeq(BinCases \cup UnCases \cup ThenCases \cup CondCases) IN [i \in DOMAIN q |-> q[i]]
Cases2 == SetToSeq(HelperCases)
Cases3 == SetToSeq(ConvCases)
Cases4 == SetToSeq({c \in NbrCases : c.y < c.ops[1].h /\ c.x < c.ops[1].w})
All == TLCEval(Cases \o Cases2 \o Cases3 \o Cases4)

VARIABLES shard, i
Init == shard \in 0 .. 63 /\ i = 0
Next == i = 0 /\ i' \in {j \in DOMAIN All : j % 64 = shard} /\ shard' = shard
Export == i = 0 \/ PrintT(ToJson([id |-> i, case |-> All[i]]))
=============================================================================
