------------------------------ MODULE PuzzleRules ------------------------------
(***************************************************************************)
(* The published rules of the bundled puzzles (C11), written over          *)
(* GraphDefs.  For each puzzle: the candidate answers of a board, and      *)
(* IsSolution(problem, answer).  A problem is given in the module's own    *)
(* problem format, flattened row-major into a sequence of integers.        *)
(* "No line at all" counts as a loop (the library's documented convention).*)
(***************************************************************************)
EXTENDS GraphDefs, TLCExt

Cell(w, y, x) == y * w + x
InBoard(h, w, y, x) == y >= 0 /\ y < h /\ x >= 0 /\ x < w
At(p, w, y, x) == p[y * w + x + 1]

(* ------------------------------------------------------------------ loops on a frame *)
(* candidate loops of a frame with h x w cells: the empty set and every single simple cycle *)
FrameLoops(h, w) == LET g == TLCEval(Lattice(h, w)) IN {A \in SUBSET E(g) : SingleCycle(g, A)}
(* edge ids around cell (y, x) of a frame *)
CellEdgeIds(h, w, y, x) ==
    LET g == TLCEval(Lattice(h, w))  W1 == w + 1
        pt(yy, xx) == yy * W1 + xx
    IN {e \in E(g) : Ends(g, e) \in {{pt(y, x), pt(y, x + 1)}, {pt(y + 1, x), pt(y + 1, x + 1)},
                                     {pt(y, x), pt(y + 1, x)}, {pt(y, x + 1), pt(y + 1, x + 1)}}}

(* slitherlink: clue = number of loop edges around the cell; -1 = no clue *)
Slitherlink(h, w, p, A) ==
    \A y \in 0 .. h - 1, x \in 0 .. w - 1 :
        At(p, w, y, x) >= 0 => Cardinality(A \cap CellEdgeIds(h, w, y, x)) = At(p, w, y, x)

(* ------------------------------------------------------------------ loops through cell centres *)
(* the loop lives on the lattice whose points are the h x w cells: Lattice(h-1, w-1) *)
CellLoops(h, w) == FrameLoops(h - 1, w - 1)
(* A loop through cell centres is handled as the set of its steps: a step is the pair {c1, c2} of the two
   orthogonally adjacent cells it joins.  StepsOf turns an edge set of the cell lattice into that form. *)
StepsOf(h, w, A) == LET g == TLCEval(Lattice(h - 1, w - 1)) IN {Ends(g, e) : e \in A}
(* does the loop (given by its steps S) use the step between cells (y1,x1) and (y2,x2)?  (FALSE outside the board) *)
Step(h, w, S, y1, x1, y2, x2) ==
    InBoard(h, w, y1, x1) /\ InBoard(h, w, y2, x2) /\ {Cell(w, y1, x1), Cell(w, y2, x2)} \in S
Visited(h, w, S) == UNION S

(* masyu: 0 none, 1 white, 2 black *)
MasyuWhite(h, w, A, y, x) ==
    \/ ( Step(h, w, A, y, x, y, x - 1) /\ Step(h, w, A, y, x, y, x + 1)
         /\ (~Step(h, w, A, y, x - 1, y, x - 2) \/ ~Step(h, w, A, y, x + 1, y, x + 2)) )
    \/ ( Step(h, w, A, y, x, y - 1, x) /\ Step(h, w, A, y, x, y + 1, x)
         /\ (~Step(h, w, A, y - 1, x, y - 2, x) \/ ~Step(h, w, A, y + 1, x, y + 2, x)) )
MasyuBlack(h, w, A, y, x) ==
    /\ \/ (Step(h, w, A, y, x, y, x - 1) /\ Step(h, w, A, y, x - 1, y, x - 2))
       \/ (Step(h, w, A, y, x, y, x + 1) /\ Step(h, w, A, y, x + 1, y, x + 2))
    /\ \/ (Step(h, w, A, y, x, y - 1, x) /\ Step(h, w, A, y - 1, x, y - 2, x))
       \/ (Step(h, w, A, y, x, y + 1, x) /\ Step(h, w, A, y + 1, x, y + 2, x))
Masyu(h, w, p, A) ==
    \A y \in 0 .. h - 1, x \in 0 .. w - 1 :
        /\ At(p, w, y, x) = 1 => MasyuWhite(h, w, A, y, x)
        /\ At(p, w, y, x) = 2 => MasyuBlack(h, w, A, y, x)

(* yajilin: cell codes EMPTYCELL (no clue), UNKNOWN ("??": a clue cell without information), *)
(* dir * 100 + n with dir 1 up, 2 down, 3 left, 4 right.                                      *)
YEmpty == -1000
YUnknown == -999
YajilinBlack(h, w, p, A) == {c \in 0 .. h * w - 1 : p[c + 1] = YEmpty /\ c \notin Visited(h, w, A)}
Yajilin(h, w, p, A) ==
    LET B == YajilinBlack(h, w, p, A) IN
    /\ \A c \in 0 .. h * w - 1 : p[c + 1] # YEmpty => c \notin Visited(h, w, A)      \* the loop avoids clue cells
    /\ NotAdj(TLCEval(GridGraph(h, w)), B)
    /\ \A y \in 0 .. h - 1, x \in 0 .. w - 1 :
         LET v == At(p, w, y, x) IN
         (v # YEmpty /\ v # YUnknown) =>
            LET d == v \div 100  n == v % 100
                line == CASE d = 1 -> {Cell(w, yy, x) : yy \in 0 .. y - 1}
                          [] d = 2 -> {Cell(w, yy, x) : yy \in y + 1 .. h - 1}
                          [] d = 3 -> {Cell(w, y, xx) : xx \in 0 .. x - 1}
                          [] d = 4 -> {Cell(w, y, xx) : xx \in x + 1 .. w - 1}
            IN Cardinality(line \cap B) = n

(* simple loop: the loop visits exactly the unblocked cells; the pivot cell is visited iff the number *)
(* of other unblocked cells is odd                                                                    *)
SimpleLoop(h, w, blocked, pivot, A) ==
    LET vis == Visited(h, w, A)
        others == {c \in 0 .. h * w - 1 : c # pivot /\ blocked[c + 1] = 0}
    IN  /\ \A c \in 0 .. h * w - 1 : c # pivot => ((c \in vis) <=> (blocked[c + 1] = 0))
        /\ (pivot \in vis) <=> (Cardinality(others) % 2 = 1)

(* ------------------------------------------------------------------ cell-colouring puzzles *)
Cells(h, w) == 0 .. h * w - 1
RowOf(w, c) == c \div w
ColOf(w, c) == c % w
GG(h, w) == TLCEval(GridGraph(h, w))
Orth(h, w, c) == {d \in Cells(h, w) : (RowOf(w, d) = RowOf(w, c) /\ (ColOf(w, d) = ColOf(w, c) + 1 \/ ColOf(w, c) = ColOf(w, d) + 1))
                                      \/ (ColOf(w, d) = ColOf(w, c) /\ (RowOf(w, d) = RowOf(w, c) + 1 \/ RowOf(w, c) = RowOf(w, d) + 1))}
Touch8(h, w, c) == {d \in Cells(h, w) \ {c} : RowOf(w, d) - RowOf(w, c) \in -1 .. 1 /\ ColOf(w, d) - ColOf(w, c) \in -1 .. 1}
(* connectivity of cell sets by coordinate arithmetic (much cheaper for TLC than scanning an edge list) *)
OrthAdj(w, c, d) == (d = c + 1 /\ c % w # w - 1) \/ (c = d + 1 /\ d % w # w - 1) \/ d = c + w \/ c = d + w
RECURSIVE ReachCells(_, _, _)
ReachCells(w, S, R) == LET Nx == {d \in S \ R : \E c \in R : OrthAdj(w, c, d)} IN IF Nx = {} THEN R ELSE ReachCells(w, S, R \cup Nx)
ConnCells(h, w, S) == S = {} \/ ReachCells(w, S, {CHOOSE c \in S : TRUE}) = S
CompOf(h, w, S, c) == ReachCells(w, S, {c})
Squares(h, w) == {{Cell(w, y, x), Cell(w, y, x + 1), Cell(w, y + 1, x), Cell(w, y + 1, x + 1)} : y \in 0 .. h - 2, x \in 0 .. w - 2}
No2x2(h, w, S) == \A Q \in Squares(h, w) : ~(Q \subseteq S)
RoomsOfRgs(r) == {{c \in 0 .. Len(r) - 1 : r[c + 1] = b} : b \in {r[i] : i \in DOMAIN r}}
RoomAt(r, c) == {d \in 0 .. Len(r) - 1 : r[d + 1] = r[c + 1]}

(* nurikabe: 0 none, n >= 1 island size, -1 island of unknown size.  W = white (island) cells *)
Nurikabe(h, w, p, W) ==
    LET clues == {c \in Cells(h, w) : p[c + 1] # 0}
        sea == Cells(h, w) \ W
    IN  /\ clues \subseteq W
        /\ \A c \in W : Cardinality(CompOf(h, w, W, c) \cap clues) = 1
        /\ \A c \in clues : p[c + 1] > 0 => Cardinality(CompOf(h, w, W, c)) = p[c + 1]
        /\ ConnCells(h, w, sea)
        /\ No2x2(h, w, sea)

(* nurikabe with the solver's unknown_low option: an island of unknown size (-1) has at least `low` cells *)
NurikabeLow(h, w, p, W, low) ==
    /\ Nurikabe(h, w, p, W)
    /\ \A c \in Cells(h, w) : p[c + 1] = -1 => Cardinality(CompOf(h, w, W, c)) >= low

(* norinori: every room holds two black cells, every black cell has exactly one black neighbour *)
Norinori(h, w, rgs, B) ==
    /\ \A R \in RoomsOfRgs(rgs) : Cardinality(R \cap B) = 2
    /\ \A c \in B : Cardinality(Orth(h, w, c) \cap B) = 1

(* akari: -2 empty, -1 block, 0..4 numbered block.  L = cells with a light *)
AkariSees(h, w, p, c, d) ==
    \/ (RowOf(w, c) = RowOf(w, d) /\ \A e \in Cells(h, w) :
            (RowOf(w, e) = RowOf(w, c) /\ ((ColOf(w, c) < ColOf(w, e) /\ ColOf(w, e) < ColOf(w, d)) \/ (ColOf(w, d) < ColOf(w, e) /\ ColOf(w, e) < ColOf(w, c)))) => p[e + 1] = -2)
    \/ (ColOf(w, c) = ColOf(w, d) /\ \A e \in Cells(h, w) :
            (ColOf(w, e) = ColOf(w, c) /\ ((RowOf(w, c) < RowOf(w, e) /\ RowOf(w, e) < RowOf(w, d)) \/ (RowOf(w, d) < RowOf(w, e) /\ RowOf(w, e) < RowOf(w, c)))) => p[e + 1] = -2)
Akari(h, w, p, L) ==
    LET empty == {c \in Cells(h, w) : p[c + 1] = -2} IN
    /\ L \subseteq empty
    /\ \A c \in empty : c \in L \/ \E l \in L : AkariSees(h, w, p, c, l)
    /\ \A l1, l2 \in L : l1 # l2 => ~AkariSees(h, w, p, l1, l2)
    /\ \A c \in Cells(h, w) : p[c + 1] >= 0 => Cardinality(Orth(h, w, c) \cap L) = p[c + 1]

(* star battle: n x n, block ids, k stars per row, column and block, no two stars touching (diagonally either) *)
StarBattle(n, k, ids, S) ==
    /\ \A i \in 0 .. n - 1 : Cardinality({c \in S : RowOf(n, c) = i}) = k /\ Cardinality({c \in S : ColOf(n, c) = i}) = k
    /\ \A i \in 0 .. n - 1 : Cardinality({c \in S : ids[c + 1] = i}) = k
    /\ \A c \in S : Touch8(n, n, c) \cap S = {}

(* yin-yang: 0 none, 1 white, 2 black.  B = black cells *)
YinYang(h, w, p, B) ==
    LET Wt == Cells(h, w) \ B IN
    /\ \A c \in Cells(h, w) : (p[c + 1] = 1 => c \in Wt) /\ (p[c + 1] = 2 => c \in B)
    /\ ConnCells(h, w, B) /\ ConnCells(h, w, Wt)
    /\ No2x2(h, w, B) /\ No2x2(h, w, Wt)

(* creek: clues on the (h+1) x (w+1) lattice points, -1 none; number = black cells around the point.  W = white cells *)
Creek(h, w, p, W) ==
    /\ ConnCells(h, w, W)
    /\ \A y \in 0 .. h, x \in 0 .. w :
          p[y * (w + 1) + x + 1] >= 0 =>
             Cardinality({c \in Cells(h, w) \ W : RowOf(w, c) \in {y - 1, y} /\ ColOf(w, c) \in {x - 1, x}}) = p[y * (w + 1) + x + 1]

(* heyawake: rooms (rgs) with clues (< 0 none), B black *)
LineCells(w, c, d) ==      \* the cells from c to d in one row or column (c before d)
    IF RowOf(w, c) = RowOf(w, d) THEN {Cell(w, RowOf(w, c), x) : x \in ColOf(w, c) .. ColOf(w, d)}
    ELSE {Cell(w, y, ColOf(w, c)) : y \in RowOf(w, c) .. RowOf(w, d)}
Crossings(w, rgs, c, d) ==
    IF RowOf(w, c) = RowOf(w, d)
    THEN Cardinality({x \in ColOf(w, c) .. ColOf(w, d) - 1 : rgs[Cell(w, RowOf(w, c), x) + 1] # rgs[Cell(w, RowOf(w, c), x + 1) + 1]})
    ELSE Cardinality({y \in RowOf(w, c) .. RowOf(w, d) - 1 : rgs[Cell(w, y, ColOf(w, c)) + 1] # rgs[Cell(w, y + 1, ColOf(w, c)) + 1]})
Heyawake(h, w, rgs, clues, B) ==
    LET Wt == Cells(h, w) \ B IN
    /\ NotAdj(GG(h, w), B)
    /\ ConnCells(h, w, Wt)
    /\ \A k \in {rgs[i] : i \in DOMAIN rgs} : clues[k + 1] >= 0 => Cardinality({c \in B : rgs[c + 1] = k}) = clues[k + 1]
    /\ \A c, d \in Cells(h, w) :
          (c < d /\ (RowOf(w, c) = RowOf(w, d) \/ ColOf(w, c) = ColOf(w, d)) /\ LineCells(w, c, d) \subseteq Wt)
             => Crossings(w, rgs, c, d) < 2

(* LITS: one tetromino per room, no 2x2, all black connected, equal shapes never edge-adjacent *)
Shape(h, w, T) ==       \* T: four orthogonally connected cells
    IF T \in Squares(h, w) THEN "O"
    ELSE IF Cardinality({RowOf(w, c) : c \in T}) = 1 \/ Cardinality({ColOf(w, c) : c \in T}) = 1 THEN "I"
    ELSE IF \E c \in T : Cardinality(Orth(h, w, c) \cap T) = 3 THEN "T"
    ELSE IF \E c \in T : \E a, b \in Orth(h, w, c) \cap T : a # b /\ (RowOf(w, a) = RowOf(w, b) \/ ColOf(w, a) = ColOf(w, b)) THEN "L"
    ELSE "S"
Lits(h, w, rgs, B) ==
    LET rooms == RoomsOfRgs(rgs) IN
    /\ \A R \in rooms : Cardinality(R \cap B) = 4 /\ ConnCells(h, w, R \cap B)
    /\ No2x2(h, w, B)
    /\ ConnCells(h, w, B)
    /\ \A R1, R2 \in rooms :
          (R1 # R2 /\ \E a \in R1 \cap B, b \in R2 \cap B : b \in Orth(h, w, a))
             => Shape(h, w, R1 \cap B) # Shape(h, w, R2 \cap B)

(* nurimisaki: -1 none, 0 cape, n >= 2 cape whose straight run of white cells (itself included) has length n *)
RunFrom(h, w, W, c, dy, dx) ==     \* white cells in a straight line from c in direction (dy, dx), c included
    LET RECURSIVE Go(_, _)
        Go(y, x) == IF InBoard(h, w, y, x) /\ Cell(w, y, x) \in W THEN 1 + Go(y + dy, x + dx) ELSE 0
    IN Go(RowOf(w, c), ColOf(w, c))
Nurimisaki(h, w, p, W) ==
    /\ ConnCells(h, w, W)
    /\ No2x2(h, w, W) /\ No2x2(h, w, Cells(h, w) \ W)
    /\ \A c \in Cells(h, w) :
          IF p[c + 1] = -1 THEN (c \in W => Cardinality(Orth(h, w, c) \cap W) # 1)
          ELSE /\ c \in W /\ Cardinality(Orth(h, w, c) \cap W) = 1
               /\ p[c + 1] > 0 =>
                     \E dir \in {<<-1, 0>>, <<1, 0>>, <<0, -1>>, <<0, 1>>} :
                        /\ InBoard(h, w, RowOf(w, c) + dir[1], ColOf(w, c) + dir[2])
                        /\ Cell(w, RowOf(w, c) + dir[1], ColOf(w, c) + dir[2]) \in W
                        /\ RunFrom(h, w, W, c, dir[1], dir[2]) = p[c + 1]

(* putteria: one numbered cell per room (the number is the room's size); numbered cells are not adjacent; *)
(* equal numbers never share a row or a column                                                          *)
Putteria(h, w, rgs, S) ==
    /\ \A R \in RoomsOfRgs(rgs) : Cardinality(R \cap S) = 1
    /\ NotAdj(GG(h, w), S)
    /\ \A c, d \in S : (c # d /\ (RowOf(w, c) = RowOf(w, d) \/ ColOf(w, c) = ColOf(w, d)))
                          => Cardinality(RoomAt(rgs, c)) # Cardinality(RoomAt(rgs, d))

(* aquarium: row / column counts (< 0 none); in every tank the water has one level across the whole tank *)
Aquarium(h, w, rgs, row, col, S) ==
    /\ \A y \in 0 .. h - 1 : row[y + 1] >= 0 => Cardinality({c \in S : RowOf(w, c) = y}) = row[y + 1]
    /\ \A x \in 0 .. w - 1 : col[x + 1] >= 0 => Cardinality({c \in S : ColOf(w, c) = x}) = col[x + 1]
    /\ \A R \in RoomsOfRgs(rgs) : \E level \in 0 .. h : R \cap S = {c \in R : RowOf(w, c) >= level}

(* gokigen: one diagonal per cell; T = cells with a backslash; point clues count the diagonals touching the point; no cycle *)
GokigenGraph(h, w, T) ==
    [n |-> (h + 1) * (w + 1),
     edges |-> [c \in 1 .. h * w |->
                  LET y == (c - 1) \div w  x == (c - 1) % w IN
                  IF c - 1 \in T THEN <<y * (w + 1) + x, (y + 1) * (w + 1) + x + 1>>
                  ELSE <<y * (w + 1) + x + 1, (y + 1) * (w + 1) + x>>]]
Gokigen(h, w, p, T) ==
    LET g == GokigenGraph(h, w, T) IN
    /\ Forest(g, E(g))
    /\ \A pt \in 0 .. (h + 1) * (w + 1) - 1 : p[pt + 1] >= 0 => Deg(g, E(g), pt) = p[pt + 1]

(* ------------------------------------------------------------------ number-grid puzzles *)
(* a grid is a flat row-major sequence of integers; rows / columns as sequences *)
RowSeq(w, g, y) == [x \in 1 .. w |-> g[y * w + x]]
ColSeq(h, w, g, x) == [y \in 1 .. h |-> g[(y - 1) * w + x + 1]]
Distinct(s) == \A i, j \in DOMAIN s : i # j => s[i] # s[j]
RevSeq(s) == [i \in DOMAIN s |-> s[Len(s) + 1 - i]]

(* sudoku with n x n boxes (size n*n): rows, columns, boxes all different; givens (< 1 = empty) *)
SudokuGrid(n, g) ==
    LET sz == n * n IN
    /\ \A y \in 0 .. sz - 1 : Distinct(RowSeq(sz, g, y))
    /\ \A x \in 0 .. sz - 1 : Distinct(ColSeq(sz, sz, g, x))
    /\ \A by \in 0 .. n - 1, bx \in 0 .. n - 1 :
          Cardinality({g[(by * n + dy) * sz + bx * n + dx + 1] : dy \in 0 .. n - 1, dx \in 0 .. n - 1}) = sz
Givens(p, g) == \A c \in DOMAIN p : p[c] >= 1 => g[c] = p[c]

(* building (skyscrapers): Latin square 1..n; a clue (< 1 = none) is the number of buildings visible from that side *)
VisibleCount(s) == Cardinality({i \in DOMAIN s : \A j \in 1 .. i - 1 : s[j] < s[i]})
LatinGrid(n, g) == (\A y \in 0 .. n - 1 : Distinct(RowSeq(n, g, y))) /\ (\A x \in 0 .. n - 1 : Distinct(ColSeq(n, n, g, x)))
Building(n, up, dw, lf, rg, g) ==
    \A i \in 1 .. n :
        /\ up[i] >= 1 => VisibleCount(ColSeq(n, n, g, i - 1)) = up[i]
        /\ dw[i] >= 1 => VisibleCount(RevSeq(ColSeq(n, n, g, i - 1))) = dw[i]
        /\ lf[i] >= 1 => VisibleCount(RowSeq(n, g, i - 1)) = lf[i]
        /\ rg[i] >= 1 => VisibleCount(RevSeq(RowSeq(n, g, i - 1))) = rg[i]

(* doppelblock: every line holds two black cells (0) and 1..n-2 once; a clue (< 0 = none) is the sum between the blacks *)
DoppelLine(n, s) == Cardinality({i \in DOMAIN s : s[i] = 0}) = 2 /\ \A v \in 1 .. n - 2 : Cardinality({i \in DOMAIN s : s[i] = v}) = 1
BetweenSum(s) ==
    LET z == {i \in DOMAIN s : s[i] = 0}
        a == CHOOSE i \in z : \A j \in z : i <= j
        b == CHOOSE i \in z : \A j \in z : i >= j
        RECURSIVE Sum(_)
        Sum(i) == IF i >= b THEN 0 ELSE s[i] + Sum(i + 1)
    IN Sum(a + 1)
DoppelGrid(n, g) == (\A y \in 0 .. n - 1 : DoppelLine(n, RowSeq(n, g, y))) /\ (\A x \in 0 .. n - 1 : DoppelLine(n, ColSeq(n, n, g, x)))
Doppelblock(n, row, col, g) ==
    \A i \in 1 .. n : (row[i] >= 0 => BetweenSum(RowSeq(n, g, i - 1)) = row[i])
                     /\ (col[i] >= 0 => BetweenSum(ColSeq(n, n, g, i - 1)) = col[i])

(* fillomino: every maximal region of equal numbers has exactly that many cells.  A solution is the size grid of a
   partition into connected blocks in which no two orthogonally adjacent blocks have the same size. *)
SizeGrid(rgs) == [c \in DOMAIN rgs |-> Cardinality({d \in DOMAIN rgs : rgs[d] = rgs[c]})]
FillominoPartition(h, w, rgs) ==
    /\ \A B \in RoomsOfRgs(rgs) : ConnCells(h, w, B)
    /\ \A c, d \in Cells(h, w) : (OrthAdj(w, c, d) /\ rgs[c + 1] # rgs[d + 1]) => SizeGrid(rgs)[c + 1] # SizeGrid(rgs)[d + 1]

(* view: S = numbered cells (connected); a number is the count of empty cells seen in the four directions up to the
   next numbered cell or the edge; orthogonally adjacent numbers differ; clue (< 0 = none) fixes a numbered cell *)
ViewCount(h, w, S, c) ==
    LET look(dy, dx) == LET RECURSIVE Go(_, _)
                            Go(y, x) == IF InBoard(h, w, y, x) /\ Cell(w, y, x) \notin S THEN 1 + Go(y + dy, x + dx) ELSE 0
                        IN Go(RowOf(w, c) + dy, ColOf(w, c) + dx)
    IN look(-1, 0) + look(1, 0) + look(0, -1) + look(0, 1)
ViewNums(h, w, S) == [c \in 1 .. h * w |-> IF c - 1 \in S THEN ViewCount(h, w, S, c - 1) ELSE 0]
ViewValid(h, w, S) ==
    /\ ConnCells(h, w, S)
    /\ \A c, d \in S : OrthAdj(w, c, d) => ViewCount(h, w, S, c) # ViewCount(h, w, S, d)
View(h, w, p, S) == \A c \in Cells(h, w) : p[c + 1] >= 0 => (c \in S /\ ViewCount(h, w, S, c) = p[c + 1])

(* geradeweg: the loop visits every clue cell (n >= 1); each straight segment of the loop through a clue cell has length n *)
RunLen(h, w, St, y, x, dy, dx) ==    \* consecutive loop steps from cell (y, x) in direction (dy, dx)
    LET RECURSIVE Go(_, _)
        Go(yy, xx) == IF Step(h, w, St, yy, xx, yy + dy, xx + dx) THEN 1 + Go(yy + dy, xx + dx) ELSE 0
    IN Go(y, x)
Geradeweg(h, w, p, St) ==
    \A y \in 0 .. h - 1, x \in 0 .. w - 1 :
        At(p, w, y, x) >= 1 =>
           /\ Cell(w, y, x) \in Visited(h, w, St)
           /\ (RunLen(h, w, St, y, x, 0, -1) + RunLen(h, w, St, y, x, 0, 1) > 0) =>
                  RunLen(h, w, St, y, x, 0, -1) + RunLen(h, w, St, y, x, 0, 1) = At(p, w, y, x)
           /\ (RunLen(h, w, St, y, x, -1, 0) + RunLen(h, w, St, y, x, 1, 0) > 0) =>
                  RunLen(h, w, St, y, x, -1, 0) + RunLen(h, w, St, y, x, 1, 0) = At(p, w, y, x)

(* castle wall: a clue cell is <<a, c>>: a = YEmpty (no clue) or dir * 100 + n (1 up, 2 down, 3 left, 4 right: n loop
   segments on the ray in that direction); c = 0 none, 1 white (inside the loop), 2 black (outside).
   The loop avoids clue cells.  A cell off the loop is inside iff a ray from it crosses the loop an odd number of times. *)
SegsOnRay(h, w, St, y, x, d) ==
    CASE d = 1 -> Cardinality({yy \in 0 .. y - 1 : Step(h, w, St, yy, x, yy + 1, x)})
      [] d = 2 -> Cardinality({yy \in y .. h - 2 : Step(h, w, St, yy, x, yy + 1, x)})
      [] d = 3 -> Cardinality({xx \in 0 .. x - 1 : Step(h, w, St, y, xx, y, xx + 1)})
      [] d = 4 -> Cardinality({xx \in x .. w - 2 : Step(h, w, St, y, xx, y, xx + 1)})
(* crossings of the half-line going up from just left-above the centre of cell (y, x): horizontal steps in rows above *)
InsideLoop(h, w, St, y, x) ==
    LET fx == IF x = 0 THEN 0 ELSE x - 1          \* the face column left of the cell (or right of it in column 0)
        fy == IF y = 0 THEN 0 ELSE y - 1
    IN  Cardinality({yy \in 0 .. fy : Step(h, w, St, yy, fx, yy, fx + 1)}) % 2 = 1
CastleWall(h, w, arrows, colours, St) ==
    \A y \in 0 .. h - 1, x \in 0 .. w - 1 :
        LET a == At(arrows, w, y, x)  c == At(colours, w, y, x) IN
        a # YEmpty =>
           /\ Cell(w, y, x) \notin Visited(h, w, St)
           /\ a \div 100 \in 1 .. 4 => SegsOnRay(h, w, St, y, x, a \div 100) = a % 100
           /\ c = 1 => InsideLoop(h, w, St, y, x)
           /\ c = 2 => ~InsideLoop(h, w, St, y, x)

(* compass: clues <<cell, up, left, down, right>> (< 0 = blank); one compass per region; the numbers count the cells of
   the region strictly above / left of / below / right of the compass.  lab: cell -> index of its compass (0-based) *)
Compass(h, w, clues, lab) ==
    /\ \A k \in DOMAIN clues : lab[clues[k][1] + 1] = k - 1
    /\ \A k \in DOMAIN clues : ConnCells(h, w, {c \in Cells(h, w) : lab[c + 1] = k - 1})
    /\ \A k \in DOMAIN clues :
          LET R == {c \in Cells(h, w) : lab[c + 1] = k - 1}  cy == RowOf(w, clues[k][1])  cx == ColOf(w, clues[k][1]) IN
          /\ clues[k][2] >= 0 => Cardinality({c \in R : RowOf(w, c) < cy}) = clues[k][2]
          /\ clues[k][3] >= 0 => Cardinality({c \in R : ColOf(w, c) < cx}) = clues[k][3]
          /\ clues[k][4] >= 0 => Cardinality({c \in R : RowOf(w, c) > cy}) = clues[k][4]
          /\ clues[k][5] >= 0 => Cardinality({c \in R : ColOf(w, c) > cx}) = clues[k][5]

(* ------------------------------------------------------------------ fivecells *)
(* board cells: holes (a set of cell numbers) are not part of the board; the other cells are divided into pentominoes.
   clue[c] (< 0 none) = number of the four sides of cell c that are borders: towards the outside, a hole or another block.
   A division is a restricted growth string over ALL cells (hole cells carry the pseudo label -1). *)
FiveSides(h, w, holes, lab, c) ==
    Cardinality({d \in {<<RowOf(w, c) - 1, ColOf(w, c)>>, <<RowOf(w, c) + 1, ColOf(w, c)>>, <<RowOf(w, c), ColOf(w, c) - 1>>, <<RowOf(w, c), ColOf(w, c) + 1>>} :
                   ~InBoard(h, w, d[1], d[2]) \/ Cell(w, d[1], d[2]) \in holes \/ lab[Cell(w, d[1], d[2]) + 1] # lab[c + 1]})
FiveDivision(h, w, holes, lab) ==
    LET live == Cells(h, w) \ holes IN
    \A b \in {lab[c + 1] : c \in live} :
        LET B == {c \in live : lab[c + 1] = b} IN Cardinality(B) = 5 /\ ConnCells(h, w, B)
Fivecells(h, w, holes, clues, lab) ==
    \A c \in Cells(h, w) \ holes : clues[c + 1] >= 0 => FiveSides(h, w, holes, lab, c) = clues[c + 1]

(* ------------------------------------------------------------------ shakashaka *)
(* A cell is cut by its two diagonals into four small triangles N, E, S, W (0..3).  Answer t in 0..4 per cell:
   0 nothing, 1 black triangle in the upper-left half (covers N, W), 2 lower-left (W, S), 3 lower-right (S, E),
   4 upper-right (N, E).  A block cell (problem value >= -1) is entirely black; its number (>= 0) counts the orthogonally
   adjacent cells that hold a triangle.  Every white area must be a rectangle (upright or at 45 degrees): equivalently,
   around every lattice point and every cell centre each maximal run of white wedges spans 90, 180 or 360 degrees. *)
ShWhiteCode == -5                    \* problem value of a white cell
BlackParts(t) == CASE t = 0 -> {} [] t = 1 -> {0, 3} [] t = 2 -> {3, 2} [] t = 3 -> {2, 1} [] t = 4 -> {0, 1}
WhitePart(h, w, p, ans, y, x, part) ==      \* is small triangle `part` of cell (y, x) white?  (outside the board: no)
    InBoard(h, w, y, x) /\ At(p, w, y, x) = ShWhiteCode /\ part \notin BlackParts(At(ans, w, y, x))
(* the eight 45-degree wedges around lattice point (py, px), clockwise starting at east, as <<cell y, cell x, part>>:
   lower-right cell (the point is its top-left corner): N, W; lower-left cell: E, N; upper-left cell: S, E; upper-right cell: W, S *)
CornerWedges(py, px) ==
    << <<py, px, 0>>, <<py, px, 3>>, <<py, px - 1, 1>>, <<py, px - 1, 0>>,
       <<py - 1, px - 1, 2>>, <<py - 1, px - 1, 1>>, <<py - 1, px, 3>>, <<py - 1, px, 2>> >>
RunsOK(f) ==        \* f: 1..8 -> BOOLEAN, circular; every maximal run of TRUE has length 2, 4 or 8
    LET at(i) == f[((i - 1) % 8) + 1]
        RECURSIVE Len8(_, _)
        Len8(i, k) == IF k = 8 \/ ~at(i + k) THEN k ELSE Len8(i, k + 1)
    IN  IF \A i \in 1 .. 8 : f[i] THEN TRUE
        ELSE \A i \in 1 .. 8 : (f[i] /\ ~at(i + 7)) => Len8(i, 0) \in {2, 4}
Shakashaka(h, w, p, ans) ==
    /\ \A c \in Cells(h, w) : p[c + 1] # ShWhiteCode => ans[c + 1] = 0
    /\ \A c \in Cells(h, w) : p[c + 1] >= 0 => Cardinality({d \in Orth(h, w, c) : ans[d + 1] # 0}) = p[c + 1]
    /\ \A py \in 0 .. h, px \in 0 .. w :
          LET cw == CornerWedges(py, px) IN
          RunsOK([i \in 1 .. 8 |-> WhitePart(h, w, p, ans, cw[i][1], cw[i][2], cw[i][3])])
=============================================================================
