------------------------------ MODULE PuzzleRules ------------------------------
(***************************************************************************)
(* The published rules of the bundled puzzles (C11), written over          *)
(* GraphDefs.  For each puzzle: the candidate answers of a board, and      *)
(* IsSolution(problem, answer).  A problem is given in the module's own    *)
(* problem format, flattened row-major into a sequence of integers.        *)
(* "No line at all" counts as a loop (the library's documented convention).*)
(***************************************************************************)
EXTENDS GraphDefs, TLCExt

Cell(w, y, x) == y * w + x
InBoard(h, w, y, x) == y >= 0 /\ y < h /\ x >= 0 /\ x < w
At(p, w, y, x) == p[y * w + x + 1]

(* ------------------------------------------------------------------ loops on a frame *)
(* candidate loops of a frame with h x w cells: the empty set and every single simple cycle *)
FrameLoops(h, w) == LET g == TLCEval(Lattice(h, w)) IN {A \in SUBSET E(g) : SingleCycle(g, A)}
(* edge ids around cell (y, x) of a frame *)
CellEdgeIds(h, w, y, x) ==
    LET g == TLCEval(Lattice(h, w))  W1 == w + 1
        pt(yy, xx) == yy * W1 + xx
    IN {e \in E(g) : Ends(g, e) \in {{pt(y, x), pt(y, x + 1)}, {pt(y + 1, x), pt(y + 1, x + 1)},
                                     {pt(y, x), pt(y + 1, x)}, {pt(y, x + 1), pt(y + 1, x + 1)}}}

(* slitherlink: clue = number of loop edges around the cell; -1 = no clue *)
Slitherlink(h, w, p, A) ==
    \A y \in 0 .. h - 1, x \in 0 .. w - 1 :
        At(p, w, y, x) >= 0 => Cardinality(A \cap CellEdgeIds(h, w, y, x)) = At(p, w, y, x)

(* ------------------------------------------------------------------ loops through cell centres *)
(* the loop lives on the lattice whose points are the h x w cells: Lattice(h-1, w-1) *)
CellLoops(h, w) == FrameLoops(h - 1, w - 1)
(* A loop through cell centres is handled as the set of its steps: a step is the pair {c1, c2} of the two
   orthogonally adjacent cells it joins.  StepsOf turns an edge set of the cell lattice into that form. *)
StepsOf(h, w, A) == LET g == TLCEval(Lattice(h - 1, w - 1)) IN {Ends(g, e) : e \in A}
(* does the loop (given by its steps S) use the step between cells (y1,x1) and (y2,x2)?  (FALSE outside the board) *)
Step(h, w, S, y1, x1, y2, x2) ==
    InBoard(h, w, y1, x1) /\ InBoard(h, w, y2, x2) /\ {Cell(w, y1, x1), Cell(w, y2, x2)} \in S
Visited(h, w, S) == UNION S

(* masyu: 0 none, 1 white, 2 black *)
MasyuWhite(h, w, A, y, x) ==
    \/ ( Step(h, w, A, y, x, y, x - 1) /\ Step(h, w, A, y, x, y, x + 1)
         /\ (~Step(h, w, A, y, x - 1, y, x - 2) \/ ~Step(h, w, A, y, x + 1, y, x + 2)) )
    \/ ( Step(h, w, A, y, x, y - 1, x) /\ Step(h, w, A, y, x, y + 1, x)
         /\ (~Step(h, w, A, y - 1, x, y - 2, x) \/ ~Step(h, w, A, y + 1, x, y + 2, x)) )
MasyuBlack(h, w, A, y, x) ==
    /\ \/ (Step(h, w, A, y, x, y, x - 1) /\ Step(h, w, A, y, x - 1, y, x - 2))
       \/ (Step(h, w, A, y, x, y, x + 1) /\ Step(h, w, A, y, x + 1, y, x + 2))
    /\ \/ (Step(h, w, A, y, x, y - 1, x) /\ Step(h, w, A, y - 1, x, y - 2, x))
       \/ (Step(h, w, A, y, x, y + 1, x) /\ Step(h, w, A, y + 1, x, y + 2, x))
Masyu(h, w, p, A) ==
    \A y \in 0 .. h - 1, x \in 0 .. w - 1 :
        /\ At(p, w, y, x) = 1 => MasyuWhite(h, w, A, y, x)
        /\ At(p, w, y, x) = 2 => MasyuBlack(h, w, A, y, x)

(* yajilin: cell codes EMPTYCELL (no clue), UNKNOWN ("??": a clue cell without information), *)
(* dir * 100 + n with dir 1 up, 2 down, 3 left, 4 right.                                      *)
YEmpty == -1000
YUnknown == -999
YajilinBlack(h, w, p, A) == {c \in 0 .. h * w - 1 : p[c + 1] = YEmpty /\ c \notin Visited(h, w, A)}
Yajilin(h, w, p, A) ==
    LET B == YajilinBlack(h, w, p, A) IN
    /\ \A c \in 0 .. h * w - 1 : p[c + 1] # YEmpty => c \notin Visited(h, w, A)      \* the loop avoids clue cells
    /\ NotAdj(TLCEval(GridGraph(h, w)), B)
    /\ \A y \in 0 .. h - 1, x \in 0 .. w - 1 :
         LET v == At(p, w, y, x) IN
         (v # YEmpty /\ v # YUnknown) =>
            LET d == v \div 100  n == v % 100
                line == CASE d = 1 -> {Cell(w, yy, x) : yy \in 0 .. y - 1}
                          [] d = 2 -> {Cell(w, yy, x) : yy \in y + 1 .. h - 1}
                          [] d = 3 -> {Cell(w, y, xx) : xx \in 0 .. x - 1}
                          [] d = 4 -> {Cell(w, y, xx) : xx \in x + 1 .. w - 1}
            IN Cardinality(line \cap B) = n

(* simple loop: the loop visits exactly the unblocked cells; the pivot cell is visited iff the number *)
(* of other unblocked cells is odd                                                                    *)
SimpleLoop(h, w, blocked, pivot, A) ==
    LET vis == Visited(h, w, A)
        others == {c \in 0 .. h * w - 1 : c # pivot /\ blocked[c + 1] = 0}
    IN  /\ \A c \in 0 .. h * w - 1 : c # pivot => ((c \in vis) <=> (blocked[c + 1] = 0))
        /\ (pivot \in vis) <=> (Cardinality(others) % 2 = 1)
=============================================================================
