------------------------------- MODULE Generator -------------------------------
(***************************************************************************)
(* generate_problem (cspuz/generator/core.py) and the builders' neighbour  *)
(* relation (cspuz/generator/builder.py) - C19.                            *)
(*                                                                         *)
(* A problem is a flat sequence of integers (the builder slots / cells in  *)
(* pattern order; constants of the pattern included), or, for the          *)
(* segmentation builder, a sequence of blocks.  A pattern descriptor says  *)
(* how slots may change:                                                   *)
(*   [kind |-> "choices", slots |-> Seq([const, choice])]                  *)
(*   [kind |-> "array", h, w, choice, default, symmetry, adjacent, offsets, move] *)
(*   [kind |-> "segmentation", h, w, bnd]                                  *)
(* The loop: in every step the shuffled neighbours of the current problem  *)
(* are tried: pretest -> solver -> (uniqueness -> return) | (score ->      *)
(* accept: new current, next step | reject: next neighbour).               *)
(***************************************************************************)
EXTENDS SegDefs, TLC

Differ(a, b) == {i \in DOMAIN a : a[i] # b[i]}

(* ---- Choice slots (any nesting of lists / tuples, flattened) ---- *)
NeighbourChoices(pat, cur, nxt) ==
    /\ Len(nxt) = Len(cur)
    /\ Cardinality(Differ(cur, nxt)) = 1
    /\ \A i \in Differ(cur, nxt) :
          ~pat.slots[i].const /\ nxt[i] \in {pat.slots[i].choice[j] : j \in DOMAIN pat.slots[i].choice}

(* ---- ArrayBuilder2D ---- *)
Mirror(pat, c) == pat.h * pat.w - 1 - c                     \* point symmetry of cell number c
(* the adjacency option is a list of offsets (True = the four orthogonal ones): setting cell c is refused while the *)
(* cell at c + offset holds a non-default value                                                                      *)
AdjCell(pat, c, d) ==
    \E k \in DOMAIN pat.offsets :
        LET y2 == (c \div pat.w) + pat.offsets[k][1]  x2 == (c % pat.w) + pat.offsets[k][2] IN
        y2 \in 0 .. pat.h - 1 /\ x2 \in 0 .. pat.w - 1 /\ d = y2 * pat.w + x2
NonDefault(pat, p) == {c \in 0 .. Len(p) - 1 : p[c + 1] # pat.default}
Symmetric(pat, p)  == \A c \in 0 .. Len(p) - 1 : (c \in NonDefault(pat, p)) <=> (Mirror(pat, c) \in NonDefault(pat, p))
SameMultiset(a, b) == \A v \in {a[i] : i \in DOMAIN a} \cup {b[i] : i \in DOMAIN b} :
                         Cardinality({i \in DOMAIN a : a[i] = v}) = Cardinality({i \in DOMAIN b : b[i] = v})
NeighbourArray(pat, cur, nxt) ==
    LET ch == {pat.choice[j] : j \in DOMAIN pat.choice}
        diff == Differ(cur, nxt)
        isMove == pat.move /\ SameMultiset(cur, nxt)
    IN  /\ Len(nxt) = Len(cur) /\ diff # {}
        (* values come from the choice set (a move permutes the values already there) *)
        /\ \A i \in diff : nxt[i] \in ch \/ (isMove /\ nxt[i] \in {cur[j] : j \in DOMAIN cur})
        (* the symmetry option keeps the non-default pattern point-symmetric *)
        /\ (pat.symmetry /\ Symmetric(pat, cur)) => Symmetric(pat, nxt)
        (* the adjacency option: a value-setting update never puts a non-default next to a non-default *)
        /\ (pat.adjacent /\ ~isMove) =>
              \A i \in diff : (cur[i] = pat.default /\ nxt[i] # pat.default) =>
                  \A d \in NonDefault(pat, nxt) : ~AdjCell(pat, i - 1, d)
        (* without the move option only a cell and, with symmetry, its mirror image change *)
        /\ ~pat.move => (Cardinality(diff) = 1 \/ (pat.symmetry /\ Cardinality(diff) = 2 /\
                                                   \E i \in diff : diff = {i, Mirror(pat, i - 1) + 1}))

(* ---- SegmentationBuilder2D: one Merge / Split / Move of Segmentation.tla ---- *)
AsSet(blocks) == {{blocks[i][j] : j \in DOMAIN blocks[i]} : i \in DOMAIN blocks}
NeighbourSeg(pat, cur, nxt) ==
    LET B == AsSet(cur)  A == AsSet(nxt)  gone == B \ A  new == A \ B IN
    /\ ValidP(pat.h, pat.w, A, pat.bnd)
    /\ UNION gone = UNION new
    /\ \/ (Cardinality(gone) = 2 /\ Cardinality(new) = 1)
       \/ (Cardinality(gone) = 1 /\ Cardinality(new) = 2)
       \/ (Cardinality(gone) = 2 /\ Cardinality(new) = 2 /\ \E X \in gone, Y \in new : Cardinality(X \ Y) = 1 /\ Y \subseteq X)

Neighbour(pat, cur, nxt) ==
    CASE pat.kind = "choices" -> NeighbourChoices(pat, cur, nxt)
      [] pat.kind = "array" -> NeighbourArray(pat, cur, nxt)
      [] pat.kind = "segmentation" -> NeighbourSeg(pat, cur, nxt)
=============================================================================
