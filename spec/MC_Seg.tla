-------------------------------- MODULE MC_Seg --------------------------------
EXTENDS Segmentation, Json, TLCExt, IOUtils, SequencesExt

MaxBound == IF H * W < 5 THEN H * W ELSE 5
BoundConfigs == {b \in [minB : 1 .. MaxBound, maxB : 1 .. H * W, minS : 1 .. MaxBound, maxS : 1 .. H * W] :
                   b.minB <= b.maxB /\ b.minS <= b.maxS /\ (b.maxB <= MaxBound \/ b.maxB = H * W) /\ (b.maxS <= MaxBound \/ b.maxS = H * W)}
MaxOf(s) == IF s = <<>> THEN -1 ELSE LET S == {s[i] : i \in DOMAIN s} IN CHOOSE x \in S : \A y \in S : y <= x
RECURSIVE RgsGrow(_, _)       \* restricted growth strings, level by level
RgsGrow(n, S) == IF \A s \in S : Len(s) = n THEN S
                 ELSE RgsGrow(n, TLCEval(UNION {{Append(s, b) : b \in 0 .. MaxOf(s) + 1} : s \in S}))
AllRGS(n) == RgsGrow(n, {<<>>})
PartOf(r) == {{c \in Cells : r[c + 1] = b} : b \in {r[i] : i \in DOMAIN r}}
ConnPartitions == TLCEval({PartOf(r) : r \in {r \in AllRGS(H * W) : \A B \in PartOf(r) : Conn(B)}})

(* every valid value under every bound configuration is an initial state: the invariant is checked from each *)
Init == bnd \in BoundConfigs /\ P \in {Q \in ConnPartitions : Valid(Q, bnd)}
Spec == Init /\ [][Next]_vars
SpecBroken == Init /\ [][NextBroken]_vars

ASSUME VoronoiOK

Export == PrintT(ToJson([h |-> H, w |-> W, bnd |-> bnd,
                         blocks |-> LET q == SetToSeq(P) IN [i \in DOMAIN q |-> SetToSeq(q[i])]]))
=============================================================================
