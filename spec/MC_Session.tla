----------------------------- MODULE MC_Session -----------------------------
(* Bounded instances of SolverSM: the pool of driver expressions, the two     *)
(* exploration shapes (one form per session exhaustively / random incremental *)
(* sessions by simulation) and the scenario export for the replayer.          *)
EXTENDS SolverSM, Json, TLCExt, IOUtils, SequencesExt

CONSTANTS InitDecl,      \* declarations already made in the initial state (shape A)
          ILitVals,      \* integer literals used as operands
          Rich,          \* TRUE: comparisons between two compound terms too
          ExportDepth,   \* simulation: export the history at this level (0 = at a final solve)
          Shard, NShards \* shape A: this run enumerates forms number Shard mod NShards

V(k)  == [f |-> "var", id |-> k]
IL(n) == [f |-> "ilit", n |-> n]
BL(b) == [f |-> "blit", b |-> b]
U(f, x)       == [f |-> f, args |-> <<x>>]
B(f, x, y)    == [f |-> f, args |-> <<x, y>>]
T(f, x, y, z) == [f |-> f, args |-> <<x, y, z>>]
L(s)          == [f |-> "list", args |-> s]
H(f, s)       == [f |-> f, args |-> s]

IsLit(x) == x.f \in {"ilit", "blit"}
BVars(d) == {V(k - 1) : k \in {k \in DOMAIN d : d[k].kind = "bool"}}
IVars(d) == {V(k - 1) : k \in {k \in DOMAIN d : d[k].kind = "int"}}
BLits == {BL(TRUE), BL(FALSE)}
ILits == {IL(n) : n \in ILitVals}
BAt(d) == BVars(d) \cup BLits
IAt(d) == IVars(d) \cup ILits

NL(S, S2) == {p \in S \X S2 : ~(IsLit(p[1]) /\ IsLit(p[2]))}   \* not both literals
SeqsUpTo(S, n) == UNION {[1 .. m -> S] : m \in 0 .. n}

(* integer terms of depth <= 1 *)
IntT(d) ==
    IAt(d)
    \cup {U("neg", x) : x \in IVars(d)}
    \cup {B(f, p[1], p[2]) : f \in {"add", "sub"}, p \in NL(IAt(d), IAt(d))}
    \cup {T("cond", c, x, y) : c \in BVars(d), x \in IAt(d), y \in IAt(d)}
    \cup {T("condf", c, x, y) : c \in BLits, x \in IVars(d), y \in IAt(d)}
    \cup {H("count_true", s) : s \in SeqsUpTo(BAt(d), 2)}
    \cup {H("count_true", <<L(s), b>>) : s \in SeqsUpTo(BVars(d), 2), b \in BAt(d)}

CmpF == {"eq", "ne", "le", "lt", "ge", "gt"}

BoolForms(d) ==
    {B(f, p[1], p[2]) : f \in CmpF, p \in NL(IntT(d), IF Rich THEN IntT(d) ELSE IAt(d))}
    \cup {B(f, p[1], p[2]) : f \in CmpF, p \in NL(IAt(d), IntT(d))}
    (* nested + and - in both associations, literals in every position: a - (b - c) is not (a - b) - c *)
    \cup {B("eq", B(f, t[1], B(g, t[2], t[3])), v) : f \in {"add", "sub"}, g \in {"add", "sub"}, v \in IVars(d),
              t \in {t \in IAt(d) \X IAt(d) \X IAt(d) : ~(IsLit(t[2]) /\ IsLit(t[3]))}}
    \cup {B("eq", B(f, B(g, t[1], t[2]), t[3]), v) : f \in {"add", "sub"}, g \in {"add", "sub"}, v \in IVars(d),
              t \in {t \in IAt(d) \X IAt(d) \X IAt(d) : ~(IsLit(t[1]) /\ IsLit(t[2]))}}
    \cup {U("not", x) : x \in BVars(d)}
    \cup {B(f, p[1], p[2]) : f \in {"and", "or", "xor", "iff", "bne"}, p \in NL(BAt(d), BAt(d))}
    \cup {B("then", x, y) : x \in BVars(d), y \in BAt(d)}
    \cup {B("thenf", x, y) : x \in BAt(d), y \in BAt(d)}
    \cup {H(f, s) : f \in {"fold_or", "fold_and"}, s \in SeqsUpTo(BAt(d), 3)}
    \cup {H(f, <<L(s), L(<<b>>)>>) : f \in {"fold_or", "fold_and"},
                                     s \in SeqsUpTo(BVars(d), 1), b \in BAt(d)}
    \cup {H("alldifferent", s) : s \in SeqsUpTo(IAt(d), 3)}
    \cup {H("alldifferent", <<L(<<x, y>>), z>>) : x \in IVars(d), y \in IVars(d), z \in IAt(d)}
    \cup BAt(d)

(* one level of boolean structure over the forms above: used by the simulation *)
Compound(d) ==
    LET F == BoolForms(d) IN
    F \cup {L(<<x, L(<<y>>)>>) : x \in BVars(d), y \in BVars(d)}

MCPool(d) == Compound(d)

(* a modest pool for the simulated incremental sessions (computed in every state) *)
PoolB(d) ==
    {B(f, p[1], p[2]) : f \in CmpF, p \in NL(IVars(d) \cup {IL(0)}, IAt(d))}
    \cup {B(f, B(g, p[1], p[2]), IL(n)) : f \in {"eq", "le", "gt"}, g \in {"add", "sub"},
                                          p \in IVars(d) \X IVars(d), n \in {0, 2}}
    \cup {B(f, H("count_true", <<p[1], L(<<p[2]>>)>>), IL(n)) :
               f \in {"eq", "ge"}, p \in BVars(d) \X BAt(d), n \in {1, 2}}
    \cup {B(f, T("cond", c, IL(2), x), y) : f \in {"lt", "ne"}, c \in BVars(d), x \in IVars(d), y \in IAt(d)}
    \cup {U("not", x) : x \in BVars(d)}
    \cup {B(f, p[1], p[2]) : f \in {"and", "or", "xor", "iff", "bne", "thenf"}, p \in NL(BAt(d), BAt(d))}
    \cup {H(f, s) : f \in {"fold_or", "fold_and"}, s \in SeqsUpTo(BVars(d), 2)}
    \cup {H("alldifferent", <<L(<<p[1], p[2]>>)>>) : p \in IVars(d) \X IAt(d)}
    \cup {L(<<x, L(<<U("not", y)>>)>>) : x \in BVars(d), y \in BVars(d)}
    \cup BAt(d)

-----------------------------------------------------------------------------
(* Shape A: declarations fixed, answer keys = all variables, one form, then   *)
(* find_answer, then solve.  Every form of the pool exactly once.             *)
FormsA == TLCEval(BoolForms(InitDecl))
FormSeq == TLCEval(SetToSeq(FormsA))        \* a fixed enumeration, for sharding

InitA == /\ decl = InitDecl /\ cons = <<>> /\ keys = DOMAIN InitDecl
         /\ sol = AllNone(InitDecl) /\ last = [op |-> "none", ret |-> FALSE, keys |-> {}]
         /\ hist = [k \in DOMAIN InitDecl |->
                      IF InitDecl[k].kind = "bool" THEN [a |-> "bool_var"]
                      ELSE [a |-> "int_var", lo |-> InitDecl[k].lo, hi |-> InitDecl[k].hi]]
                   \o <<[a |-> "add_key_all"]>>

NextA == \/ /\ cons = <<>> /\ NSolves = 0
            /\ \E i \in {i \in DOMAIN FormSeq : i % NShards = Shard} : Ensure(FormSeq[i])
         \/ /\ Len(hist) = Len(InitDecl) + 2 /\ FindAnswer
         \/ /\ Len(hist) = Len(InitDecl) + 3 /\ Solve

ViewA == <<decl, cons, keys, last, hist>>     \* one representative of the model choices

ExportA == (Len(hist) = Len(InitDecl) + 4) => PrintT(ToJson([hist |-> hist]))

-----------------------------------------------------------------------------
(* Shape B: the full Next relation, explored by simulation.                   *)
ExportDepthEnv == atoi(IOEnv.EXPORT_DEPTH)
ExportB == (TLCGet("level") = ExportDepth) => PrintT(ToJson([hist |-> hist]))

-----------------------------------------------------------------------------
(* constants that cfg files cannot express *)
DeclA == << [kind |-> "bool", lo |-> 0, hi |-> 0], [kind |-> "bool", lo |-> 0, hi |-> 0],
            [kind |-> "int", lo |-> -2, hi |-> 1], [kind |-> "int", lo |-> 0, hi |-> 3] >>
DeclA2 == << [kind |-> "bool", lo |-> 0, hi |-> 0], [kind |-> "int", lo |-> 3, hi |-> 3],
             [kind |-> "int", lo |-> -3, hi |-> -1] >>
LitsA == {-1, 0, 2}
ShardEnv == atoi(IOEnv.SHARD)
NShardsEnv == atoi(IOEnv.NSHARDS)
TemplatesB == { [kind |-> "bool", lo |-> 0, hi |-> 0], [kind |-> "int", lo |-> -2, hi |-> 1],
                [kind |-> "int", lo |-> 3, hi |-> 3], [kind |-> "int", lo |-> 0, hi |-> 4] }
=============================================================================
