CONSTANTS
  H = 3
  W = 2
SPECIFICATION Spec
INVARIANT Inv
INVARIANT Export
CHECK_DEADLOCK FALSE
