--------------------------- MODULE Trace_Serializer ---------------------------
(* Judges round trips performed by the real combinators (C15): one record per (term, env, value):
   what serialize returned, what deserialize made of that text, how much it consumed. *)
EXTENDS Serializer, Json, IOUtils, TLCExt

Recs == ndJsonDeserialize(IOEnv.TRACE_FILE)
VARIABLES shard, t
Init == shard \in 0 .. 63 /\ t = 0
Next == t = 0 /\ t' \in {i \in DOMAIN Recs : i % 64 = shard} /\ shard' = shard
R == Recs[t]

(* tuples with a room partition inside: compare element-wise, the room element up to ordering *)
SameNested ==
    LET tm == R.case.term  d == R.decoded  v == R.case.v IN
    \A e \in DOMAIN tm.elems :
        IF tm.elems[e].c \in {"Rooms", "ValuedRooms"}
        THEN Len(d[e]) = 1 /\ Same(tm.elems[e], d[e][1], v[e][1])
        ELSE d[e] = v[e]

Verdict ==
    IF R.ser = "raised" /\ R.exc # "ValueError" THEN "serializer:serialize-crashed-with-" \o R.exc
    ELSE IF R.ser \in {"raised", "none"} THEN
        (* not accepted: no demand, except that valid room partitions of any board (single rows and *)
        (* columns included) are in the domain of Rooms / ValuedRooms                               *)
        (IF R.case.fam \in {"rooms", "vrooms"} THEN "serializer:rejects-a-valid-room-partition" ELSE "ok")
    ELSE IF R.des = "raised" THEN "serializer:cannot-read-back-its-own-text-" \o R.exc
    ELSE IF R.des = "none" THEN "serializer:cannot-read-back-its-own-text"
    ELSE IF R.consumed # Len(R.text) THEN "serializer:does-not-consume-exactly-the-produced-characters"
    ELSE IF R.case.fam = "nested" /\ ~SameNested THEN "serializer:round-trip-changes-the-value"
    ELSE IF R.case.fam # "nested" /\ ~Same(R.case.term, R.decoded, R.case.v) THEN "serializer:round-trip-changes-the-value"
    ELSE "ok"

(* diagnostic only: does the real text equal the transcription's text? *)
SpecText == Ser(R.case.term, [h |-> R.case.h, w |-> R.case.w], <<R.case.v>>, 0)
Report == t = 0 \/ PrintT(ToJson([t |-> R.t, verdict |-> Verdict,
                                  same_text_as_transcription |->
                                      IF "big" \in DOMAIN R.case THEN FALSE      \* scale-up boards: the transcription is not run
                                      ELSE (R.ser = "ok" /\ SpecText.ok /\ SpecText.text = R.text)]))
=============================================================================
