------------------------------ MODULE GridFrame ------------------------------
(***************************************************************************)
(* Lattice geometry of a BoolGridFrame of height h and width w (C14).      *)
(* A segment is <<"H", y, x>> joining the lattice points (y,x)-(y,x+1) and *)
(* separating the cells (y-1,x) | (y,x), or <<"V", y, x>> joining          *)
(* (y,x)-(y+1,x) and separating (y,x-1) | (y,x).                           *)
(* The frame's `horizontal[y,x]` IS H(y,x) and `vertical[y,x]` IS V(y,x):  *)
(* every other accessor must agree with that naming.                       *)
(***************************************************************************)
EXTENDS Integers, Sequences, FiniteSets

H(y, x) == <<"H", y, x>>
V(y, x) == <<"V", y, x>>
HSegs(h, w) == {H(y, x) : y \in 0 .. h, x \in 0 .. w - 1}
VSegs(h, w) == {V(y, x) : y \in 0 .. h - 1, x \in 0 .. w}
NoSeg == <<"", 0, 0>>

(* doubled coordinates: [err |-> BOOLEAN, seg |-> segment] *)
ByDoubled(h, w, Y, X) ==
    IF ~(0 <= Y /\ Y <= 2 * h /\ 0 <= X /\ X <= 2 * w) THEN [err |-> TRUE, seg |-> NoSeg]
    ELSE IF Y % 2 = 0 /\ X % 2 = 1 THEN [err |-> FALSE, seg |-> H(Y \div 2, (X - 1) \div 2)]
    ELSE IF Y % 2 = 1 /\ X % 2 = 0 THEN [err |-> FALSE, seg |-> V((Y - 1) \div 2, X \div 2)]
    ELSE [err |-> TRUE, seg |-> NoSeg]

CellOK(h, w, y, x)  == 0 <= y /\ y < h /\ 0 <= x /\ x < w
CellEdges(y, x)     == {H(y, x), H(y + 1, x), V(y, x), V(y, x + 1)}
PointOK(h, w, y, x) == 0 <= y /\ y <= h /\ 0 <= x /\ x <= w
PointEdges(h, w, y, x) ==
    (IF y > 0 THEN {V(y - 1, x)} ELSE {}) \cup (IF y < h THEN {V(y, x)} ELSE {}) \cup
    (IF x > 0 THEN {H(y, x - 1)} ELSE {}) \cup (IF x < w THEN {H(y, x)} ELSE {})

(* row-major enumeration of the two families, horizontal first (all_edges / iteration) *)
AllEdgesSeq(h, w) ==
    [i \in 1 .. (h + 1) * w |-> H((i - 1) \div w, (i - 1) % w)] \o
    [i \in 1 .. h * (w + 1) |-> V((i - 1) \div (w + 1), (i - 1) % (w + 1))]

(* the point graph the loop constraints infer: edge list with the segment each edge is *)
PointId(w, y, x) == y * (w + 1) + x
RECURSIVE LatticeFrom(_, _, _)
LatticeFrom(h, w, c) ==
    IF c >= (h + 1) * (w + 1) THEN <<>>
    ELSE LET y == c \div (w + 1)  x == c % (w + 1) IN
         (IF y # h THEN <<[seg |-> V(y, x), u |-> c, v |-> c + (w + 1)]>> ELSE <<>>) \o
         (IF x # w THEN <<[seg |-> H(y, x), u |-> c, v |-> c + 1]>> ELSE <<>>) \o LatticeFrom(h, w, c + 1)
LatticeSegs(h, w) == LatticeFrom(h, w, 0)

(* every segment joins exactly the two points its name says *)
EndsOf(w, s) == IF s[1] = "H" THEN {PointId(w, s[2], s[3]), PointId(w, s[2], s[3] + 1)}
                              ELSE {PointId(w, s[2], s[3]), PointId(w, s[2] + 1, s[3])}
LatticeConsistent(h, w) ==
    LET L == LatticeSegs(h, w) IN
    /\ {L[i].seg : i \in DOMAIN L} = HSegs(h, w) \cup VSegs(h, w)
    /\ Len(L) = Cardinality(HSegs(h, w) \cup VSegs(h, w))
    /\ \A i \in DOMAIN L : {L[i].u, L[i].v} = EndsOf(w, L[i].seg)

(* duality: a point is incident to a segment iff ... cells are separated by the same segment;
   each segment lies on the boundary of the (at most two) cells its name says *)
CellsOf(h, w, s) == IF s[1] = "H" THEN {c \in {<<s[2] - 1, s[3]>>, <<s[2], s[3]>>} : CellOK(h, w, c[1], c[2])}
                                  ELSE {c \in {<<s[2], s[3] - 1>>, <<s[2], s[3]>>} : CellOK(h, w, c[1], c[2])}
CellDuality(h, w) ==
    \A s \in HSegs(h, w) \cup VSegs(h, w) :
        CellsOf(h, w, s) = {c \in (0 .. h - 1) \X (0 .. w - 1) : s \in CellEdges(c[1], c[2])}
PointDuality(h, w) ==
    \A s \in HSegs(h, w) \cup VSegs(h, w) :
        EndsOf(w, s) = {PointId(w, p[1], p[2]) : p \in {p \in (0 .. h) \X (0 .. w) : s \in PointEdges(h, w, p[1], p[2])}}
=============================================================================
