------------------------------ MODULE Trace_Emit ------------------------------
(***************************************************************************)
(* Judges constraint programs *emitted by the real graph helpers*          *)
(* (exported by harness/export.py after calling the helper on a fresh      *)
(* Solver) against the definitional verdicts of GraphDefs, for every       *)
(* pattern of the caller's flags.  Used for the native-primitive route,    *)
(* where no solver is available offline: the two native operators get the  *)
(* meaning defined in CspSem (EvalGraphConn / EvalGraphDiv), the auxiliary *)
(* variables of those programs are functionally determined, and the pruned *)
(* search of CspSem decides each pattern.                                  *)
(*                                                                         *)
(* One record per emitted program:                                         *)
(*   prog    [vars, cons]        the exported program                      *)
(*   bits    [[var, neg, isint]] pattern digit i is carried by variable    *)
(*                               var (negated when neg; integer label when *)
(*                               isint); base = number of values per digit *)
(*   fixed   [[var, val]]        other caller variables pinned             *)
(*   expects Seq(BOOLEAN)        definitional verdict per pattern number+1 *)
(*   status  "ok" | "exc"        whether the helper call itself raised     *)
(*   outs    [[vars, masks]]     arrays returned by the helper: the ids of *)
(*                               their variables and, per pattern, the set *)
(*                               (as a bit mask) of positions that must be *)
(*                               true in EVERY satisfying assignment       *)
(***************************************************************************)
EXTENDS CspSem, Json, IOUtils, TLCExt

Recs == ndJsonDeserialize(IOEnv.TRACE_FILE)

VARIABLES shard, t
Init == shard \in 0 .. 63 /\ t = 0
Next == t = 0 /\ t' \in {i \in DOMAIN Recs : i % 64 = shard} /\ shard' = shard

R == Recs[t]
(* pattern number p in base R.base: digit i is the value of the i-th caller variable *)
(* (boolean flags: base 2, digit 1 = true, possibly negated; labels: the digit itself) *)
Digit(p, i) == (p \div (R.base ^ i)) % R.base

FixCons(p) ==
    [i \in DOMAIN R.bits |->
        IF R.bits[i].isint
        THEN [op |-> "EQ", args |-> <<[op |-> "VAR", id |-> R.bits[i].var],
                                      [op |-> "INT", val |-> Digit(p, i - 1)]>>]
        ELSE [op |-> "IFF", args |-> <<[op |-> "VAR", id |-> R.bits[i].var],
                                       [op |-> "BOOL", val |-> ((Digit(p, i - 1) = 1) # R.bits[i].neg)]>>]]
    \o [i \in DOMAIN R.fixed |->
        [op |-> "IFF", args |-> <<[op |-> "VAR", id |-> R.fixed[i].var],
                                  [op |-> "BOOL", val |-> R.fixed[i].val]>>]]
FixMV == [i \in DOMAIN R.bits |-> R.bits[i].var] \o [i \in DOMAIN R.fixed |-> R.fixed[i].var]

(* a record may list its patterns explicitly (plist: pattern numbers; expects / masks are then indexed by the position *)
(* in that list): used where the pattern space is too large to enumerate (frames from 2x3 on)                       *)
Pat(k) == IF "plist" \in DOMAIN R THEN R.plist[k + 1] ELSE k
SatPattern(mv, k) ==
    LET p == Pat(k)
        q == [vars |-> R.prog.vars, cons |-> R.prog.cons \o FixCons(p)]
        mv2 == mv \o FixMV
    IN  GroundOK(q, mv2) /\ SatFrom(q, mv2, 1, <<>>)

NP == Len(R.expects)
(* a record judges the patterns p0 .. p1 (a long pattern space is split over several records) *)
PRange == R.p0 .. R.p1

ModelsPattern(mv, k) ==
    LET p == Pat(k)
        q == [vars |-> R.prog.vars, cons |-> R.prog.cons \o FixCons(p)]
        mv2 == mv \o FixMV
    IN  IF GroundOK(q, mv2) THEN ModelsFrom(q, mv2, 1, <<>>) ELSE {}

OutMask(o, m) == LET RECURSIVE Sum(_)
                     Sum(i) == IF i > Len(o.vars) THEN 0
                               ELSE (IF m[o.vars[i] + 1] THEN 2 ^ (i - 1) ELSE 0) + Sum(i + 1)
                 IN Sum(1)
OutsOK(mv, p) == \A m \in ModelsPattern(mv, p) :
                    \A j \in DOMAIN R.outs : OutMask(R.outs[j], m) = R.outs[j].masks[p + 1]
BadOuts(mv) == {p \in PRange : R.expects[p + 1] /\ ~OutsOK(mv, p)}

BadPatterns(mv) == {p \in PRange : SatPattern(mv, p) # R.expects[p + 1]}

Verdict ==
    IF R.status # "ok" THEN [verdict |-> "emit:helper-raised-" \o R.exc, pattern |-> -1, nbad |-> 0]
    ELSE IF ~WellTyped(R.prog) THEN [verdict |-> "emit:ill-typed-program", pattern |-> -1, nbad |-> 0]
    ELSE LET mv == MaxVars(R.prog)  bad == BadPatterns(mv) IN
         IF bad = {} THEN
            (IF R.outs = <<>> THEN [verdict |-> "ok", pattern |-> -1, nbad |-> 0]
             ELSE LET bo == BadOuts(mv) IN
                  IF bo = {} THEN [verdict |-> "ok", pattern |-> -1, nbad |-> 0]
                  ELSE [verdict |-> "emit:returned-array-differs-from-the-definition",
                        pattern |-> CHOOSE x \in bo : \A y \in bo : x <= y, nbad |-> Cardinality(bo)])
         ELSE LET p == CHOOSE x \in bad : \A y \in bad : x <= y IN
              [verdict |-> IF R.expects[p + 1] THEN "emit:rejects-a-pattern-the-definition-admits"
                                               ELSE "emit:admits-a-pattern-the-definition-rejects",
               pattern |-> p, nbad |-> Cardinality(bad)]

Report == t = 0 \/ PrintT(ToJson([t |-> R.t, p0 |-> R.p0] @@ Verdict))
=============================================================================
