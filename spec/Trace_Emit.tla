------------------------------ MODULE Trace_Emit ------------------------------
(***************************************************************************)
(* Judges constraint programs *emitted by the real graph helpers*          *)
(* (exported by harness/export.py after calling the helper on a fresh      *)
(* Solver) against the definitional verdicts of GraphDefs, for every       *)
(* pattern of the caller's flags.  Used for the native-primitive route,    *)
(* where no solver is available offline: the two native operators get the  *)
(* meaning defined in CspSem (EvalGraphConn / EvalGraphDiv), the auxiliary *)
(* variables of those programs are functionally determined, and the pruned *)
(* search of CspSem decides each pattern.                                  *)
(*                                                                         *)
(* One record per emitted program:                                         *)
(*   prog    [vars, cons]        the exported program                      *)
(*   bits    [[var, neg]]        pattern bit i is carried by variable var  *)
(*                               (negated when neg)                        *)
(*   fixed   [[var, val]]        other caller variables pinned             *)
(*   expects Seq(BOOLEAN)        definitional verdict per pattern number+1 *)
(*   status  "ok" | "exc"        whether the helper call itself raised     *)
(***************************************************************************)
EXTENDS CspSem, Json, IOUtils, TLCExt

Recs == ndJsonDeserialize(IOEnv.TRACE_FILE)

VARIABLES shard, t
Init == shard \in 0 .. 63 /\ t = 0
Next == t = 0 /\ t' \in {i \in DOMAIN Recs : i % 64 = shard} /\ shard' = shard

R == Recs[t]
Bit(p, i) == (p \div (2 ^ i)) % 2 = 1

FixCons(p) ==
    [i \in DOMAIN R.bits |->
        [op |-> "IFF", args |-> <<[op |-> "VAR", id |-> R.bits[i].var],
                                  [op |-> "BOOL", val |-> (Bit(p, i - 1) # R.bits[i].neg)]>>]]
    \o [i \in DOMAIN R.fixed |->
        [op |-> "IFF", args |-> <<[op |-> "VAR", id |-> R.fixed[i].var],
                                  [op |-> "BOOL", val |-> R.fixed[i].val]>>]]
FixMV == [i \in DOMAIN R.bits |-> R.bits[i].var] \o [i \in DOMAIN R.fixed |-> R.fixed[i].var]

SatPattern(mv, p) ==
    LET q == [vars |-> R.prog.vars, cons |-> R.prog.cons \o FixCons(p)]
        mv2 == mv \o FixMV
    IN  GroundOK(q, mv2) /\ SatFrom(q, mv2, 1, <<>>)

NP == Len(R.expects)
BadPatterns(mv) == {p \in 0 .. NP - 1 : SatPattern(mv, p) # R.expects[p + 1]}

Verdict ==
    IF R.status # "ok" THEN [verdict |-> "emit:helper-raised-" \o R.exc, pattern |-> -1, nbad |-> 0]
    ELSE IF ~WellTyped(R.prog) THEN [verdict |-> "emit:ill-typed-program", pattern |-> -1, nbad |-> 0]
    ELSE LET mv == MaxVars(R.prog)  bad == BadPatterns(mv) IN
         IF bad = {} THEN [verdict |-> "ok", pattern |-> -1, nbad |-> 0]
         ELSE LET p == CHOOSE x \in bad : \A y \in bad : x <= y IN
              [verdict |-> IF R.expects[p + 1] THEN "emit:rejects-a-pattern-the-definition-admits"
                                               ELSE "emit:admits-a-pattern-the-definition-rejects",
               pattern |-> p, nbad |-> Cardinality(bad)]

Report == t = 0 \/ PrintT(ToJson([t |-> R.t] @@ Verdict))
=============================================================================
