------------------------------- MODULE MC_Puzzle -------------------------------
(***************************************************************************)
(* C11: for a puzzle and a board, every problem the module's format can    *)
(* express over its clue alphabet (or a seeded stride of them in the quick *)
(* tier), with what the published rules say: whether a solution exists     *)
(* and, for every answer key, the value all solutions agree on (-1 when    *)
(* two solutions disagree).                                                *)
(***************************************************************************)
EXTENDS PuzzleRules, Json, TLCExt, IOUtils, SequencesExt

Puzzle == IOEnv.PUZZLE
BH == atoi(IOEnv.BH)
BW == atoi(IOEnv.BW)
Count == atoi(IOEnv.COUNT)        \* 0 = every problem, else a seeded sample of this many
Seed == atoi(IOEnv.SEED)

N == BH * BW
Grids(A) == [1 .. N -> A]

(* castle wall cell code: 0 = no clue, else colour * 1000 + dir * 100 + n (colour 0 none, 1 white, 2 black) *)
CWArrow(v) == IF v = 0 THEN YEmpty ELSE v % 1000
CWColour(v) == v \div 1000

(* decided value of a boolean key over a set of solutions given as the sets where the key is true *)
BoolFacts(Sols, keys) == [i \in DOMAIN keys |->
    IF \A S \in Sols : keys[i] \in S THEN 1 ELSE IF \A S \in Sols : keys[i] \notin S THEN 0 ELSE -1]
MaskBit(mask, j) == (mask \div (2 ^ ((j - 1) % 16))) % 2 = 1          \* (clue vectors longer than 16 reuse the bits)
IntFacts(Sols, n) == [c \in 1 .. n |-> IF \A g1, g2 \in Sols : g1[c] = g2[c] THEN (CHOOSE g \in Sols : TRUE)[c] ELSE -1]
Range1(n) == [i \in 1 .. n |-> i]
Range0(n) == [i \in 1 .. n |-> i - 1]

(* TLC evaluates every constant definition at start-up: each candidate set is guarded by the puzzles that use it *)
FramePuzzles == {"slitherlink"}
CellLoopPuzzles == {"masyu", "yajilin", "simpleloop", "geradeweg", "castle_wall"}
(* TLC does not reliably cache zero-arity definitions, so the expensive candidate sets are computed ONCE, in the
   initial predicate, and carried in the state variable `pre` (never changed) *)
VARIABLES shard, pidx, pre
LoopsFInit == IF Puzzle \in FramePuzzles THEN FrameLoops(BH, BW) ELSE {}      \* loops on the frame of the board's cells
(* loops through the cell centres as [edges, steps] records: rules are evaluated on the steps, facts exported on the edges *)
LoopsCInit == IF Puzzle \in CellLoopPuzzles THEN {[edges |-> A, steps |-> StepsOf(BH, BW, A)] : A \in CellLoops(BH, BW)} ELSE {}
LoopsF == pre.loopsF
LoopsC == pre.loopsC
MF == Len(Lattice(BH, BW).edges)
MC == Len(Lattice(BH - 1, BW - 1).edges)

(* problems are numbered: problem q has, in cell c, the alphabet symbol given by digit c of q (base K) *)
Alpha ==
    CASE Puzzle = "slitherlink" -> <<-1, 0, 1, 2, 3, 4>>
      [] Puzzle = "masyu" -> <<0, 1, 2>>
      [] Puzzle = "yajilin" -> IF N <= 6 THEN <<YEmpty, YEmpty, YUnknown, 100, 101, 200, 201, 300, 301, 400, 401>>
                               ELSE <<YEmpty, YEmpty, YEmpty, YUnknown, 100, 201, 301, 400>>
      [] Puzzle = "simpleloop" -> <<0, 1>>
      [] Puzzle = "shakashaka" -> <<ShWhiteCode, ShWhiteCode, ShWhiteCode, ShWhiteCode, -1, 0, 1, 2>>
      [] Puzzle = "geradeweg" -> IF N <= 9 THEN <<0, 0, 0, 1, 2, 3>> ELSE <<0, 0, 1, 2, 3>>
      [] Puzzle = "castle_wall" -> IF N <= 6 THEN <<0, 0, 0, 0, 0, 0, 0, 0, 0, 0, 1100, 1101, 1200, 1201, 1300, 1301, 1400, 1401, 2100, 2201, 2301, 2400, 100, 201, 300, 401, 1000, 2000>>
                                   ELSE <<0, 0, 0, 0, 0, 2000, 1101, 2200, 1300, 2401>>      \* 1000 / 2000: a wall without arrow
      [] Puzzle = "nurikabe" -> <<0, 0, 0, 0, -1, 1, 2, 3, 4>>
      [] Puzzle \in {"nurikabe_low2", "nurikabe_low3"} -> <<0, 0, 0, 0, -1, -1, 1, 2, 3>>
      [] Puzzle = "akari" -> <<-2, -2, -2, -2, -1, 0, 1, 2>>
      [] Puzzle = "yinyang" -> <<0, 0, 1, 2>>
      [] Puzzle = "creek" -> IF (BH + 1) * (BW + 1) <= 9 THEN <<-1, -1, 0, 1, 2, 3, 4>>
                             ELSE IF (BH + 1) * (BW + 1) <= 12 THEN <<-1, -1, 0, 1, 2>> ELSE <<-1, 1, 2>>
      [] Puzzle = "nurimisaki" -> IF N <= 9 THEN <<-1, -1, -1, 0, 2, 3>> ELSE <<-1, -1, 0, 2, 3>>
      [] Puzzle = "gokigen" -> IF (BH + 1) * (BW + 1) <= 9 THEN <<-1, -1, 0, 1, 2, 3, 4>>
                               ELSE IF (BH + 1) * (BW + 1) <= 12 THEN <<-1, -1, 0, 1, 2>> ELSE <<-1, 1, 2>>
      [] OTHER -> <<0>>
K == Len(Alpha)
PointPuzzles == {"creek", "gokigen"}                      \* clues on the (h+1) x (w+1) lattice points
RoomPuzzles == {"norinori", "lits", "putteria", "heyawake", "aquarium", "starbattle"}
NCells == IF Puzzle \in PointPuzzles THEN (BH + 1) * (BW + 1) ELSE N
Extra == IF Puzzle = "simpleloop" THEN N ELSE 1          \* simpleloop: x every pivot cell
GridOf(q) == [c \in 1 .. NCells |-> Alpha[((q \div (K ^ (c - 1))) % K) + 1]]

(* room puzzles: problem = a connected room partition (restricted growth string) x a clue vector number *)
RECURSIVE RGS(_, _)
MaxOf(s) == IF s = <<>> THEN -1 ELSE LET S == {s[i] : i \in DOMAIN s} IN CHOOSE x \in S : \A y \in S : y <= x
RGS(n, s) == IF Len(s) = n THEN {s} ELSE UNION {RGS(n, Append(s, b)) : b \in 0 .. MaxOf(s) + 1}
ConnRgsInit == IF Puzzle \in RoomPuzzles
               THEN SetToSeq({r \in AllRGS(N) : (\A B \in RoomsOfRgs(r) : ConnCells(BH, BW, B))
                                                /\ (Puzzle = "starbattle" => MaxOf(r) + 1 = BH)})
               ELSE <<>>
ConnRgs == pre.connRgs
ClueVariants == CASE Puzzle = "heyawake" -> 4 [] Puzzle = "aquarium" -> 6 [] Puzzle = "starbattle" -> 2 [] OTHER -> 1
HeyaClues(r, j) == [k \in 1 .. MaxOf(r) + 1 |-> <<-1, 0, 1, 2, -1, 1>>[((k + j) % 6) + 1]]
AquaClues(j) == [i \in 1 .. BH + BW |-> <<-1, 0, 1, 2, -1, 3, 1>>[((i * (j + 1) + j) % 7) + 1]]
RoomProb(q) == LET r == ConnRgs[(q % Len(ConnRgs)) + 1]  j == q \div Len(ConnRgs) IN
               CASE Puzzle = "heyawake" -> <<r, HeyaClues(r, j)>>
                 [] Puzzle = "aquarium" -> <<r, AquaClues(j)>>
                 [] Puzzle = "starbattle" -> <<r, <<j + 1>>>>
                 [] OTHER -> <<r, <<>>>>

DrawnPuzzles == {"sudoku", "building", "doppelblock", "fillomino", "view"}

Solve(p) ==
    CASE Puzzle = "slitherlink" ->
            LET S == TLCEval({A \in LoopsF : Slitherlink(BH, BW, p, A)}) IN
            [sat |-> S # {}, facts |-> IF S = {} THEN <<>> ELSE BoolFacts(S, Range1(MF)), nsol |-> Cardinality(S)]
      [] Puzzle = "masyu" ->
            LET S == TLCEval({L.edges : L \in {L \in LoopsC : Masyu(BH, BW, p, L.steps)}}) IN
            [sat |-> S # {}, facts |-> IF S = {} THEN <<>> ELSE BoolFacts(S, Range1(MC)), nsol |-> Cardinality(S)]
      [] Puzzle = "yajilin" ->
            LET S == TLCEval({L \in LoopsC : Yajilin(BH, BW, p, L.steps)}) IN
            [sat |-> S # {},
             facts |-> IF S = {} THEN <<>>
                       ELSE BoolFacts({L.edges : L \in S}, Range1(MC)) \o
                            BoolFacts({YajilinBlack(BH, BW, p, L.steps) : L \in S}, Range0(N)),
             nsol |-> Cardinality(S)]
      [] Puzzle = "simpleloop" ->
            LET S == TLCEval({L.edges : L \in {L \in LoopsC : SimpleLoop(BH, BW, p[1], p[2][1], L.steps)}}) IN
            [sat |-> S # {}, facts |-> IF S = {} THEN <<>> ELSE BoolFacts(S, Range1(MC)), nsol |-> Cardinality(S)]
      [] Puzzle = "geradeweg" ->
            LET S == TLCEval({L.edges : L \in {L \in LoopsC : Geradeweg(BH, BW, p, L.steps)}}) IN
            [sat |-> S # {}, facts |-> IF S = {} THEN <<>> ELSE BoolFacts(S, Range1(MC)), nsol |-> Cardinality(S)]
      [] Puzzle = "castle_wall" ->
            LET arrows == [c \in 1 .. N |-> CWArrow(p[c])]  colours == [c \in 1 .. N |-> CWColour(p[c])]
                S == TLCEval({L.edges : L \in {L \in LoopsC : CastleWall(BH, BW, arrows, colours, L.steps)}}) IN
            [sat |-> S # {}, facts |-> IF S = {} THEN <<>> ELSE BoolFacts(S, Range1(MC)), nsol |-> Cardinality(S)]

(* cell-colouring puzzles: the answer is the set of cells whose key is true *)
CellPuzzles == {"nurikabe", "nurikabe_low2", "nurikabe_low3", "norinori", "akari", "starbattle", "yinyang", "creek", "heyawake", "lits", "nurimisaki",
                "putteria", "aquarium", "gokigen"}
CellSetsInit == IF Puzzle \in CellPuzzles THEN SUBSET Cells(BH, BW) ELSE {}
CellSets == pre.cellSets
CellRule(p, S) ==
    CASE Puzzle = "nurikabe" -> Nurikabe(BH, BW, p, S)
      [] Puzzle = "nurikabe_low2" -> NurikabeLow(BH, BW, p, S, 2)
      [] Puzzle = "nurikabe_low3" -> NurikabeLow(BH, BW, p, S, 3)
      [] Puzzle = "norinori" -> Norinori(BH, BW, p[1], S)
      [] Puzzle = "akari" -> Akari(BH, BW, p, S)
      [] Puzzle = "starbattle" -> StarBattle(BH, p[2][1], p[1], S)
      [] Puzzle = "yinyang" -> YinYang(BH, BW, p, S)
      [] Puzzle = "creek" -> Creek(BH, BW, p, S)
      [] Puzzle = "heyawake" -> Heyawake(BH, BW, p[1], p[2], S)
      [] Puzzle = "lits" -> Lits(BH, BW, p[1], S)
      [] Puzzle = "nurimisaki" -> Nurimisaki(BH, BW, p, S)
      [] Puzzle = "putteria" -> Putteria(BH, BW, p[1], S)
      [] Puzzle = "aquarium" -> Aquarium(BH, BW, p[1], SubSeq(p[2], 1, BH), SubSeq(p[2], BH + 1, BH + BW), S)
      [] Puzzle = "gokigen" -> Gokigen(BH, BW, p, S)
SolveCells(p) ==
    LET S == TLCEval({X \in CellSets : CellRule(p, X)}) IN
    [sat |-> S # {}, facts |-> IF S = {} THEN <<>> ELSE BoolFacts(S, Range0(N)), nsol |-> Cardinality(S)]

(* ---- fivecells: holes given as a bit mask; divisions = labelings of the live cells into connected blocks of five ---- *)
HoleMask == atoi(IOEnv.HOLEMASK)
Holes == {c \in Cells(BH, BW) : (HoleMask \div (2 ^ c)) % 2 = 1}
RECURSIVE GrowFive(_, _)
(* restricted growth strings over the cells in order; hole cells get -1; no block larger than five *)
GrowFive(n, S) ==
    IF \A s \in S : Len(s) = n THEN S
    ELSE GrowFive(n, TLCEval(UNION {
            LET c == Len(s)
                live == {i \in DOMAIN s : s[i] >= 0}
                mx == IF live = {} THEN -1 ELSE CHOOSE v \in {s[i] : i \in live} : \A i \in live : s[i] <= v
            IN  IF c \in Holes THEN {Append(s, -1)}
                ELSE {Append(s, b) : b \in {b \in 0 .. mx + 1 : Cardinality({i \in live : s[i] = b}) < 5}}
          : s \in S}))
FivesInit == IF Puzzle = "fivecells"
             THEN SetToSeq({lab \in GrowFive(N, {<<>>}) : FiveDivision(BH, BW, Holes, lab)}) ELSE <<>>
Fives == pre.fives
(* edges of the board graph in the order solve_fivecells adds them: for y, for x: the lower neighbour, then the right one *)
RECURSIVE FiveEdgesFrom(_)
FiveEdgesFrom(c) ==
    IF c >= N THEN <<>>
    ELSE (IF c \notin Holes /\ RowOf(BW, c) < BH - 1 /\ c + BW \notin Holes THEN <<<<c, c + BW>>>> ELSE <<>>) \o
         (IF c \notin Holes /\ ColOf(BW, c) < BW - 1 /\ c + 1 \notin Holes THEN <<<<c, c + 1>>>> ELSE <<>>) \o FiveEdgesFrom(c + 1)
FiveEdges == FiveEdgesFrom(0)
FiveProb(q) ==
    LET lab == Fives[(q % Len(Fives)) + 1]
        mask == (q \div Len(Fives)) % 4096
        corrupt == (q \div (Len(Fives) * 4096)) % 2 = 1
        live == Cells(BH, BW) \ Holes
        shown == {c \in live : MaskBit(mask, c + 1)}
        first == IF shown = {} THEN -1 ELSE CHOOSE c \in shown : \A d \in shown : c <= d
    IN  [c \in 1 .. N |-> IF c - 1 \in Holes THEN -2
                          ELSE IF c - 1 \notin shown THEN -1
                          ELSE IF corrupt /\ c - 1 = first THEN (FiveSides(BH, BW, Holes, lab, c - 1) + 1) % 5
                          ELSE FiveSides(BH, BW, Holes, lab, c - 1)]
SolveFive(p) ==
    LET S == {Fives[k] : k \in {k \in DOMAIN Fives : Fivecells(BH, BW, Holes, p, Fives[k])}}
        FE == FiveEdges IN
    [sat |-> S # {},
     facts |-> IF S = {} THEN <<>>
               ELSE [e \in DOMAIN FE |-> IF \A lab \in S : lab[FE[e][1] + 1] # lab[FE[e][2] + 1] THEN 1
                                        ELSE IF \A lab \in S : lab[FE[e][1] + 1] = lab[FE[e][2] + 1] THEN 0 ELSE -1],
     nsol |-> Cardinality(S)]

(* ---- shakashaka: answers are all grids 0..4 (the rule forces 0 on block cells) ---- *)
ShakaInit == IF Puzzle = "shakashaka" THEN [1 .. N -> 0 .. 4] ELSE {}
SolveShaka(p) ==
    LET S == {a \in pre.shaka : Shakashaka(BH, BW, p, a)} IN
    [sat |-> S # {}, facts |-> IF S = {} THEN <<>> ELSE IntFacts(S, N), nsol |-> Cardinality(S)]

(* ---- number-grid puzzles: the candidate answers are the valid grids, built row by row ---- *)
GridPuzzles == {"sudoku", "building", "doppelblock"}
SZ == IF Puzzle = "sudoku" THEN BH * BH ELSE BH                \* side of the square grid (sudoku: BH = box size n)
RowsOf == CASE Puzzle = "doppelblock" -> {s \in [1 .. SZ -> 0 .. SZ - 2] : DoppelLine(SZ, s)}
            [] OTHER -> {s \in [1 .. SZ -> 1 .. SZ] : Distinct(s)}
ColsOKSoFar(rows) ==      \* no value twice in a column (doppelblock: at most two blacks, each number at most once)
    \A x \in 1 .. SZ :
        IF Puzzle = "doppelblock"
        THEN /\ Cardinality({y \in DOMAIN rows : rows[y][x] = 0}) <= 2
             /\ \A v \in 1 .. SZ - 2 : Cardinality({y \in DOMAIN rows : rows[y][x] = v}) <= 1
        ELSE Cardinality({rows[y][x] : y \in DOMAIN rows}) = Len(rows)
RECURSIVE GrowRows(_)
GrowRows(S) == IF \A r \in S : Len(r) = SZ THEN S
               ELSE GrowRows(TLCEval({r2 \in {Append(r, s) : r \in S, s \in RowsOf} : ColsOKSoFar(r2)}))
FlatGrid(rows) == [c \in 1 .. SZ * SZ |-> rows[((c - 1) \div SZ) + 1][((c - 1) % SZ) + 1]]
GridsInit == IF Puzzle \in GridPuzzles
             THEN SetToSeq({g \in {FlatGrid(r) : r \in GrowRows({<<>>})} :
                              CASE Puzzle = "sudoku" -> SudokuGrid(BH, g) [] Puzzle = "building" -> LatinGrid(SZ, g)
                                [] OTHER -> DoppelGrid(SZ, g)})
             ELSE IF Puzzle = "fillomino" THEN SetToSeq({r \in AllRGS(N) : FillominoPartition(BH, BW, r)})
             ELSE IF Puzzle = "compass" THEN SetToSeq({r \in AllRGS(N) : RgsMax(r) <= 2 /\ \A B \in RoomsOfRgs(r) : ConnCells(BH, BW, B)})
             ELSE <<>>
AnsGrids == pre.grids
ViewsInit == IF Puzzle = "view" THEN SetToSeq({S \in SUBSET Cells(BH, BW) : ViewValid(BH, BW, S)}) ELSE <<>>
Views == pre.views

(* a problem of these puzzles is drawn from a solution: the clue vector the solution implies, masked, optionally with one
   clue corrupted; q = solution index + NSol * (mask + NMask * corrupt) *)
NSolG == CASE Puzzle = "view" -> Len(Views) [] OTHER -> Len(AnsGrids)
NClues == CASE Puzzle = "sudoku" -> SZ * SZ [] Puzzle = "building" -> 4 * SZ [] Puzzle = "doppelblock" -> 2 * SZ
            [] Puzzle \in {"fillomino", "view"} -> N [] Puzzle = "compass" -> 12 [] OTHER -> 0
NMask == 2 ^ (IF NClues > 16 THEN 16 ELSE NClues)
TrueClues(sidx) ==
    CASE Puzzle = "sudoku" -> AnsGrids[sidx]
      [] Puzzle = "building" ->
            LET g == AnsGrids[sidx] IN
            [j \in 1 .. 4 * SZ |->
                LET i == ((j - 1) % SZ)  side == (j - 1) \div SZ IN
                CASE side = 0 -> VisibleCount(ColSeq(SZ, SZ, g, i)) [] side = 1 -> VisibleCount(RevSeq(ColSeq(SZ, SZ, g, i)))
                  [] side = 2 -> VisibleCount(RowSeq(SZ, g, i)) [] OTHER -> VisibleCount(RevSeq(RowSeq(SZ, g, i)))]
      [] Puzzle = "doppelblock" ->
            LET g == AnsGrids[sidx] IN
            [j \in 1 .. 2 * SZ |-> IF j <= SZ THEN BetweenSum(RowSeq(SZ, g, j - 1)) ELSE BetweenSum(ColSeq(SZ, SZ, g, j - SZ - 1))]
      [] Puzzle = "fillomino" -> SizeGrid(AnsGrids[sidx])
      [] Puzzle = "view" -> ViewNums(BH, BW, Views[sidx])
NoClue == IF Puzzle \in {"sudoku", "building", "fillomino"} THEN 0 ELSE -1
DrawnClues(q) ==
    LET sidx == (q % NSolG) + 1
        mask == (q \div NSolG) % NMask
        corrupt == (q \div (NSolG * NMask)) % 2 = 1
        tc == TrueClues(sidx)
        shown == {j \in DOMAIN tc : MaskBit(mask, j) /\ (Puzzle = "view" => (j - 1) \in Views[sidx])}
        first == IF shown = {} THEN 0 ELSE CHOOSE j \in shown : \A k \in shown : j <= k
    IN  [j \in DOMAIN tc |-> IF j \notin shown THEN NoClue
                             ELSE IF corrupt /\ j = first THEN (IF Puzzle \in {"doppelblock", "view", "fillomino"} THEN tc[j] + 1 ELSE (tc[j] % SZ) + 1)
                             ELSE tc[j]]
(* compass: a partition with at most 3 regions, one compass per region (its v-th cell), true counts masked *)
CompassProb(q) ==
    LET r == AnsGrids[(q % NSolG) + 1]
        v == (q \div NSolG) % 3
        mask == (q \div (NSolG * 3)) % 4096
        corrupt == (q \div (NSolG * 3 * 4096)) % 2 = 1
        blocks == [b \in 0 .. RgsMax(r) |-> {c \in Cells(BH, BW) : r[c + 1] = b}]
        pick(B) == LET q2 == SetToSeq(B) IN q2[(v % Len(q2)) + 1]
    IN  [k \in 1 .. RgsMax(r) + 1 |->
            LET B == blocks[k - 1]  cc == pick(B)  cy == RowOf(BW, cc)  cx == ColOf(BW, cc)
                cnt == <<Cardinality({c \in B : RowOf(BW, c) < cy}), Cardinality({c \in B : ColOf(BW, c) < cx}),
                         Cardinality({c \in B : RowOf(BW, c) > cy}), Cardinality({c \in B : ColOf(BW, c) > cx})>>
            IN  <<cc>> \o [d \in 1 .. 4 |-> IF MaskBit(mask, (k - 1) * 4 + d) THEN (IF corrupt /\ k = 1 /\ d = 1 THEN cnt[d] + 1 ELSE cnt[d]) ELSE -1]]

Total == IF Puzzle \in RoomPuzzles THEN Len(ConnRgs) * ClueVariants
         ELSE IF Puzzle \in DrawnPuzzles THEN NSolG * NMask * 2
         ELSE IF Puzzle = "compass" THEN NSolG * 3 * 4096 * 2
         ELSE IF Puzzle = "fivecells" THEN Len(Fives) * 4096 * 2
         ELSE (K ^ NCells) * Extra
Prob(q) == IF Puzzle = "simpleloop" THEN <<GridOf(q % (K ^ NCells)), <<q \div (K ^ NCells)>>>>
           ELSE IF Puzzle \in RoomPuzzles THEN RoomProb(q)
           ELSE IF Puzzle \in DrawnPuzzles THEN DrawnClues(q)
           ELSE IF Puzzle = "compass" THEN CompassProb(q)
           ELSE IF Puzzle = "fivecells" THEN FiveProb(q) ELSE GridOf(q)

SolveGrid(p) ==
    LET all == {AnsGrids[k] : k \in DOMAIN AnsGrids}
        S == CASE Puzzle = "sudoku" -> {g \in all : Givens(p, g)}
               [] Puzzle = "building" -> {g \in all : Building(SZ, SubSeq(p, 1, SZ), SubSeq(p, SZ + 1, 2 * SZ), SubSeq(p, 2 * SZ + 1, 3 * SZ), SubSeq(p, 3 * SZ + 1, 4 * SZ), g)}
               [] Puzzle = "doppelblock" -> {g \in all : Doppelblock(SZ, SubSeq(p, 1, SZ), SubSeq(p, SZ + 1, 2 * SZ), g)}
               [] Puzzle = "fillomino" -> {SizeGrid(r) : r \in {r \in all : Givens(p, SizeGrid(r))}}
    IN  [sat |-> S # {}, facts |-> IF S = {} THEN <<>> ELSE IntFacts(S, Len(CHOOSE g \in S : TRUE)), nsol |-> Cardinality(S)]
SolveView(p) ==
    LET S == {Views[k] : k \in {k \in DOMAIN Views : View(BH, BW, p, Views[k])}} IN
    [sat |-> S # {},
     facts |-> IF S = {} THEN <<>> ELSE IntFacts({ViewNums(BH, BW, X) : X \in S}, N) \o BoolFacts(S, Range0(N)),
     nsol |-> Cardinality(S)]
SolveCompass(p) ==
    LET labs == {[c \in 1 .. N |-> f[c]] : f \in [1 .. N -> 0 .. Len(p) - 1]}
        S == {lab \in labs : Compass(BH, BW, p, lab)} IN
    [sat |-> S # {}, facts |-> IF S = {} THEN <<>> ELSE IntFacts(S, N), nsol |-> Cardinality(S)]

(* which problem numbers this run covers *)
Picked == LET T == Total IN
          IF Count = 0 \/ Count >= T THEN 0 .. T - 1
          ELSE {((Seed % 1000) * 7919 + j * ((T \div Count) + 1) + ((j * j) % 97)) % T : j \in 1 .. Count}

Init == /\ pre = [loopsF |-> TLCEval(LoopsFInit), loopsC |-> TLCEval(LoopsCInit), connRgs |-> TLCEval(ConnRgsInit),
                  cellSets |-> TLCEval(CellSetsInit), grids |-> TLCEval(GridsInit), views |-> TLCEval(ViewsInit),
                  fives |-> TLCEval(FivesInit), shaka |-> TLCEval(ShakaInit)]
        /\ shard = -1 /\ pidx = -1
(* one initial state (so that `pre` is computed once); it fans out into 64 shards, each of which fans out into its problems *)
Next == \/ (shard = -1 /\ shard' \in 0 .. 63 /\ UNCHANGED <<pidx, pre>>)
        \/ (shard >= 0 /\ pidx = -1 /\ pidx' \in {j \in Picked : j % 64 = shard} /\ UNCHANGED <<shard, pre>>)
SolveAny(p) == IF Puzzle \in CellPuzzles THEN SolveCells(p)
               ELSE IF Puzzle \in GridPuzzles \cup {"fillomino"} THEN SolveGrid(p)
               ELSE IF Puzzle = "view" THEN SolveView(p)
               ELSE IF Puzzle = "compass" THEN SolveCompass(p)
               ELSE IF Puzzle = "fivecells" THEN SolveFive(p)
               ELSE IF Puzzle = "shakashaka" THEN SolveShaka(p) ELSE Solve(p)
Export == pidx = -1 \/ PrintT(ToJson([id |-> pidx, puzzle |-> Puzzle, h |-> BH, w |-> BW, problem |-> Prob(pidx)] @@ SolveAny(Prob(pidx))))
=============================================================================
