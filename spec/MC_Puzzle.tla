------------------------------- MODULE MC_Puzzle -------------------------------
(***************************************************************************)
(* C11: for a puzzle and a board, every problem the module's format can    *)
(* express over its clue alphabet (or a seeded stride of them in the quick *)
(* tier), with what the published rules say: whether a solution exists     *)
(* and, for every answer key, the value all solutions agree on (-1 when    *)
(* two solutions disagree).                                                *)
(***************************************************************************)
EXTENDS PuzzleRules, Json, TLCExt, IOUtils, SequencesExt

Puzzle == IOEnv.PUZZLE
BH == atoi(IOEnv.BH)
BW == atoi(IOEnv.BW)
Count == atoi(IOEnv.COUNT)        \* 0 = every problem, else a seeded sample of this many
Seed == atoi(IOEnv.SEED)

N == BH * BW
Grids(A) == [1 .. N -> A]

(* decided value of a boolean key over a set of solutions given as the sets where the key is true *)
BoolFacts(Sols, keys) == [i \in DOMAIN keys |->
    IF \A S \in Sols : keys[i] \in S THEN 1 ELSE IF \A S \in Sols : keys[i] \notin S THEN 0 ELSE -1]
Range1(n) == [i \in 1 .. n |-> i]
Range0(n) == [i \in 1 .. n |-> i - 1]

(* TLC evaluates every constant definition at start-up: each candidate set is guarded by the puzzles that use it *)
FramePuzzles == {"slitherlink"}
CellLoopPuzzles == {"masyu", "yajilin", "simpleloop", "geradeweg", "castle_wall"}
LoopsF == IF Puzzle \in FramePuzzles THEN TLCEval(FrameLoops(BH, BW)) ELSE {}      \* loops on the frame of the board's cells
LoopsCE == IF Puzzle \in CellLoopPuzzles THEN TLCEval(CellLoops(BH, BW)) ELSE {}   \* loops through the cell centres (edge sets)
(* the same loops as [edges, steps] records: rules are evaluated on the steps, facts exported on the edges *)
LoopsC == TLCEval({[edges |-> A, steps |-> StepsOf(BH, BW, A)] : A \in LoopsCE})
MF == Len(Lattice(BH, BW).edges)
MC == Len(Lattice(BH - 1, BW - 1).edges)

(* problems are numbered: problem q has, in cell c, the alphabet symbol given by digit c of q (base K) *)
Alpha ==
    CASE Puzzle = "slitherlink" -> <<-1, 0, 1, 2, 3, 4>>
      [] Puzzle = "masyu" -> <<0, 1, 2>>
      [] Puzzle = "yajilin" -> IF N <= 6 THEN <<YEmpty, YEmpty, YUnknown, 100, 101, 200, 201, 300, 301, 400, 401>>
                               ELSE <<YEmpty, YEmpty, YEmpty, YUnknown, 100, 201, 301, 400>>
      [] Puzzle = "simpleloop" -> <<0, 1>>
K == Len(Alpha)
NCells == N
Extra == IF Puzzle = "simpleloop" THEN N ELSE 1          \* simpleloop: x every pivot cell
Total == (K ^ NCells) * Extra
GridOf(q) == [c \in 1 .. NCells |-> Alpha[((q \div (K ^ (c - 1))) % K) + 1]]
Prob(q) == IF Puzzle = "simpleloop" THEN <<GridOf(q % (K ^ NCells)), <<q \div (K ^ NCells)>>>> ELSE GridOf(q)

Solve(p) ==
    CASE Puzzle = "slitherlink" ->
            LET S == TLCEval({A \in LoopsF : Slitherlink(BH, BW, p, A)}) IN
            [sat |-> S # {}, facts |-> IF S = {} THEN <<>> ELSE BoolFacts(S, Range1(MF)), nsol |-> Cardinality(S)]
      [] Puzzle = "masyu" ->
            LET S == TLCEval({L.edges : L \in {L \in LoopsC : Masyu(BH, BW, p, L.steps)}}) IN
            [sat |-> S # {}, facts |-> IF S = {} THEN <<>> ELSE BoolFacts(S, Range1(MC)), nsol |-> Cardinality(S)]
      [] Puzzle = "yajilin" ->
            LET S == TLCEval({L \in LoopsC : Yajilin(BH, BW, p, L.steps)}) IN
            [sat |-> S # {},
             facts |-> IF S = {} THEN <<>>
                       ELSE BoolFacts({L.edges : L \in S}, Range1(MC)) \o
                            BoolFacts({YajilinBlack(BH, BW, p, L.steps) : L \in S}, Range0(N)),
             nsol |-> Cardinality(S)]
      [] Puzzle = "simpleloop" ->
            LET S == TLCEval({L.edges : L \in {L \in LoopsC : SimpleLoop(BH, BW, p[1], p[2][1], L.steps)}}) IN
            [sat |-> S # {}, facts |-> IF S = {} THEN <<>> ELSE BoolFacts(S, Range1(MC)), nsol |-> Cardinality(S)]

(* which problem numbers this run covers *)
Picked == TLCEval(IF Count = 0 \/ Count >= Total THEN 0 .. Total - 1
                  ELSE {((Seed % 1000) * 7919 + j * ((Total \div Count) + 1) + ((j * j) % 97)) % Total : j \in 1 .. Count})

VARIABLES shard, i
Init == shard \in 0 .. 63 /\ i = -1
Next == i = -1 /\ i' \in {j \in Picked : j % 64 = shard} /\ shard' = shard
Export == i = -1 \/ PrintT(ToJson([id |-> i, puzzle |-> Puzzle, h |-> BH, w |-> BW, problem |-> Prob(i)] @@ Solve(Prob(i))))
=============================================================================
