------------------------------- MODULE MC_Puzzle -------------------------------
(***************************************************************************)
(* C11: for a puzzle and a board, every problem the module's format can    *)
(* express over its clue alphabet (or a seeded stride of them in the quick *)
(* tier), with what the published rules say: whether a solution exists     *)
(* and, for every answer key, the value all solutions agree on (-1 when    *)
(* two solutions disagree).                                                *)
(***************************************************************************)
EXTENDS PuzzleRules, Json, TLCExt, IOUtils, SequencesExt

Puzzle == IOEnv.PUZZLE
BH == atoi(IOEnv.BH)
BW == atoi(IOEnv.BW)
Count == atoi(IOEnv.COUNT)        \* 0 = every problem, else a seeded sample of this many
Seed == atoi(IOEnv.SEED)

N == BH * BW
Grids(A) == [1 .. N -> A]

(* decided value of a boolean key over a set of solutions given as the sets where the key is true *)
BoolFacts(Sols, keys) == [i \in DOMAIN keys |->
    IF \A S \in Sols : keys[i] \in S THEN 1 ELSE IF \A S \in Sols : keys[i] \notin S THEN 0 ELSE -1]
Range1(n) == [i \in 1 .. n |-> i]
Range0(n) == [i \in 1 .. n |-> i - 1]

(* TLC evaluates every constant definition at start-up: each candidate set is guarded by the puzzles that use it *)
FramePuzzles == {"slitherlink"}
CellLoopPuzzles == {"masyu", "yajilin", "simpleloop", "geradeweg", "castle_wall"}
(* TLC does not reliably cache zero-arity definitions, so the expensive candidate sets are computed ONCE, in the
   initial predicate, and carried in the state variable `pre` (never changed) *)
VARIABLES shard, pidx, pre
LoopsFInit == IF Puzzle \in FramePuzzles THEN FrameLoops(BH, BW) ELSE {}      \* loops on the frame of the board's cells
(* loops through the cell centres as [edges, steps] records: rules are evaluated on the steps, facts exported on the edges *)
LoopsCInit == IF Puzzle \in CellLoopPuzzles THEN {[edges |-> A, steps |-> StepsOf(BH, BW, A)] : A \in CellLoops(BH, BW)} ELSE {}
LoopsF == pre.loopsF
LoopsC == pre.loopsC
MF == Len(Lattice(BH, BW).edges)
MC == Len(Lattice(BH - 1, BW - 1).edges)

(* problems are numbered: problem q has, in cell c, the alphabet symbol given by digit c of q (base K) *)
Alpha ==
    CASE Puzzle = "slitherlink" -> <<-1, 0, 1, 2, 3, 4>>
      [] Puzzle = "masyu" -> <<0, 1, 2>>
      [] Puzzle = "yajilin" -> IF N <= 6 THEN <<YEmpty, YEmpty, YUnknown, 100, 101, 200, 201, 300, 301, 400, 401>>
                               ELSE <<YEmpty, YEmpty, YEmpty, YUnknown, 100, 201, 301, 400>>
      [] Puzzle = "simpleloop" -> <<0, 1>>
      [] Puzzle = "nurikabe" -> <<0, 0, 0, 0, -1, 1, 2, 3, 4>>
      [] Puzzle = "akari" -> <<-2, -2, -2, -2, -1, 0, 1, 2>>
      [] Puzzle = "yinyang" -> <<0, 0, 1, 2>>
      [] Puzzle = "creek" -> IF (BH + 1) * (BW + 1) <= 9 THEN <<-1, -1, 0, 1, 2, 3, 4>>
                             ELSE IF (BH + 1) * (BW + 1) <= 12 THEN <<-1, -1, 0, 1, 2>> ELSE <<-1, 1, 2>>
      [] Puzzle = "nurimisaki" -> <<-1, -1, -1, 0, 2, 3>>
      [] Puzzle = "gokigen" -> IF (BH + 1) * (BW + 1) <= 9 THEN <<-1, -1, 0, 1, 2, 3, 4>>
                               ELSE IF (BH + 1) * (BW + 1) <= 12 THEN <<-1, -1, 0, 1, 2>> ELSE <<-1, 1, 2>>
      [] OTHER -> <<0>>
K == Len(Alpha)
PointPuzzles == {"creek", "gokigen"}                      \* clues on the (h+1) x (w+1) lattice points
RoomPuzzles == {"norinori", "lits", "putteria", "heyawake", "aquarium", "starbattle"}
NCells == IF Puzzle \in PointPuzzles THEN (BH + 1) * (BW + 1) ELSE N
Extra == IF Puzzle = "simpleloop" THEN N ELSE 1          \* simpleloop: x every pivot cell
GridOf(q) == [c \in 1 .. NCells |-> Alpha[((q \div (K ^ (c - 1))) % K) + 1]]

(* room puzzles: problem = a connected room partition (restricted growth string) x a clue vector number *)
RECURSIVE RGS(_, _)
MaxOf(s) == IF s = <<>> THEN -1 ELSE LET S == {s[i] : i \in DOMAIN s} IN CHOOSE x \in S : \A y \in S : y <= x
RGS(n, s) == IF Len(s) = n THEN {s} ELSE UNION {RGS(n, Append(s, b)) : b \in 0 .. MaxOf(s) + 1}
ConnRgsInit == IF Puzzle \in RoomPuzzles
               THEN SetToSeq({r \in AllRGS(N) : (\A B \in RoomsOfRgs(r) : ConnCells(BH, BW, B))
                                                /\ (Puzzle = "starbattle" => MaxOf(r) + 1 = BH)})
               ELSE <<>>
ConnRgs == pre.connRgs
ClueVariants == CASE Puzzle = "heyawake" -> 4 [] Puzzle = "aquarium" -> 6 [] Puzzle = "starbattle" -> 2 [] OTHER -> 1
HeyaClues(r, j) == [k \in 1 .. MaxOf(r) + 1 |-> <<-1, 0, 1, 2, -1, 1>>[((k + j) % 6) + 1]]
AquaClues(j) == [i \in 1 .. BH + BW |-> <<-1, 0, 1, 2, -1, 3, 1>>[((i * (j + 1) + j) % 7) + 1]]
RoomProb(q) == LET r == ConnRgs[(q % Len(ConnRgs)) + 1]  j == q \div Len(ConnRgs) IN
               CASE Puzzle = "heyawake" -> <<r, HeyaClues(r, j)>>
                 [] Puzzle = "aquarium" -> <<r, AquaClues(j)>>
                 [] Puzzle = "starbattle" -> <<r, <<j + 1>>>>
                 [] OTHER -> <<r, <<>>>>

Total == IF Puzzle \in RoomPuzzles THEN Len(ConnRgs) * ClueVariants ELSE (K ^ NCells) * Extra
Prob(q) == IF Puzzle = "simpleloop" THEN <<GridOf(q % (K ^ NCells)), <<q \div (K ^ NCells)>>>>
           ELSE IF Puzzle \in RoomPuzzles THEN RoomProb(q) ELSE GridOf(q)

Solve(p) ==
    CASE Puzzle = "slitherlink" ->
            LET S == TLCEval({A \in LoopsF : Slitherlink(BH, BW, p, A)}) IN
            [sat |-> S # {}, facts |-> IF S = {} THEN <<>> ELSE BoolFacts(S, Range1(MF)), nsol |-> Cardinality(S)]
      [] Puzzle = "masyu" ->
            LET S == TLCEval({L.edges : L \in {L \in LoopsC : Masyu(BH, BW, p, L.steps)}}) IN
            [sat |-> S # {}, facts |-> IF S = {} THEN <<>> ELSE BoolFacts(S, Range1(MC)), nsol |-> Cardinality(S)]
      [] Puzzle = "yajilin" ->
            LET S == TLCEval({L \in LoopsC : Yajilin(BH, BW, p, L.steps)}) IN
            [sat |-> S # {},
             facts |-> IF S = {} THEN <<>>
                       ELSE BoolFacts({L.edges : L \in S}, Range1(MC)) \o
                            BoolFacts({YajilinBlack(BH, BW, p, L.steps) : L \in S}, Range0(N)),
             nsol |-> Cardinality(S)]
      [] Puzzle = "simpleloop" ->
            LET S == TLCEval({L.edges : L \in {L \in LoopsC : SimpleLoop(BH, BW, p[1], p[2][1], L.steps)}}) IN
            [sat |-> S # {}, facts |-> IF S = {} THEN <<>> ELSE BoolFacts(S, Range1(MC)), nsol |-> Cardinality(S)]

(* cell-colouring puzzles: the answer is the set of cells whose key is true *)
CellPuzzles == {"nurikabe", "norinori", "akari", "starbattle", "yinyang", "creek", "heyawake", "lits", "nurimisaki",
                "putteria", "aquarium", "gokigen"}
CellSetsInit == IF Puzzle \in CellPuzzles THEN SUBSET Cells(BH, BW) ELSE {}
CellSets == pre.cellSets
CellRule(p, S) ==
    CASE Puzzle = "nurikabe" -> Nurikabe(BH, BW, p, S)
      [] Puzzle = "norinori" -> Norinori(BH, BW, p[1], S)
      [] Puzzle = "akari" -> Akari(BH, BW, p, S)
      [] Puzzle = "starbattle" -> StarBattle(BH, p[2][1], p[1], S)
      [] Puzzle = "yinyang" -> YinYang(BH, BW, p, S)
      [] Puzzle = "creek" -> Creek(BH, BW, p, S)
      [] Puzzle = "heyawake" -> Heyawake(BH, BW, p[1], p[2], S)
      [] Puzzle = "lits" -> Lits(BH, BW, p[1], S)
      [] Puzzle = "nurimisaki" -> Nurimisaki(BH, BW, p, S)
      [] Puzzle = "putteria" -> Putteria(BH, BW, p[1], S)
      [] Puzzle = "aquarium" -> Aquarium(BH, BW, p[1], SubSeq(p[2], 1, BH), SubSeq(p[2], BH + 1, BH + BW), S)
      [] Puzzle = "gokigen" -> Gokigen(BH, BW, p, S)
SolveCells(p) ==
    LET S == TLCEval({X \in CellSets : CellRule(p, X)}) IN
    [sat |-> S # {}, facts |-> IF S = {} THEN <<>> ELSE BoolFacts(S, Range0(N)), nsol |-> Cardinality(S)]

(* which problem numbers this run covers *)
Picked == LET T == Total IN
          IF Count = 0 \/ Count >= T THEN 0 .. T - 1
          ELSE {((Seed % 1000) * 7919 + j * ((T \div Count) + 1) + ((j * j) % 97)) % T : j \in 1 .. Count}

Init == /\ pre = [loopsF |-> TLCEval(LoopsFInit), loopsC |-> TLCEval(LoopsCInit), connRgs |-> TLCEval(ConnRgsInit),
                  cellSets |-> TLCEval(CellSetsInit)]
        /\ shard = -1 /\ pidx = -1
(* one initial state (so that `pre` is computed once); it fans out into 64 shards, each of which fans out into its problems *)
Next == \/ (shard = -1 /\ shard' \in 0 .. 63 /\ UNCHANGED <<pidx, pre>>)
        \/ (shard >= 0 /\ pidx = -1 /\ pidx' \in {j \in Picked : j % 64 = shard} /\ UNCHANGED <<shard, pre>>)
SolveAny(p) == IF Puzzle \in CellPuzzles THEN SolveCells(p) ELSE Solve(p)
Export == pidx = -1 \/ PrintT(ToJson([id |-> pidx, puzzle |-> Puzzle, h |-> BH, w |-> BW, problem |-> Prob(pidx)] @@ SolveAny(Prob(pidx))))
=============================================================================
