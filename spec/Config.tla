-------------------------------- MODULE Config --------------------------------
(***************************************************************************)
(* Process-wide configuration as a state machine (C20).                    *)
(*   environment -> Config() at construction -> attribute assignments ->   *)
(*   per-call overrides in find_answer/solve and in the graph helpers.     *)
(* cfg.status is "unset" before construction, "error" after a rejected     *)
(* one, else "ok" with [backend, prim, divprim].  obs records the last step with its expected  *)
(* outcome (what the replayer compares with the real code).                *)
(***************************************************************************)
EXTENDS Integers, Sequences, FiniteSets

Names    == {"sugar", "sugar_extended", "z3", "csugar", "enigma_csp", "cspuz_core"}
Unset    == "<unset>"
BackendEnv == {Unset, "auto", "bogus"} \cup Names
BoolEnv  == {Unset, "1", "0", "true", "False", "TRUE", "yes", ""}
Modules  == {"cspuz_core", "enigma_csp", "pycsugar", "z3"}

VARIABLES envBackend, envPrim, envDiv,   \* CSPUZ_DEFAULT_BACKEND, CSPUZ_USE_GRAPH_PRIMITIVE, ..._DIVISION_PRIMITIVE
          importable,                    \* which of Modules can be imported
          cfg, obs
vars == <<envBackend, envPrim, envDiv, importable, cfg, obs>>

Lower(s) == CASE s = "False" -> "false" [] s = "TRUE" -> "true" [] OTHER -> s
StrToBool(s) == IF Lower(s) \in {"true", "1"} THEN {TRUE}
                ELSE IF Lower(s) \in {"false", "0"} THEN {FALSE} ELSE {}     \* {} = ValueError

UnsetCfg == [status |-> "unset", backend |-> "", prim |-> FALSE, divprim |-> FALSE]
ErrorCfg == [status |-> "error", backend |-> "", prim |-> FALSE, divprim |-> FALSE]   \* ValueError from Config()

Detect(imp) == IF "cspuz_core" \in imp THEN "cspuz_core"
               ELSE IF "enigma_csp" \in imp THEN "enigma_csp"
               ELSE IF "pycsugar" \in imp THEN "csugar"
               ELSE IF "z3" \in imp THEN "z3" ELSE "sugar"

Constructed(infer) ==
    LET named == IF infer /\ envBackend # Unset THEN envBackend ELSE "auto"
        be    == IF named = "auto" THEN Detect(importable) ELSE named
        pDef  == be \in {"csugar", "enigma_csp", "cspuz_core"}
        dDef  == be \in {"enigma_csp", "cspuz_core"}
        p     == IF infer /\ envPrim # Unset THEN StrToBool(envPrim) ELSE {pDef}
        d     == IF infer /\ envDiv # Unset THEN StrToBool(envDiv) ELSE {dDef}
    IN  IF p = {} \/ d = {} THEN ErrorCfg
        ELSE [status |-> "ok", backend |-> be, prim |-> CHOOSE x \in p : TRUE, divprim |-> CHOOSE x \in d : TRUE]

Init == /\ envBackend \in BackendEnv /\ envPrim \in BoolEnv /\ envDiv \in BoolEnv
        /\ importable \in SUBSET Modules
        /\ cfg = UnsetCfg /\ obs = [a |-> "none"]

Construct(infer) ==
    /\ cfg = UnsetCfg
    /\ cfg' = Constructed(infer)
    /\ obs' = [a |-> "construct", infer |-> infer, envBackend |-> envBackend, envPrim |-> envPrim,
               envDiv |-> envDiv, importable |-> importable, result |-> cfg']
    /\ UNCHANGED <<envBackend, envPrim, envDiv, importable>>

Configured == cfg.status = "ok"

(* attribute assignment on the live config object: no validation *)
AssignBackend(b) == /\ Configured /\ cfg' = [cfg EXCEPT !.backend = b]
                    /\ obs' = [a |-> "assign"] /\ UNCHANGED <<envBackend, envPrim, envDiv, importable>>
AssignFlags(p, d) == /\ Configured /\ cfg' = [cfg EXCEPT !.prim = p, !.divprim = d]
                     /\ obs' = [a |-> "assign"] /\ UNCHANGED <<envBackend, envPrim, envDiv, importable>>

(* which backend receives a find_answer/solve called with argument arg ("<none>" = no argument, *)
(* "<class>" = a backend class object): a name, "<class>" itself, or "ValueError"              *)
(* The three module backends call <module>.solver: when that module cannot be imported at the time of the call the   *)
(* solve fails with ImportError - it is never delivered to another solver.                                           *)
ModuleOf(name) == CASE name = "csugar" -> "pycsugar" [] name = "enigma_csp" -> "enigma_csp" [] name = "cspuz_core" -> "cspuz_core"
                    [] OTHER -> "-"
Dispatched(arg) == IF arg = "<class>" THEN "<class>"
                   ELSE LET name == IF arg = "<none>" THEN cfg.backend ELSE arg IN
                        IF name \notin Names THEN "ValueError"
                        ELSE IF ModuleOf(name) # "-" /\ ModuleOf(name) \notin importable THEN "ImportError"
                        ELSE name
Dispatch(arg) ==
    /\ Configured
    /\ obs' = [a |-> "dispatch", cfg |-> cfg, arg |-> arg, importable |-> importable, result |-> Dispatched(arg)]
    /\ UNCHANGED <<envBackend, envPrim, envDiv, importable, cfg>>

(* does a graph helper emit the native operator?  explicit: "none" | "true" | "false" *)
Helpers == {"active_vertices_connected", "division_connected", "active_edges_single_cycle",
            "active_edges_single_path", "active_edges_connected_crossable",
            "not_adjacent_and_not_segmenting", "variable_groups_with_borders"}
HasExplicitArg(h) == h \notin {"division_connected", "not_adjacent_and_not_segmenting"}
UsesNative(h, explicit, acyclic) ==
    LET flag == IF h = "variable_groups_with_borders" THEN cfg.divprim ELSE cfg.prim
        want == IF explicit = "none" THEN flag ELSE explicit = "true"
    IN  want /\ ~(h = "active_vertices_connected" /\ acyclic)
GraphCall(h, explicit, acyclic) ==
    /\ Configured
    /\ explicit # "none" => HasExplicitArg(h)
    /\ acyclic => h = "active_vertices_connected"
    /\ obs' = [a |-> "graphcall", cfg |-> cfg, helper |-> h, explicit |-> explicit, acyclic |-> acyclic,
               native |-> UsesNative(h, explicit, acyclic)]
    /\ UNCHANGED <<envBackend, envPrim, envDiv, importable, cfg>>

Next == \/ \E infer \in BOOLEAN : Construct(infer)
        \/ \E b \in Names \cup {"bogus"} : AssignBackend(b)
        \/ \E p, d \in BOOLEAN : AssignFlags(p, d)
        \/ \E arg \in Names \cup {"bogus", "<none>", "<class>"} : Dispatch(arg)
        \/ \E h \in Helpers, x \in {"none", "true", "false"}, ac \in BOOLEAN : GraphCall(h, x, ac)

Spec == Init /\ [][Next]_vars

-----------------------------------------------------------------------------
(* design-level properties *)
(* the native flags default to on only for backends that support them *)
DefaultsSound ==
    (obs.a = "construct" /\ Configured /\ (~obs.infer \/ (envPrim = Unset /\ envDiv = Unset))) =>
        /\ cfg.prim => cfg.backend \in {"csugar", "enigma_csp", "cspuz_core"}
        /\ cfg.divprim => cfg.backend \in {"enigma_csp", "cspuz_core"}
(* acyclic connectivity never uses the primitive; an explicit argument always wins *)
AcyclicNeverNative == (obs.a = "graphcall" /\ obs.acyclic) => ~obs.native
ExplicitWins == (obs.a = "graphcall" /\ obs.explicit # "none" /\ ~obs.acyclic) => (obs.native = (obs.explicit = "true"))
(* a per-call backend name always wins over the configured default *)
(* (the configured default never shows: the named backend gets the call, or - its module missing - nobody does) *)
ArgWins == (obs.a = "dispatch" /\ obs.arg \in Names) => obs.result \in {obs.arg, "ImportError"}
=============================================================================
