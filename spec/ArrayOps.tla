------------------------------- MODULE ArrayOps -------------------------------
(***************************************************************************)
(* Pointwise / mathematical meaning of the array layer (C12).              *)
(* An operand is [kind, h, w, base, b, n]:                                 *)
(*   kind "BA1"/"IA1": 1-D array of h fresh variables with ids base..      *)
(*        "BA2"/"IA2": 2-D array h x w of fresh variables                  *)
(*        "bvar"/"ivar": one variable (id base)                            *)
(*        "blit"/"ilit": the Python literal b / n                          *)
(* A case is a form applied to operands; Expected(case) is either a        *)
(* required rejection, or the shape and the meaning (a CspSem tree) of     *)
(* every element of the result, or "unspecified" where the property makes  *)
(* no demand (equality between a boolean and an integer operand).          *)
(***************************************************************************)
EXTENDS Integers, Sequences, FiniteSets

IsArr(o)  == o.kind \in {"BA1", "IA1", "BA2", "IA2"}
TyOf(o)   == IF o.kind \in {"BA1", "BA2", "bvar", "blit"} THEN "bool" ELSE "int"
ShapeOf(o) == IF o.kind \in {"BA1", "IA1"} THEN <<o.h>>
              ELSE IF o.kind \in {"BA2", "IA2"} THEN <<o.h, o.w>> ELSE <<>>
SizeOf(o) == IF o.kind \in {"BA1", "IA1"} THEN o.h ELSE IF o.kind \in {"BA2", "IA2"} THEN o.h * o.w ELSE 1
Elem(o, i) == IF IsArr(o) THEN [op |-> "VAR", id |-> o.base + i - 1]
              ELSE IF o.kind \in {"bvar", "ivar"} THEN [op |-> "VAR", id |-> o.base]
              ELSE IF o.kind = "blit" THEN [op |-> "BOOL", val |-> o.b]
              ELSE [op |-> "INT", val |-> o.n]
Elems(o) == [i \in 1 .. SizeOf(o) |-> Elem(o, i)]

Arith == {"add", "sub"}
Order == {"le", "lt", "ge", "gt"}
Logic == {"and", "or", "xor"}
Equal == {"eq", "ne"}
OpName(op, ty) ==
    CASE op = "add" -> "ADD" [] op = "sub" -> "SUB" [] op = "le" -> "LE" [] op = "lt" -> "LT"
      [] op = "ge" -> "GE" [] op = "gt" -> "GT" [] op = "and" -> "AND" [] op = "or" -> "OR"
      [] op = "xor" -> "XOR" [] op = "eq" -> (IF ty = "bool" THEN "IFF" ELSE "EQ")
      [] op = "ne" -> (IF ty = "bool" THEN "XOR" ELSE "NE") [] op = "then" -> "IMP"

Reject      == [verdict |-> "reject", shape |-> <<>>, elems |-> <<>>]
Unspecified == [verdict |-> "unspecified", shape |-> <<>>, elems |-> <<>>]
Result(sh, es) == [verdict |-> "value", shape |-> sh, elems |-> es]

(* the common shape of the array operands, or mismatch *)
ArrShapes(ops) == {ShapeOf(ops[i]) : i \in {i \in DOMAIN ops : IsArr(ops[i])}}
ShapeMismatch(ops) == Cardinality(ArrShapes(ops)) > 1
TheShape(ops) == CHOOSE s \in ArrShapes(ops) : TRUE
TheSize(ops)  == SizeOf(ops[CHOOSE i \in DOMAIN ops : IsArr(ops[i])])

Binary(op, l, r) ==
    LET need == IF op \in Arith \cup Order THEN "int" ELSE IF op \in Logic \cup {"then"} THEN "bool" ELSE "any"
        kindsBad == IF need = "any" THEN TyOf(l) # TyOf(r) ELSE TyOf(l) # need \/ TyOf(r) # need
    IN  IF op \in Equal /\ kindsBad THEN Unspecified
        ELSE IF kindsBad \/ ShapeMismatch(<<l, r>>) THEN Reject
        ELSE Result(TheShape(<<l, r>>),
                    [i \in 1 .. TheSize(<<l, r>>) |->
                        [op |-> OpName(op, TyOf(l)), args |-> <<Elem(l, i), Elem(r, i)>>]])

Unary(op, a) ==
    IF (op = "not" /\ TyOf(a) # "bool") \/ (op = "neg" /\ TyOf(a) # "int") THEN Reject
    ELSE Result(ShapeOf(a), [i \in 1 .. SizeOf(a) |->
                               [op |-> IF op = "not" THEN "NOT" ELSE "NEG", args |-> <<Elem(a, i)>>]])

Cond(c, t, f) ==
    IF TyOf(c) # "bool" \/ TyOf(t) # "int" \/ TyOf(f) # "int" \/ ShapeMismatch(<<c, t, f>>) THEN Reject
    ELSE Result(TheShape(<<c, t, f>>),
                [i \in 1 .. TheSize(<<c, t, f>>) |->
                    [op |-> "IF", args |-> <<Elem(c, i), Elem(t, i), Elem(f, i)>>]])

(* aggregate helpers over a nesting of operands: arg = operand or [kind |-> "list", items |-> Seq(arg)] *)
RECURSIVE FlatArgs(_)
FlatArgs(args) ==
    IF args = <<>> THEN <<>>
    ELSE LET a == Head(args) IN
         (IF a.kind = "list" THEN FlatArgs(a.items) ELSE Elems(a)) \o FlatArgs(Tail(args))
HelperOp == [count_true |-> "COUNT", fold_or |-> "OR", fold_and |-> "AND", alldifferent |-> "ALLDIFF"]
Helper(h, args) == Result(<<>>, <<[op |-> HelperOp[h], args |-> FlatArgs(args)]>>)

(* conv2d(kh, kw, and/or) on a 2-D boolean array: windowed and / or *)
Conv2d(a, kh, kw, which) ==
    LET rh == IF a.h - kh + 1 > 0 THEN a.h - kh + 1 ELSE 0
        rw == IF a.w - kw + 1 > 0 THEN a.w - kw + 1 ELSE 0
        cell(y, x) == [op |-> "VAR", id |-> a.base + y * a.w + x]
        win(y, x) == [j \in 1 .. kh * kw |-> cell(y + (j - 1) \div kw, x + ((j - 1) % kw))]
    IN  Result(<<rh, rw>>,
               [i \in 1 .. rh * rw |->
                   [op |-> IF which = "and" THEN "AND" ELSE "OR", args |-> win((i - 1) \div rw, (i - 1) % rw)]])

(* four_neighbors: the in-bounds orthogonal neighbours, as a set of variable ids / coordinates *)
Neighbours(a, y, x) ==
    {p \in {<<y - 1, x>>, <<y + 1, x>>, <<y, x - 1>>, <<y, x + 1>>} :
        p[1] >= 0 /\ p[1] < a.h /\ p[2] >= 0 /\ p[2] < a.w}
=============================================================================
