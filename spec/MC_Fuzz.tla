-------------------------------- MODULE MC_Fuzz --------------------------------
(***************************************************************************)
(* C17: the input space of the decoders - ALL strings up to a length over  *)
(* a 12-symbol alphabet chosen to reach every branch of the combinators,   *)
(* presented with every declared board size.  Symbols are exported by      *)
(* index; harness/fuzz.py maps  0..11  to   0 1 5 f g z - + . /  , one      *)
(* non-ASCII decimal digit (U+0663) and the upper-case hex digit A.        *)
(* The judge is Trace_Fuzz.                                                *)
(***************************************************************************)
EXTENDS Integers, Sequences, Json, TLC, TLCExt, IOUtils

MaxLen == atoi(IOEnv.MAXLEN)
NSym == 12
VARIABLES shard, s, done
Init == shard \in 0 .. NSym - 1 /\ s = <<>> /\ done = FALSE
(* breadth-first growth of the strings; each state is one string (the first symbol is the shard) *)
Next == /\ ~done /\ shard' = shard
        /\ \/ (Len(s) < MaxLen /\ \E c \in 0 .. NSym - 1 : (s = <<>> => c = shard) /\ s' = Append(s, c) /\ done' = FALSE)
           \/ (s = <<>> /\ shard = 0 /\ s' = s /\ done' = TRUE)       \* the empty string, once
Export == (s = <<>> /\ ~done) \/ PrintT(ToJson([s |-> s]))
=============================================================================
