---------------------------- MODULE MC_SugarReply ----------------------------
(* Every well-formed reply of the protocol over small variable sets: rendered as text by the
   specification, with the sol each variable must end up with. *)
EXTENDS SugarWire, Json, TLCExt, IOUtils, SequencesExt, FiniteSets

Kinds == {"bool", "int"}
VarSeqs == UNION {[1 .. n -> Kinds] : n \in 0 .. 3}
IntVals == {-12, 0, 7, 105}
BVals == {[b |-> x, n |-> 0] : x \in BOOLEAN}
IVals == {[b |-> FALSE, n |-> x] : x \in IntVals}
ValsFor(ks) == {v \in [DOMAIN ks -> BVals \cup IVals] :
                  \A i \in DOMAIN ks : v[i] \in (IF ks[i] = "bool" THEN BVals ELSE IVals)}
(* printing orders: Java prints integers first, then booleans, each in declaration order; also the reverse *)
JavaOrder(ks) == SelectSeq([i \in DOMAIN ks |-> i], LAMBDA p : ks[p] = "int") \o
                 SelectSeq([i \in DOMAIN ks |-> i], LAMBDA p : ks[p] = "bool")
Orders(ks) == {JavaOrder(ks), Reverse(JavaOrder(ks))}

VARIABLES shard, c
None == [ty |-> "none", b |-> FALSE, n |-> 0]
Slot(kind, v) == IF kind = "bool" THEN [ty |-> "bool", b |-> v.b, n |-> 0] ELSE [ty |-> "int", b |-> FALSE, n |-> v.n]
Decl(ks) == [i \in DOMAIN ks |-> [kind |-> ks[i], lo |-> -20, hi |-> 200]]

Init == shard \in 0 .. 63 /\ c = [mode |-> "none"]
Next == /\ c.mode = "none" /\ shard' = shard
        /\ \E ks \in VarSeqs : \E v \in ValsFor(ks) : \E s \in BOOLEAN : \E o \in Orders(ks) :
           \E mode \in {"find", "deduce"} : \E keys \in SUBSET (DOMAIN ks) : \E dec \in SUBSET keys :
             /\ (mode = "find" => keys = {} /\ dec = {})
             /\ (~s => dec = {} /\ o = JavaOrder(ks))
             /\ (Len(ks) * 7 + Cardinality(keys) + Cardinality(dec) * 3) % 64 = shard
             /\ c' = [mode |-> mode, ks |-> ks, vals |-> v, sat |-> s, order |-> o, keys |-> keys, decided |-> dec]

Rec == LET vars == Decl(c.ks) IN
    [mode |-> c.mode, kinds |-> c.ks, keys |-> SetToSeq(c.keys), sat |-> c.sat,
     text |-> IF c.mode = "find" THEN FinderReply(vars, c.vals, c.sat, c.order)
              ELSE DeductionReply(vars, c.vals, c.sat, c.order, c.decided),
     sol |-> [i \in DOMAIN c.ks |->
                IF ~c.sat THEN None
                ELSE IF c.mode = "find" THEN Slot(c.ks[i], c.vals[i])
                ELSE IF i \in c.decided THEN Slot(c.ks[i], c.vals[i]) ELSE None]]
Export == c.mode = "none" \/ PrintT(ToJson(Rec))
=============================================================================
