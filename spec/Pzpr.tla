--------------------------------- MODULE Pzpr ---------------------------------
(***************************************************************************)
(* Independent decoders of the puzz.link / pzv (pzpr) body encodings used  *)
(* by the URL codecs of cspuz (C16), written from the format, not from the *)
(* code.  Text is a TLC string; positions are 0-based.                     *)
(* A decoded cell list uses EMPTY for an empty cell and QMARK for '.'.     *)
(***************************************************************************)
EXTENDS Integers, Sequences, FiniteSets, TLC

B36 == "0123456789abcdefghijklmnopqrstuvwxyz"
Ch(s, i)   == SubSeq(s, i + 1, i + 1)
D36(n)     == SubSeq(B36, n + 1, n + 1)
Has36(c)   == \E i \in 0 .. 35 : D36(i) = c
V36(c)     == CHOOSE i \in 0 .. 35 : D36(i) = c
IsHex(c)   == Has36(c) /\ V36(c) < 16
RECURSIVE HexVal(_)
HexVal(s)  == IF s = "" THEN 0 ELSE HexVal(SubSeq(s, 1, Len(s) - 1)) * 16 + V36(SubSeq(s, Len(s), Len(s)))
AllHex(s)  == \A i \in 1 .. Len(s) : IsHex(SubSeq(s, i, i))

EMPTY == -1000
QMARK == -999
Rep(x, k) == [i \in 1 .. k |-> x]
Bad == [ok |-> FALSE, cells |-> <<>>, pos |-> 0]
Good(cs, p) == [ok |-> TRUE, cells |-> cs, pos |-> p]

(* one number16 token at pos: [ok, val, len] *)
Num16Tok(s, p) ==
    IF p >= Len(s) THEN [ok |-> FALSE, val |-> 0, len |-> 0]
    ELSE LET c == Ch(s, p) IN
         IF c = "." THEN [ok |-> TRUE, val |-> QMARK, len |-> 1]
         ELSE IF c = "-" THEN (IF p + 3 <= Len(s) /\ AllHex(SubSeq(s, p + 2, p + 3))
                               THEN [ok |-> TRUE, val |-> HexVal(SubSeq(s, p + 2, p + 3)), len |-> 3]
                               ELSE [ok |-> FALSE, val |-> 0, len |-> 0])
         ELSE IF c = "+" THEN (IF p + 4 <= Len(s) /\ AllHex(SubSeq(s, p + 2, p + 4))
                               THEN [ok |-> TRUE, val |-> HexVal(SubSeq(s, p + 2, p + 4)), len |-> 4]
                               ELSE [ok |-> FALSE, val |-> 0, len |-> 0])
         ELSE IF IsHex(c) THEN [ok |-> TRUE, val |-> V36(c), len |-> 1]
         ELSE [ok |-> FALSE, val |-> 0, len |-> 0]

(* number16: n cells starting at pos; g..z = run of 1..20 empty cells *)
RECURSIVE Number16(_, _, _, _)
Number16(s, p, n, acc) ==
    IF Len(acc) = n THEN Good(acc, p)
    ELSE IF Len(acc) > n \/ p >= Len(s) THEN Bad
    ELSE LET c == Ch(s, p) IN
         IF Has36(c) /\ V36(c) >= 16 THEN Number16(s, p + 1, n, acc \o Rep(EMPTY, V36(c) - 15))
         ELSE LET t == Num16Tok(s, p) IN
              IF t.ok THEN Number16(s, p + t.len, n, Append(acc, t.val)) ELSE Bad

(* 4-cell (slitherlink): digit d < 15 = value d mod 5 followed by d div 5 empty cells; g..z runs *)
RECURSIVE FourCell(_, _, _, _)
FourCell(s, p, n, acc) ==
    IF Len(acc) = n THEN Good(acc, p)
    ELSE IF Len(acc) > n \/ p >= Len(s) \/ ~Has36(Ch(s, p)) THEN Bad
    ELSE LET v == V36(Ch(s, p)) IN
         IF v >= 16 THEN FourCell(s, p + 1, n, acc \o Rep(EMPTY, v - 15))
         ELSE IF v = 15 THEN Bad
         ELSE FourCell(s, p + 1, n, acc \o <<v % 5>> \o Rep(EMPTY, v \div 5))

(* circle (masyu): a digit < 27 is three cells in base 3, most significant first; last digit zero-padded *)
RECURSIVE Circle(_, _, _, _)
Circle(s, p, n, acc) ==
    IF Len(acc) >= n THEN Good(SubSeq(acc, 1, n), p)
    ELSE IF p >= Len(s) \/ ~Has36(Ch(s, p)) \/ V36(Ch(s, p)) >= 27 THEN Bad
    ELSE LET v == V36(Ch(s, p)) IN Circle(s, p + 1, n, acc \o <<v \div 9, (v \div 3) % 3, v % 3>>)

(* border flags: k flags, five per base-32 digit, most significant first, zero-padded *)
RECURSIVE Flags(_, _, _, _)
Flags(s, p, k, acc) ==
    IF Len(acc) >= k THEN Good(SubSeq(acc, 1, k), p)
    ELSE IF p >= Len(s) \/ ~Has36(Ch(s, p)) \/ V36(Ch(s, p)) >= 32 THEN Bad
    ELSE LET v == V36(Ch(s, p)) IN
         Flags(s, p + 1, k, acc \o [i \in 1 .. 5 |-> (v \div (2 ^ (5 - i))) % 2])

(* border: first the (w-1)*h flags between (y,x) and (y,x+1), then, starting a fresh digit, the w*(h-1)
   flags between (y,x) and (y+1,x); the rooms are the components of the cells not separated by a flag *)
Border(s, p, h, w) ==
    LET a == Flags(s, p, (w - 1) * h, <<>>) IN
    IF ~a.ok THEN [ok |-> FALSE, vert |-> <<>>, horiz |-> <<>>, pos |-> 0]
    ELSE LET b == Flags(s, a.pos, w * (h - 1), <<>>) IN
         IF ~b.ok THEN [ok |-> FALSE, vert |-> <<>>, horiz |-> <<>>, pos |-> 0]
         ELSE [ok |-> TRUE, vert |-> a.cells, horiz |-> b.cells, pos |-> b.pos]
Sep(bd, h, w, c1, c2) ==      \* are the orthogonally adjacent cells c1, c2 (numbers y*w+x) separated?
    LET lo == IF c1 < c2 THEN c1 ELSE c2  hi == IF c1 < c2 THEN c2 ELSE c1 IN
    IF hi = lo + 1 /\ w > 1 /\ lo % w # w - 1 THEN bd.vert[(lo \div w) * (w - 1) + (lo % w) + 1] = 1
    ELSE bd.horiz[lo + 1] = 1
AdjCells(h, w, c1, c2) == (c2 = c1 + 1 /\ c1 % w # w - 1) \/ (c1 = c2 + 1 /\ c2 % w # w - 1) \/ c2 = c1 + w \/ c1 = c2 + w
RECURSIVE RoomFill(_, _, _, _)
RoomFill(bd, h, w, R) ==
    LET N == {c \in (0 .. h * w - 1) \ R : \E d \in R : AdjCells(h, w, d, c) /\ ~Sep(bd, h, w, d, c)}
    IN  IF N = {} THEN R ELSE RoomFill(bd, h, w, R \cup N)
RECURSIVE RoomSeq(_, _, _, _)
(* rooms in the order of their first cell (row-major), each as a set of cell numbers *)
RoomSeq(bd, h, w, done) ==
    LET rest == (0 .. h * w - 1) \ done IN
    IF rest = {} THEN <<>>
    ELSE LET first == CHOOSE c \in rest : \A d \in rest : c <= d
             room == RoomFill(bd, h, w, {first})
         IN <<room>> \o RoomSeq(bd, h, w, done \cup room)

(* arrow-number (yajilin): "D n" with D in 1..4 = up, down, left, right and n one hex digit;
   D = 0 or n = '.' : a clue without direction / number; a..z: runs of 1..26 empty cells.
   A clue cell is encoded as D * 100 + n, an unknown clue as QMARK. *)
RECURSIVE Arrow(_, _, _, _)
Arrow(s, p, n, acc) ==
    IF Len(acc) = n THEN Good(acc, p)
    ELSE IF Len(acc) > n \/ p >= Len(s) THEN Bad
    ELSE LET c == Ch(s, p) IN
         IF Has36(c) /\ V36(c) >= 10 THEN Arrow(s, p + 1, n, acc \o Rep(EMPTY, V36(c) - 9))
         ELSE IF ~Has36(c) \/ V36(c) > 4 \/ p + 1 >= Len(s) THEN Bad
         ELSE LET d == V36(c)  m == Ch(s, p + 1) IN
              IF d = 0 \/ m = "." THEN Arrow(s, p + 2, n, Append(acc, QMARK))
              ELSE IF IsHex(m) THEN Arrow(s, p + 2, n, Append(acc, d * 100 + V36(m))) ELSE Bad

(* compass: a clue cell is four number16 tokens in the order up, down, left, right ('.' = blank);
   g..z runs of empty cells.  Decoded: a sequence of [pos, u, d, l, r] for the clue cells. *)
RECURSIVE Compass(_, _, _, _, _)
Compass(s, p, cell, n, acc) ==
    IF p >= Len(s) THEN (IF cell <= n THEN Good(acc, p) ELSE Bad)
    ELSE LET c == Ch(s, p) IN
         IF Has36(c) /\ V36(c) >= 16 THEN Compass(s, p + 1, cell + V36(c) - 15, n, acc)
         ELSE LET t1 == Num16Tok(s, p) IN
              IF ~t1.ok THEN Bad
              ELSE LET t2 == Num16Tok(s, p + t1.len) IN
                   IF ~t2.ok THEN Bad
                   ELSE LET t3 == Num16Tok(s, p + t1.len + t2.len) IN
                        IF ~t3.ok THEN Bad
                        ELSE LET t4 == Num16Tok(s, p + t1.len + t2.len + t3.len) IN
                             IF ~t4.ok THEN Bad
                             ELSE Compass(s, p + t1.len + t2.len + t3.len + t4.len, cell + 1, n,
                                          Append(acc, <<cell, t1.val, t2.val, t3.val, t4.val>>))
=============================================================================
