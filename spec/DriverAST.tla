------------------------------ MODULE DriverAST ------------------------------
(***************************************************************************)
(* The driver language: how a test driver builds a constraint through the  *)
(* public Python API of cspuz, and what that construction *means*.         *)
(*                                                                         *)
(*   [f |-> "var", id |-> k]          the k-th declared variable           *)
(*   [f |-> "ilit", n |-> 3]          a Python int literal                 *)
(*   [f |-> "blit", b |-> TRUE]       a Python bool literal                *)
(*   [f |-> "list", args |-> <<..>>]  a Python list / tuple / generator    *)
(*   [f |-> <form>, args |-> <<..>>]  an operator or helper application    *)
(*                                                                         *)
(* harness/dx.py applies the Python operator or helper literally in the    *)
(* written operand order ("add" of a literal and a variable is `3 + x`,    *)
(* i.e. the reflected dunder).  Sem gives the meaning the property names:  *)
(* "the ordinary arithmetic/logical meaning of the operators".             *)
(***************************************************************************)
EXTENDS Integers, Sequences

Unary  == [neg |-> "NEG", not |-> "NOT"]
(* iadd / isub / iand / ior: the augmented assignments  t += x,  t -= x,  t &= x,  t |= x  applied to an expression  *)
(* object (they MEAN the same as the binary operators; the object they are applied to must not change);              *)
(* iconst / bconst: an explicit constant node IntExpr(INT_CONSTANT, [n]) / BoolExpr(BOOL_CONSTANT, [b])              *)
Binary == [iadd |-> "ADD", isub |-> "SUB", iand |-> "AND", ior |-> "OR", add |-> "ADD", sub |-> "SUB", eq |-> "EQ", ne |-> "NE", le |-> "LE", lt |-> "LT",
           ge |-> "GE", gt |-> "GT", and |-> "AND", or |-> "OR", xor |-> "XOR", iff |-> "IFF",
           bne |-> "XOR", then |-> "IMP", thenf |-> "IMP"]
Helper == [count_true |-> "COUNT", fold_or |-> "OR", fold_and |-> "AND",
           alldifferent |-> "ALLDIFF"]

RECURSIVE Flat(_)
(* cspuz flattens every iterable argument of a helper, to any depth *)
Flat(args) ==
    IF args = <<>> THEN <<>>
    ELSE LET h == Head(args) IN
         (IF h.f = "list" THEN Flat(h.args) ELSE <<h>>) \o Flat(Tail(args))

RECURSIVE Sem(_)
Sem(d) ==
    CASE d.f = "var"  -> [op |-> "VAR", id |-> d.id]
      [] d.f = "ilit" -> [op |-> "INT", val |-> d.n]
      [] d.f = "blit" -> [op |-> "BOOL", val |-> d.b]
      [] d.f = "iconst" -> [op |-> "INT", val |-> d.n]
      [] d.f = "bconst" -> [op |-> "BOOL", val |-> d.b]
      [] d.f \in DOMAIN Unary  -> [op |-> Unary[d.f], args |-> <<Sem(d.args[1])>>]
      [] d.f \in DOMAIN Binary ->
            [op |-> Binary[d.f], args |-> <<Sem(d.args[1]), Sem(d.args[2])>>]
      [] d.f \in {"cond", "condf"} ->
            [op |-> "IF", args |-> <<Sem(d.args[1]), Sem(d.args[2]), Sem(d.args[3])>>]
      [] d.f \in DOMAIN Helper ->
            LET items == Flat(d.args) IN
            [op |-> Helper[d.f], args |-> [i \in DOMAIN items |-> Sem(items[i])]]

(* the constraints posted by one ensure(...) call: its arguments flattened *)
Posted(x) == LET items == Flat(<<x>>) IN [i \in DOMAIN items |-> Sem(items[i])]

=============================================================================
