CONSTANTS
  H = 2
  W = 3
SPECIFICATION Spec
INVARIANT Inv
INVARIANT Export
CHECK_DEADLOCK FALSE
