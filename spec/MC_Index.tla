------------------------------- MODULE MC_Index -------------------------------
EXTENDS Indexing, Json, TLC, TLCExt, IOUtils, SequencesExt, FiniteSets

Tier == IOEnv.TIER
Quick == Tier = "quick"

I(n) == [k |-> "i", i |-> n, hs |-> FALSE, s |-> 0, he |-> FALSE, e |-> 0, ht |-> FALSE, t |-> 0]
S(hs, s, he, e, ht, t) == [k |-> "s", i |-> 0, hs |-> hs, s |-> s, he |-> he, e |-> e, ht |-> ht, t |-> t]

Bound == -6 .. 6
Opt(D) == {<<FALSE, 0>>} \cup {<<TRUE, x>> : x \in D}
Steps == {-3, -2, -1, 1, 2, 3}
FullSlices == {S(a[1], a[2], b[1], b[2], c[1], c[2]) : a \in Opt(Bound), b \in Opt(Bound), c \in Opt(Steps)}
Full == {I(n) : n \in Bound} \cup FullSlices
FullSeq == TLCEval(SetToSeq(Full))

Reduced == << I(-4), I(-1), I(0), I(1), I(3), FullSlice, S(FALSE, 0, FALSE, 0, TRUE, -1),
              S(TRUE, 1, FALSE, 0, FALSE, 0), S(FALSE, 0, TRUE, -1, FALSE, 0), S(TRUE, -5, FALSE, 0, TRUE, 2),
              S(TRUE, 5, FALSE, 0, TRUE, -1), S(FALSE, 0, TRUE, -6, TRUE, -1), S(TRUE, 2, TRUE, 0, TRUE, -1),
              S(TRUE, -1, TRUE, -6, TRUE, -2) >>

Shapes2D == IF Quick THEN {<<2, 3>>, <<3, 1>>, <<0, 2>>, <<1, 4>>, <<2, 0>>}
            ELSE {<<a, b>> : a \in 0 .. 4, b \in 0 .. 4}
Lens1D == 0 .. 5

CoordLists(h, w) == {<<>>, <<<<0, 0>>>>, <<<<h - 1, w - 1>>, <<0, 0>>>>, <<<<-1, -1>>, <<0, w - 1>>, <<-h, 0>>>>,
                     <<<<0, 0>>, <<h, 0>>>>, <<<<0, -w - 1>>>>, <<<<1, 1>>, <<1, 1>>, <<0, 1>>>>}

(* design level: where the implementation's slice arithmetic departs from CPython's *)
ImplDiffers == {<<n, c>> \in (0 .. 4) \X FullSlices : ImplSlice(n, c) # SliceIdx(n, c)}

VARIABLES shard, job
Jobs == [kind : {"1d"}, n : Lens1D, h : {0}, w : {0}, ci : {0}]
        \cup [kind : {"2d-a-full", "2d-b-full"}, n : {0}, h : {sh[1] : sh \in Shapes2D}, w : {sh[2] : sh \in Shapes2D}, ci : DOMAIN FullSeq]
        \cup [kind : {"2d-misc"}, n : {0}, h : {sh[1] : sh \in Shapes2D}, w : {sh[2] : sh \in Shapes2D}, ci : {0}]
ValidJob(j) == j.kind = "1d" \/ <<j.h, j.w>> \in Shapes2D

Init == shard \in 0 .. 63 /\ job = [kind |-> "none"]
Next == job.kind = "none" /\ shard' = shard /\
        job' \in {j \in Jobs : ValidJob(j) /\ (j.n + j.h * 7 + j.w * 3 + j.ci) % 64 = shard}

Rec ==
    CASE job.kind = "1d" ->
           [kind |-> "1d", n |-> job.n,
            cases |-> [i \in DOMAIN FullSeq |-> [a |-> FullSeq[i], r |-> Index1D(job.n, FullSeq[i])]]]
      [] job.kind = "2d-a-full" ->
           [kind |-> "2d", h |-> job.h, w |-> job.w,
            cases |-> [i \in DOMAIN Reduced |-> [a |-> FullSeq[job.ci], b |-> Reduced[i],
                                                 r |-> Pair(job.h, job.w, FullSeq[job.ci], Reduced[i])]]]
      [] job.kind = "2d-b-full" ->
           [kind |-> "2d", h |-> job.h, w |-> job.w,
            cases |-> [i \in DOMAIN Reduced |-> [a |-> Reduced[i], b |-> FullSeq[job.ci],
                                                 r |-> Pair(job.h, job.w, Reduced[i], FullSeq[job.ci])]]]
      [] job.kind = "2d-misc" ->
           [kind |-> "2d-misc", h |-> job.h, w |-> job.w,
            singles |-> [i \in DOMAIN FullSeq |-> [a |-> FullSeq[i], r |-> Single(job.h, job.w, FullSeq[i])]],
            coords |-> LET q == SetToSeq(CoordLists(job.h, job.w)) IN
                       [i \in DOMAIN q |-> [cs |-> q[i], r |-> Coords(job.h, job.w, q[i])]]]
Export == job.kind = "none" \/ PrintT(ToJson(Rec))
=============================================================================
