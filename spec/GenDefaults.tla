----------------------------- MODULE GenDefaults -----------------------------
(***************************************************************************)
(* The callbacks generate_problem uses when the caller gives none          *)
(* (cspuz/generator/core.py), and the clue counter most callers use for    *)
(* clue_penalty.  Extended coverage X02 (beyond the listed properties).    *)
(*                                                                         *)
(* An *answer term* is what a solver callback returns next to is_sat:      *)
(*   [t |-> "var",  d |-> BOOLEAN]              a variable; d: sol is set  *)
(*   [t |-> "arr",  items |-> Seq(BOOLEAN)]     Array1D / Array2D /        *)
(*                                              BoolGridFrame: per element *)
(*   [t |-> "list", items |-> Seq(term)]        a Python list              *)
(*   [t |-> "other"]                            anything else (ignored)    *)
(* default_score_calculator(args...) counts the decided variables,           *)
(* default_uniqueness_checker(args...) says whether every variable is        *)
(* decided; count_non_default_values(problem, default, weight) is weight   *)
(* times the number of leaves of a nested list/tuple that differ from      *)
(* default.                                                                *)
(***************************************************************************)
EXTENDS Integers, Sequences, FiniteSets

RECURSIVE SumOver(_, _)
SumOver(F(_), s) == IF s = <<>> THEN 0 ELSE F(Head(s)) + SumOver(F, Tail(s))

RECURSIVE Score(_)
Score(x) == CASE x.t = "var"  -> IF x.d THEN 1 ELSE 0
              [] x.t = "arr"  -> Cardinality({i \in DOMAIN x.items : x.items[i]})
              [] x.t = "list" -> SumOver(Score, x.items)
              [] OTHER        -> 0

RECURSIVE Unique(_)
Unique(x) == CASE x.t = "var"  -> x.d
               [] x.t = "arr"  -> \A i \in DOMAIN x.items : x.items[i]
               [] x.t = "list" -> \A i \in DOMAIN x.items : Unique(x.items[i])
               [] OTHER        -> TRUE

RECURSIVE Leaves(_)
Leaves(x) == CASE x.t = "var"  -> 1
               [] x.t = "arr"  -> Len(x.items)
               [] x.t = "list" -> SumOver(Leaves, x.items)
               [] OTHER        -> 0

ScoreArgs(args)  == SumOver(Score, args)
UniqueArgs(args) == \A i \in DOMAIN args : Unique(args[i])

(* what makes the two defaults fit together: "unique" is "the score is maximal" *)
Coherent(args) == UniqueArgs(args) <=> (ScoreArgs(args) = SumOver(Leaves, args))

(* problems: [t |-> "leaf", v |-> Int] | [t |-> "seq", tuple |-> BOOLEAN, items |-> Seq(problem)] *)
RECURSIVE NonDefault(_, _)
NonDefault(p, default) ==
    IF p.t = "leaf" THEN (IF p.v # default THEN 1 ELSE 0)
    ELSE LET F(q) == NonDefault(q, default) IN SumOver(F, p.items)
CountNonDefault(p, default, weight) == weight * NonDefault(p, default)
=============================================================================
