---------------------------- MODULE MC_SolveLoop ----------------------------
EXTENDS SolveLoop, Json, TLCExt, SequencesExt, Randomization
K3 == <<"bool", "bool", "int">>
K4 == <<"bool", "int", "bool", "int">>
D2 == 0 .. 1
D3 == 0 .. 2
Typed(m) == [ty |-> [k \in 1 .. NV |-> Kinds[k]],
             b  |-> [k \in 1 .. NV |-> IF Kinds[k] = "bool" THEN m[k] ELSE FALSE],
             n  |-> [k \in 1 .. NV |-> IF Kinds[k] = "int" THEN m[k] ELSE 0]]
Fact(k) == IF k \notin keys \/ M = {} THEN [ty |-> "none", b |-> FALSE, n |-> 0]
           ELSE IF FactOf(k) = {} THEN [ty |-> "none", b |-> FALSE, n |-> 0]
           ELSE LET v == CHOOSE x \in FactOf(k) : TRUE IN
                IF Kinds[k] = "bool" THEN [ty |-> "bool", b |-> v, n |-> 0]
                                     ELSE [ty |-> "int", b |-> FALSE, n |-> v]
(* simulation of the 4-variable universe: a random model set / key set per behaviour *)
Init4 == /\ M = RandomSubset(RandomElement(0 .. 8), U) /\ keys = RandomSubset(RandomElement(0 .. NV), 1 .. NV)
         /\ phase = "first" /\ clauses = <<>> /\ cand = [k \in keys |-> {}]
         /\ cur = <<>> /\ nsolve = 0 /\ ret = {} /\ hist = <<>>
Export == Done =>
    PrintT(ToJson([kinds |-> Kinds,
                   models |-> LET ms == SetToSeq(M) IN [i \in DOMAIN ms |-> Typed(ms[i])],
                   keys |-> SetToSeq(keys),
                   order |-> [i \in DOMAIN hist |-> Typed(hist[i])],
                   sat |-> M # {},
                   facts |-> [k \in 1 .. NV |-> Fact(k)],
                   nsolve |-> nsolve]))
=============================================================================
