---------------------------- MODULE Trace_GraphSM ----------------------------
(* Trace validation of the real cspuz.graph.Graph against GraphSM: each recorded trace is a sequence of public calls on one
   Graph(NV) object - add_edge(i, j) with the lengths and the two touched incidence lists logged after the call,
   line_graph() with the returned graph's vertex count and edge list.  Every event must be explained by the corresponding
   action of GraphSM from the state reached so far (the unlogged incidence lists are carried by the specification), and the
   invariants of GraphSM are evaluated in every state along the trace. *)
EXTENDS GraphSM, Json, IOUtils, TLC

Traces == ndJsonDeserialize(IOEnv.TRACE_FILE)
VARIABLES tid, l
tvars == <<edges, inc, tid, l>>

Events == Traces[tid].events
Ev == Events[l]

TraceInit == Init /\ tid \in DOMAIN Traces /\ l = 1

TraceAddEdge ==
    /\ l <= Len(Events) /\ Ev.op = "add_edge"
    /\ Ev.i \in V /\ Ev.j \in V
    /\ AddEdge(Ev.i, Ev.j)
    /\ Len(edges') = Ev.nedges              \* len(g)
    /\ edges'[Len(edges')] = Ev.last        \* g[len(g) - 1]
    /\ inc'[Ev.i] = Ev.inc_i                \* g.incident_edges[i], g.incident_edges[j]
    /\ inc'[Ev.j] = Ev.inc_j
    /\ l' = l + 1 /\ tid' = tid

PairSet(ps) == {<<(IF ps[k][1] <= ps[k][2] THEN ps[k][1] ELSE ps[k][2]),
                  (IF ps[k][1] <= ps[k][2] THEN ps[k][2] ELSE ps[k][1])>> : k \in DOMAIN ps}
TraceLineGraph ==
    /\ l <= Len(Events) /\ Ev.op = "line_graph"
    /\ Ev.nv = Len(edges)
    /\ PairSet(Ev.pairs) = LineGraphPairs \cup {<<e, e>> : e \in LineGraphLoops}
    /\ Len(Ev.pairs) = Cardinality(PairSet(Ev.pairs))       \* each unordered pair once
    /\ UNCHANGED vars
    /\ l' = l + 1 /\ tid' = tid

(* the whole edge list as the object reports it (iteration), logged now and then: a pure observation *)
TraceObserve ==
    /\ l <= Len(Events) /\ Ev.op = "observe"
    /\ Ev.edges = edges
    /\ Ev.inc = [k \in 1 .. NV |-> inc[k - 1]]
    /\ UNCHANGED vars
    /\ l' = l + 1 /\ tid' = tid

TraceNext == TraceAddEdge \/ TraceLineGraph \/ TraceObserve
TraceSpec == TraceInit /\ [][TraceNext]_tvars

(* one line per state reached: the harness takes, per trace, the longest matched prefix *)
Progress == PrintT(ToJson([tid |-> Traces[tid].tid, l |-> l - 1, n |-> Len(Events)]))
==============================================================================
