------------------------------- MODULE Trace_Fuzz -------------------------------
(***************************************************************************)
(* C17 judge.  One record per (decoder, declared size, text):              *)
(*   outcome   "none" | "ValueError" | "problem" | "raised"  (+ exc)       *)
(*   dims_ok   the returned problem has the declared dimensions            *)
(*   reencode  "ok" | "skipped" | "none" | "raised" (+ exc2)               *)
(*   same      decoding the canonical text returns the same problem        *)
(* A decoder may return None, raise ValueError, or return a problem of the *)
(* stated size that re-encodes and re-decodes to itself; nothing else.     *)
(***************************************************************************)
EXTENDS Integers, Sequences, FiniteSets, Json, IOUtils, TLC, TLCExt

Recs == ndJsonDeserialize(IOEnv.TRACE_FILE)
VARIABLES shard, t
Init == shard \in 0 .. 63 /\ t = 0
Next == t = 0 /\ t' \in {i \in DOMAIN Recs : i % 64 = shard} /\ shard' = shard
R == Recs[t]

(* a batch record carries the outcomes of many inputs of one decoder; each is judged *)
Judge(o) ==
    IF o.outcome \in {"none", "ValueError"} THEN "ok"
    ELSE IF o.outcome = "raised" THEN "decode:crashed-with-" \o o.exc
    ELSE IF o.outcome # "problem" THEN "machinery:unknown-outcome"
    ELSE IF ~o.dims_ok THEN "decode:returned-a-problem-of-other-dimensions-than-stated"
    ELSE IF o.reencode = "skipped" THEN "ok"
    ELSE IF o.reencode = "raised" THEN "decode:returned-a-problem-that-cannot-be-serialized-" \o o.exc2
    ELSE IF o.reencode = "none" THEN "decode:returned-a-problem-that-cannot-be-serialized"
    ELSE IF ~o.same THEN "decode:canonical-text-decodes-to-a-different-problem"
    ELSE "ok"

Bad == {i \in DOMAIN R.outs : Judge(R.outs[i]) # "ok"}
Report == t = 0 \/ PrintT(ToJson([t |-> R.t, n |-> Len(R.outs),
                                  bad |-> [i \in 1 .. Cardinality(Bad) |->
                                             LET j == CHOOSE j \in Bad : Cardinality({k \in Bad : k < j}) = i - 1 IN
                                             [i |-> j, verdict |-> Judge(R.outs[j])]]]))
=============================================================================
