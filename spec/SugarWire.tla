------------------------------- MODULE SugarWire -------------------------------
(***************************************************************************)
(* The text protocol of the Sugar-family backends (C03).                   *)
(*                                                                         *)
(* Request: one S-expression per line.  harness/sexpr.py (purely lexical)  *)
(* turns a line into a token tree  [a, t, n, k]:                           *)
(*    atom:  a = text, t = "bvar" | "ivar" | "int" | "sym", n = number     *)
(*           (variable number of bN / iN, value of an integer), k = <<>>   *)
(*    list:  a = "", t = "list", n = 0, k = children                       *)
(* Denote gives a token tree its meaning as a CspSem tree, by Sugar's      *)
(* syntax.  Reply: the two formats printed by CspuzSugarInterface.java.    *)
(***************************************************************************)
EXTENDS CspSem

(* head symbol |-> CspSem operator (the unary minus is decided by arity) *)
SymOp(s, arity) ==
    CASE s = "-"  -> (IF arity = 1 THEN "NEG" ELSE "SUB")
      [] s = "+"  -> "ADD" [] s = "="  -> "EQ" [] s = "!=" -> "NE" [] s = "<=" -> "LE" [] s = "<" -> "LT"
      [] s = ">=" -> "GE"  [] s = ">"  -> "GT" [] s = "!"  -> "NOT" [] s = "&&" -> "AND" [] s = "||" -> "OR"
      [] s = "iff" -> "IFF" [] s = "xor" -> "XOR" [] s = "=>" -> "IMP" [] s = "if" -> "IF"
      [] s = "alldifferent" -> "ALLDIFF"
      [] s = "graph-active-vertices-connected" -> "GRAPH_ACTIVE_VERTICES_CONNECTED"
      [] s = "graph-division" -> "GRAPH_DIVISION"
      [] OTHER -> "UNKNOWN"

RECURSIVE Denote(_)
Denote(tk) ==
    IF tk.t = "bvar" \/ tk.t = "ivar" THEN [op |-> "VAR", id |-> tk.n]
    ELSE IF tk.t = "int" THEN [op |-> "INT", val |-> tk.n]
    ELSE IF tk.t = "sym" THEN
            (IF tk.a = "true" THEN [op |-> "BOOL", val |-> TRUE]
             ELSE IF tk.a = "false" THEN [op |-> "BOOL", val |-> FALSE]
             ELSE IF tk.a = "*" THEN [op |-> "HOLE"]
             ELSE [op |-> "UNKNOWN", args |-> <<>>])
    ELSE IF tk.k = <<>> \/ tk.k[1].t # "sym" THEN [op |-> "UNKNOWN", args |-> <<>>]
    ELSE [op |-> SymOp(tk.k[1].a, Len(tk.k) - 1),
          args |-> [i \in 1 .. Len(tk.k) - 1 |-> Denote(tk.k[i + 1])]]

(* the prefix of a variable atom must agree with the declared kind *)
RECURSIVE PrefixesOK(_, _)
PrefixesOK(tk, vars) ==
    IF tk.t = "bvar" THEN tk.n + 1 \in DOMAIN vars /\ vars[tk.n + 1].kind = "bool"
    ELSE IF tk.t = "ivar" THEN tk.n + 1 \in DOMAIN vars /\ vars[tk.n + 1].kind = "int"
    ELSE \A i \in DOMAIN tk.k : PrefixesOK(tk.k[i], vars)

(* declaration lines: (bool bK) / (int iK lo hi) *)
IsDecl(tk) == tk.t = "list" /\ Len(tk.k) >= 2 /\ tk.k[1].t = "sym" /\ tk.k[1].a \in {"bool", "int"}
DeclOf(tk) ==
    IF tk.k[1].a = "bool" /\ Len(tk.k) = 2 /\ tk.k[2].t = "bvar"
    THEN [id |-> tk.k[2].n, kind |-> "bool", lo |-> 0, hi |-> 0]
    ELSE IF tk.k[1].a = "int" /\ Len(tk.k) = 4 /\ tk.k[2].t = "ivar" /\ tk.k[3].t = "int" /\ tk.k[4].t = "int"
    THEN [id |-> tk.k[2].n, kind |-> "int", lo |-> tk.k[3].n, hi |-> tk.k[4].n]
    ELSE [id |-> -1, kind |-> "malformed", lo |-> 0, hi |-> 0]

-----------------------------------------------------------------------------
(* Replies, exactly as CspuzSugarInterface.run() prints them.               *)
Name(kind, id) == (IF kind = "bool" THEN "b" ELSE "i") \o ToString(id)
(* a value is [b, n]: the boolean in b for a boolean variable, the integer in n for an integer one *)
ValText(kind, v) == IF kind = "bool" THEN (IF v.b THEN "true" ELSE "false") ELSE ToString(v.n)

RECURSIVE Concat(_)
Concat(lines) == IF lines = <<>> THEN "" ELSE Head(lines) \o "\n" \o Concat(Tail(lines))

(* order: a sequence of variable positions (1-based) in which the assignment lines are printed *)
FinderReply(vars, vals, sat, order) ==
    IF ~sat THEN Concat(<<"s UNSATISFIABLE">>)
    ELSE Concat(<<"s SATISFIABLE">> \o
                [j \in DOMAIN order |-> "a " \o Name(vars[order[j]].kind, order[j] - 1) \o "\t" \o
                                        ValText(vars[order[j]].kind, vals[order[j]])] \o <<"a">>)
DeductionReply(vars, vals, sat, order, decided) ==
    IF ~sat THEN Concat(<<"unsat">>)
    ELSE LET shown == SelectSeq(order, LAMBDA p : p \in decided) IN
         Concat(<<"sat">> \o
                [j \in DOMAIN shown |-> Name(vars[shown[j]].kind, shown[j] - 1) \o " " \o
                                        ValText(vars[shown[j]].kind, vals[shown[j]])])
=============================================================================
