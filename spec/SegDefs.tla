-------------------------------- MODULE SegDefs --------------------------------
(* Board geometry and validity of a segmentation, parameterised by the board size, shared by the
   transition system (Segmentation.tla) and the trace judge (Trace_Seg.tla). *)
EXTENDS Integers, FiniteSets, Sequences

AdjP(w, c, d) == (d = c + 1 /\ c % w # w - 1) \/ (c = d + 1 /\ d % w # w - 1) \/ d = c + w \/ c = d + w
RECURSIVE ReachP(_, _, _)
ReachP(w, B, R) == LET N == {d \in B \ R : \E c \in R : AdjP(w, c, d)} IN IF N = {} THEN R ELSE ReachP(w, B, R \cup N)
ConnP(w, B) == B # {} /\ ReachP(w, B, {CHOOSE c \in B : TRUE}) = B
ValidP(h, w, P, b) ==
    /\ UNION P = 0 .. h * w - 1
    /\ \A A, B \in P : A # B => A \cap B = {}
    /\ \A A \in P : ConnP(w, A) /\ Cardinality(A) >= b.minS /\ Cardinality(A) <= b.maxS
    /\ Cardinality(P) >= b.minB /\ Cardinality(P) <= b.maxB
=============================================================================
