-------------------------------- MODULE MC_Url --------------------------------
(* All problems in each URL codec's problem format on small boards (C16), as canonical integers:
   grid codecs: a flat row-major cell sequence; room codecs: a restricted growth string (+ values). *)
EXTENDS Pzpr, GraphDefs, Json, TLCExt, IOUtils, SequencesExt

Tier == IOEnv.TIER
Quick == Tier = "quick"
Boards == IF Quick THEN {<<1, 1>>, <<1, 3>>, <<3, 1>>, <<2, 2>>, <<2, 3>>} ELSE {<<1, 1>>, <<1, 2>>, <<2, 1>>, <<1, 3>>, <<3, 1>>, <<2, 2>>, <<2, 3>>, <<3, 2>>, <<3, 3>>}
Alphabet(m) ==
    CASE m = "nurikabe"   -> {0, -1, 1, 15, 16, 255}
      [] m = "sudoku"     -> {0, 1, 9, 16}
      [] m = "nurimisaki" -> {-1, 0, 3, 17}
      [] m = "slither"    -> {-1, 0, 3, 4}
      [] m = "masyu"      -> {0, 1, 2}
      [] m = "yajilin"    -> {EMPTY, QMARK, 100, 203, 315, 401}
Small(A, bd) == IF bd[1] * bd[2] >= 6 /\ Cardinality(A) > 3
                THEN {x \in A : Cardinality({y \in A : y <= x}) <= (IF Quick THEN 3 ELSE 4)} ELSE A
GridMods == {"nurikabe", "sudoku", "nurimisaki", "slither", "masyu", "yajilin"}
GridCases(m) == UNION {{[mod |-> m, h |-> bd[1], w |-> bd[2], cells |-> f] :
                          f \in [1 .. bd[1] * bd[2] -> Small(Alphabet(m), bd)]} : bd \in {b \in Boards : b[1] * b[2] <= (IF Quick THEN 6 ELSE 6)}}
(* long rows: run lengths across the limits of the run characters *)
LongCases == {[mod |-> m, h |-> 1, w |-> k + 1, cells |-> Rep(IF m \in {"nurikabe", "sudoku"} THEN 0 ELSE IF m = "yajilin" THEN EMPTY ELSE -1, k) \o <<IF m = "yajilin" THEN 203 ELSE 3>>] :
                 m \in GridMods \ {"masyu"}, k \in {19, 20, 21, 26, 27, 41}}

RECURSIVE RGS(_, _)
MaxOf(s) == IF s = <<>> THEN -1 ELSE LET S == {s[i] : i \in DOMAIN s} IN CHOOSE x \in S : \A y \in S : y <= x
RGS(n, s) == IF Len(s) = n THEN {s} ELSE UNION {RGS(n, Append(s, b)) : b \in 0 .. MaxOf(s) + 1}
Blocks(n, r) == {{v \in 0 .. n - 1 : r[v + 1] = b} : b \in {r[i] : i \in DOMAIN r}}
ConnParts(h, w) == {r \in AllRGS(h * w) : \A B \in Blocks(h * w, r) : Connected(GridGraph(h, w), B)}
RoomBoards == IF Quick THEN {<<1, 1>>, <<1, 3>>, <<3, 1>>, <<2, 2>>, <<2, 3>>} ELSE {<<1, 1>>, <<1, 2>>, <<2, 1>>, <<1, 3>>, <<3, 1>>, <<1, 4>>, <<2, 2>>, <<2, 3>>, <<3, 2>>, <<3, 3>>}
RoomCases(m) == UNION {{[mod |-> m, h |-> bd[1], w |-> bd[2], rgs |-> r, vals |-> <<>>] : r \in ConnParts(bd[1], bd[2])} : bd \in RoomBoards}
ValsFor(k, j) == [i \in 1 .. k |-> <<-1, 0, 17, 3, 255>>[((i + j) % 5) + 1]]
HeyaCases == UNION {{[mod |-> "heyawake", h |-> bd[1], w |-> bd[2], rgs |-> r, vals |-> ValsFor(MaxOf(r) + 1, j)] :
                        r \in ConnParts(bd[1], bd[2]), j \in 0 .. 2} : bd \in RoomBoards}
StarCases == UNION {{[mod |-> "starbattle", h |-> n, w |-> n, rgs |-> r, vals |-> <<k>>] : r \in ConnParts(n, n), k \in {1, 2}} : n \in {1, 2} \cup (IF Quick THEN {} ELSE {3})}
ClueVals == {-1, 0, 3, 16}
AquaCases == UNION {{[mod |-> "aquarium", h |-> bd[1], w |-> bd[2], rgs |-> r, vals |-> [i \in 1 .. bd[1] + bd[2] |-> <<-1, 0, 3, 16>>[((i * j) % 4) + 1]]] :
                        r \in ConnParts(bd[1], bd[2]), j \in 1 .. 3} : bd \in RoomBoards}
(* compass: every subset of cells carries a compass with numbers drawn by position *)
CompassCases == UNION {{[mod |-> "compass", h |-> bd[1], w |-> bd[2],
                         clues |-> LET q == SetToSeq(S) IN
                                   [i \in DOMAIN q |-> <<q[i], <<-1, 0, 5, 17>>[((q[i] + j) % 4) + 1], <<2, -1, 16, 0>>[((q[i] + j) % 4) + 1],
                                                        <<-1, -1, 1, 255>>[((q[i] * j) % 4) + 1], <<7, 0, -1, 3>>[((q[i] + 2 * j) % 4) + 1]>>]] :
                          S \in SUBSET (0 .. bd[1] * bd[2] - 1), j \in 0 .. 1} : bd \in {b \in Boards : b[1] * b[2] <= 6}}

All == TLCEval(SetToSeq(UNION {GridCases(m) : m \in GridMods} \cup LongCases)
               \o SetToSeq(RoomCases("lits") \cup RoomCases("norinori") \cup HeyaCases \cup StarCases \cup AquaCases)
               \o SetToSeq(CompassCases))
VARIABLES shard, i
Init == shard \in 0 .. 63 /\ i = 0
Next == i = 0 /\ i' \in {j \in DOMAIN All : j % 64 = shard} /\ shard' = shard
Export == i = 0 \/ PrintT(ToJson([id |-> i, case |-> All[i]]))
=============================================================================
