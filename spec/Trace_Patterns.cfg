INIT Init
NEXT Next
INVARIANT Report
INVARIANT GridAgree
CHECK_DEADLOCK FALSE
