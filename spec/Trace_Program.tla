----------------------------- MODULE Trace_Program -----------------------------
(***************************************************************************)
(* Trace validation of find_answer / solve calls observed in executions    *)
(* that somebody else drives (the repository's own test-suite).  A record  *)
(* carries the program exported from the Solver at the call, the keys, the *)
(* result and the sol slots.  A returned TRUE is validated through its     *)
(* witness whatever the size of the program (one evaluation pass); the     *)
(* exact verdict / facts are validated when the domain product is small.   *)
(***************************************************************************)
EXTENDS SolverSM, Json, IOUtils, TLCExt

Recs == ndJsonDeserialize(IOEnv.TRACE_FILE)
NoPool(d) == {}
VARIABLES shard, t
TInit == shard \in 0 .. 63 /\ t = 0 /\ Init
TNext == t = 0 /\ t' \in {i \in DOMAIN Recs : i % 64 = shard} /\ shard' = shard /\ UNCHANGED vars
R == Recs[t]
S0 == [i \in DOMAIN R.ty |-> [ty |-> R.ty[i], b |-> R.b[i], n |-> R.n[i]]]
P == [vars |-> R.prog.vars, cons |-> R.prog.cons]
Keys == {R.prog.keys[i] + 1 : i \in DOMAIN R.prog.keys}
HasGraphOp == \E i \in DOMAIN P.cons : P.cons[i].op \in GraphOps

Witness(s, ks) ==       \* the slots of the variables in ks are typed, in bounds, and (when all variables are set) a model
    /\ \A k \in ks : s[k].ty = P.vars[k].kind
    /\ \A k \in ks : P.vars[k].kind = "int" => (s[k].n >= P.vars[k].lo /\ s[k].n <= P.vars[k].hi)

Verdict ==
    IF R.status # "ok" THEN "ok"                       \* the test itself expected / handled the exception
    ELSE IF ~WellTyped(P) THEN "program:ill-typed-constraint-posted"
    ELSE IF R.call = "find_answer" THEN
         (IF R.ret THEN
              (IF ~SolTyped(P.vars, S0) THEN "find:sol-has-wrong-type"
               ELSE IF ~InDomain(P.vars, S0) THEN "find:sol-outside-declared-bounds"
               ELSE IF \E i \in DOMAIN P.cons : ~Eval(P.cons[i], SolAsg(P.vars, S0)) THEN "find:sol-is-not-a-model"
               ELSE "ok")
          ELSE IF R.small /\ Sat(P) THEN "find:false-but-satisfiable" ELSE "ok")
    ELSE IF R.small THEN SolveVerdict(P, Keys, R.ret, S0)
    ELSE IF R.ret /\ ~Witness(S0, {k \in Keys : S0[k].ty # "none"}) THEN "solve:wrong-value-or-type-for-a-decided-key"
    ELSE "ok"

Report == t = 0 \/ PrintT(ToJson([t |-> R.t, verdict |-> Verdict, exact |-> R.small]))
=============================================================================
