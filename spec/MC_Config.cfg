SPECIFICATION Spec
INVARIANT DefaultsSound
INVARIANT AcyclicNeverNative
INVARIANT ExplicitWins
INVARIANT ArgWins
INVARIANT Export
CHECK_DEADLOCK FALSE
VIEW EnvIrrelevantAfterConstruction
