------------------------------- MODULE Trace_Prng -------------------------------
(***************************************************************************)
(* Judges calls of the real randint / choice / shuffle / random with the   *)
(* real 32-bit XorShift: a recording generator logs every raw draw as two  *)
(* 16-bit limbs (TLC integers are 32-bit); the result of each call is      *)
(* recomputed from the raws it consumed.  D = 2^32.                        *)
(***************************************************************************)
EXTENDS Integers, Sequences, FiniteSets, Json, IOUtils, TLC, TLCExt

Recs == ndJsonDeserialize(IOEnv.TRACE_FILE)
VARIABLES shard, t
Init == shard \in 0 .. 63 /\ t = 0
Next == t = 0 /\ t' \in {i \in DOMAIN Recs : i % 64 = shard} /\ shard' = shard
R == Recs[t]

(* x = hi * 65536 + lo;  D = 65536 * 65536 *)
ModW(x, w) == (((x.hi % w) * (65536 % w)) + (x.lo % w)) % w
DModW(w)   == ((65536 % w) * (65536 % w)) % w
Accepted(x, w) == LET r == DModW(w) IN ~(r > 0 /\ x.hi = 65535 /\ x.lo >= 65536 - r)

(* randint(a, b) with the raws it consumed: all but the last rejected, the last accepted, value a + x mod w *)
RandIntOK(a, b, raws, ret) ==
    LET w == b - a + 1 IN
    /\ raws # <<>>
    /\ \A i \in 1 .. Len(raws) - 1 : ~Accepted(raws[i], w)
    /\ Accepted(raws[Len(raws)], w)
    /\ ret = a + ModW(raws[Len(raws)], w)

(* shuffle of n items consumes randint(0, i) for i = 1..n-1; calls[i] = [raws, ret]; result is the permutation *)
RECURSIVE Apply(_, _, _)
Swap(s, i, j) == [s EXCEPT ![i] = s[j], ![j] = s[i]]
Apply(s, js, i) == IF i > Len(js) THEN s ELSE Apply(Swap(s, i + 1, js[i] + 1), js, i + 1)

Verdict(c) ==
    CASE c.op = "randint" ->
            IF c.status # "ok" THEN "prng:randint-raised-" \o c.exc
            ELSE IF c.ret < c.a \/ c.ret > c.b THEN "prng:randint-outside-[a,b]"
            ELSE IF ~RandIntOK(c.a, c.b, c.raws, c.ret) THEN "prng:randint-is-not-rejection-sampling-of-a+x-mod-w"
            ELSE "ok"
      [] c.op = "choice" ->
            IF c.status # "ok" THEN "prng:choice-raised-" \o c.exc
            ELSE IF ~RandIntOK(0, c.n - 1, c.raws, c.idx) THEN "prng:choice-is-not-cand[randint(0,n-1)]"
            ELSE "ok"
      [] c.op = "shuffle" ->
            IF c.status # "ok" THEN "prng:shuffle-raised-" \o c.exc
            ELSE IF Len(c.calls) # (IF c.n = 0 THEN 0 ELSE c.n - 1) THEN "prng:shuffle-draws-a-wrong-number-of-indices"
            ELSE IF \E i \in DOMAIN c.calls : ~RandIntOK(0, i, c.calls[i].raws, c.calls[i].ret) THEN "prng:shuffle-index-not-uniform-on-0..i"
            ELSE IF Apply([i \in 1 .. c.n |-> i], [i \in DOMAIN c.calls |-> c.calls[i].ret], 1) # c.result THEN "prng:shuffle-result-is-not-the-Fisher-Yates-permutation"
            ELSE "ok"
      [] c.op = "random" ->
            IF c.status # "ok" THEN "prng:random-raised-" \o c.exc
            ELSE IF Len(c.raws) # 1 \/ ~c.exact THEN "prng:random-is-not-x/2^32"
            ELSE "ok"

Bad == {i \in DOMAIN R.calls : Verdict(R.calls[i]) # "ok"}
Report == t = 0 \/ PrintT(ToJson([t |-> R.t, n |-> Len(R.calls),
                                  first_bad |-> IF Bad = {} THEN 0 ELSE CHOOSE i \in Bad : \A j \in Bad : i <= j,
                                  verdict |-> IF Bad = {} THEN "ok" ELSE Verdict(R.calls[CHOOSE i \in Bad : \A j \in Bad : i <= j])]))
=============================================================================
