------------------------------- MODULE MC_Config -------------------------------
EXTENDS Config, Json, TLC, TLCExt, SequencesExt
ObsJson ==
    CASE obs.a = "construct" ->
            [a |-> "construct", infer |-> obs.infer, envBackend |-> obs.envBackend, envPrim |-> obs.envPrim,
             envDiv |-> obs.envDiv, importable |-> SetToSeq(obs.importable),
             error |-> obs.result.status = "error",
             backend |-> obs.result.backend, prim |-> obs.result.prim, divprim |-> obs.result.divprim]
      [] OTHER -> obs
(* the environment is read at construction only: afterwards states are identified up to it *)
EnvIrrelevantAfterConstruction == IF cfg.status = "unset" THEN <<vars>> ELSE <<cfg, obs>>
Export == obs.a \in {"none", "assign"} \/ PrintT(ToJson(ObsJson))
(* the export only depends on obs: states that differ elsewhere need not be printed twice, but
   TLC prints per distinct state; the replayer de-duplicates *)
=============================================================================
