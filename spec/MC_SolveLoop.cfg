CONSTANTS
  Kinds <- K3
  IntDom <- D2
SPECIFICATION Spec
INVARIANT Exact
INVARIANT DemotionSound
INVARIANT Progress
INVARIANT Export
PROPERTY Terminates
CHECK_DEADLOCK FALSE
