------------------------------ MODULE SolveLoop ------------------------------
(***************************************************************************)
(* The refinement loop of Solver.solve (cspuz/solver.py) for a backend     *)
(* without native deduction: solve once, then repeatedly add the clause    *)
(* "some still-candidate answer key differs from its candidate value",     *)
(* re-solve, and demote every key on which the new model disagrees, until  *)
(* the backend reports unsatisfiable.  The backend is any *correct*        *)
(* solver: at every solve it may return any model of what it was given.    *)
(* One action per step of the code.                                        *)
(***************************************************************************)
EXTENDS Integers, Sequences, FiniteSets, TLC

CONSTANTS Kinds      \* sequence of "bool"/"int": the declared variables
          , IntDom   \* domain of the integer variables

NV == Len(Kinds)
DomOf(k) == IF Kinds[k] = "bool" THEN BOOLEAN ELSE IntDom

RECURSIVE AsgFrom(_)
AsgFrom(k) == IF k > NV THEN {<<>>} ELSE {<<x>> \o r : x \in DomOf(k), r \in AsgFrom(k + 1)}
U == AsgFrom(1)          \* every assignment of the declared variables

VARIABLES M,        \* the set of models of the posted constraints (any subset of U)
          keys,     \* answer keys (any subset of 1..NV)
          phase,    \* "first" | "refute" | "resolve" | "demote" | "publish" | "done"
          clauses,  \* refuting clauses given to the backend so far: each a function key -> value
          cand,     \* candidate facts: key -> {} (demoted) or {v}
          cur,      \* the model last returned by the backend (<<>> before)
          nsolve,   \* number of backend solve() calls
          ret,      \* result of Solver.solve: {} while running, {TRUE} / {FALSE}
          hist      \* the models the backend returned, in order (scenario for the replayer)

vars == <<M, keys, phase, clauses, cand, cur, nsolve, ret, hist>>

Sat1(m, c)  == \E k \in DOMAIN c : m[k] # c[k]              \* clause: OR_k (var k # c[k])
Allowed     == {m \in M : \A i \in DOMAIN clauses : Sat1(m, clauses[i])}
Decided     == {k \in keys : cand[k] # {}}
RefClause   == [k \in Decided |-> CHOOSE v \in cand[k] : TRUE]
FactOf(k)   == IF \E x \in {m[k] : m \in M} : \A m \in M : m[k] = x
               THEN {(CHOOSE m \in M : TRUE)[k]} ELSE {}

Init == /\ M \in SUBSET U /\ keys \in SUBSET (1 .. NV)
        /\ phase = "first" /\ clauses = <<>> /\ cand = [k \in keys |-> {}]
        /\ cur = <<>> /\ nsolve = 0 /\ ret = {} /\ hist = <<>>

SolveFirst ==
    /\ phase = "first" /\ nsolve' = nsolve + 1
    /\ IF M = {} THEN /\ phase' = "done" /\ ret' = {FALSE}
                      /\ UNCHANGED <<cand, cur, hist>>
       ELSE \E m \in M : /\ cur' = m /\ hist' = Append(hist, m)
                         /\ cand' = [k \in keys |-> {m[k]}]
                         /\ phase' = "refute" /\ UNCHANGED ret
    /\ UNCHANGED <<M, keys, clauses>>

Refute ==
    /\ phase = "refute"
    /\ clauses' = Append(clauses, RefClause)
    /\ phase' = "resolve"
    /\ UNCHANGED <<M, keys, cand, cur, nsolve, ret, hist>>

Resolve ==
    /\ phase = "resolve" /\ nsolve' = nsolve + 1
    /\ IF Allowed = {} THEN phase' = "publish" /\ UNCHANGED <<cur, hist>>
       ELSE \E m \in Allowed : cur' = m /\ hist' = Append(hist, m) /\ phase' = "demote"
    /\ UNCHANGED <<M, keys, clauses, cand, ret>>

Demote ==
    /\ phase = "demote"
    /\ cand' = [k \in keys |-> IF cand[k] # {} /\ cand[k] # {cur[k]} THEN {} ELSE cand[k]]
    /\ phase' = "refute"
    /\ UNCHANGED <<M, keys, clauses, cur, nsolve, ret, hist>>

Publish ==
    /\ phase = "publish" /\ ret' = {TRUE} /\ phase' = "done"
    /\ UNCHANGED <<M, keys, clauses, cand, cur, nsolve, hist>>

Next == SolveFirst \/ Refute \/ Resolve \/ Demote \/ Publish
Spec == Init /\ [][Next]_vars /\ WF_vars(Next)

-----------------------------------------------------------------------------
(* C02: the published facts are exactly the facts common to all solutions *)
Exact == phase = "done" =>
           /\ ret = {M # {}}
           /\ M # {} => \A k \in keys : cand[k] = FactOf(k)

(* candidates are never wrong about a *decided* value: a demoted key is undecided *)
DemotionSound == \A k \in keys : (phase # "first" /\ M # {} /\ cand[k] = {}) => FactOf(k) = {}

(* every re-solve that finds a model demotes at least one key *)
Progress == nsolve <= Cardinality(keys) + 2

Terminates == <>(phase = "done")

Done == phase = "done"
=============================================================================
