"""X02 (extended coverage, not a listed property) - the default callbacks of generate_problem follow spec/GenDefaults.tla

TLC enumerates answer-term tuples / nested problems with the specified score, uniqueness verdict and clue counts
(and checks Coherent: unique <=> score is maximal); the real default_score_calculator, default_uniqueness_checker and
count_non_default_values are called on real objects (variables with sol set by hand, arrays, frames, lists, tuples)."""
import json

from harness.common import Check
from harness.tlc import run_tlc

PID = "X02"


def build_term(s, t, k):
    from cspuz import BoolGridFrame
    from cspuz.array import BoolArray1D, IntArray2D

    def var(decided, as_int):
        v = s.int_var(0, 5) if as_int else s.bool_var()
        v.sol = (3 if as_int else True) if decided else None
        return v
    if t["t"] == "var":
        return var(t["d"], k % 2 == 1)
    if t["t"] == "arr":
        items = t["items"]
        if len(items) == 4 and k % 2 == 0:          # a 1x1 frame has four edges
            fr = BoolGridFrame(s, 1, 1)
            for e, d in zip(fr, items):
                e.sol = True if d else None
            return fr
        if len(items) == 2 and k % 2 == 0:
            return IntArray2D([var(d, True) for d in items], (1, 2))
        return BoolArray1D([var(d, False) for d in items])
    if t["t"] == "list":
        return [build_term(s, x, k + i + 1) for i, x in enumerate(t["items"])]
    return [(var(False, False),), 5, None, "x"][k % 4]      # ignored: a tuple (even of undecided variables), an int, None, a str


def build_problem(p):
    if p["t"] == "leaf":
        return int(str(p["v"]))        # a fresh object: values are compared by equality, not identity
    items = [build_problem(x) for x in p["items"]]
    return tuple(items) if p["tuple"] else items


def run(tier, seed):
    from cspuz import Solver
    from cspuz.generator.core import default_score_calculator, default_uniqueness_checker, count_non_default_values
    chk = Check(PID, tier, seed, evidence_dir="evidence_extended")
    res = run_tlc("MC_GenDefaults", "MC_GenDefaults", workdir=chk.dir, timeout=900)
    chk.add_tlc(res)
    for i, r in enumerate(res.records):
        if r["kind"] == "args":
            s = Solver()
            args = [build_term(s, t, i + j) for j, t in enumerate(r["args"])]
            try:
                got = {"score": default_score_calculator(*args), "unique": default_uniqueness_checker(*args)}
            except Exception as e:  # noqa
                got = {"raised": type(e).__name__}
            exp = {"score": r["score"], "unique": r["unique"]}
            chk.note_case(r["args"], any(t["t"] == "list" for t in r["args"]))
        else:
            prob = build_problem(r["problem"])
            got, exp = {}, {}
            for d in ("0", "1", "300"):
                for w in ("1", "5"):
                    exp[f"{d}/{w}"] = r["counts"][d][w]
                    try:
                        got[f"{d}/{w}"] = count_non_default_values(prob, int(d), int(w))
                    except Exception as e:  # noqa
                        got[f"{d}/{w}"] = "raised " + type(e).__name__
            chk.note_case(r["problem"], r["problem"]["t"] == "seq" and len(r["problem"]["items"]) >= 2)
        if got != exp:
            chk.violation({"kind": r["kind"]}, f"default callbacks ({r['kind']}): expected {exp}, observed {got}",
                          {"case": r, "expected": exp, "observed": got})
    chk.traces = len(res.records)
    chk.sample(res.records[100])
    chk.rule = "case = one argument tuple of answer terms, or one nested problem; non-trivial = contains a list / has >= 2 items"
    chk.exhaustive = True
    chk.extra["invariants_model_checked"] = ["Coherent (unique <=> score = number of variables)"]
    chk.assumptions = ["only Python lists are containers for the two default callbacks (tuples and other objects are ignored, as in the code)"]
    return chk.finish()


def replay(path):
    """the recorded cases are printed; the verdict comes from re-running the check that found them, with the same tier and
    seed, on the current tree (the cases of this check depend on what ran before them in the same process, or need the
    TLC-computed expectations)"""
    data = json.loads(open(path).read())
    for c in data["cases"][:5]:
        print(json.dumps(c)[:600])
    return run(data.get("tier", "quick"), data.get("seed", 0))
