"""C06 - active_edges_single_cycle / single_path admit exactly one simple cycle / path"""
import json

from harness.common import Check
from harness import graph_check as GC, graph_replay as GR
from harness.flag_family import direction

PID = "C06"
FORMS = ["vars", "array", "neg", "xor", "const"]


def run(tier, seed):
    chk = Check(PID, tier, seed)
    recs = GC.tlc_cases(chk, "cycle", tier)
    z3jobs, emitjobs = [], []
    for r in recs:
        obj = r["obj"]
        m = len(obj["graph"]["edges"])
        pats = list(range(2 ** m))
        forms = ["vars"] if obj["kind"] == "frame" else FORMS
        fs = [forms[(seed + r["id"]) % len(forms)]] if tier == "quick" else forms
        for f in fs:
            job = {"obj": obj, "id": r["id"], "flip": GC.flip_of(seed, r["id"]), "form": f, "prim": False, "patterns": pats, "expects": r["cycle"],
                   "masks": r["touched"]}
            for i in range(0, len(pats), 128):
                j = dict(job)
                j["patterns"], j["expects"], j["masks"] = pats[i:i + 128], r["cycle"][i:i + 128], r["touched"][i:i + 128]
                z3jobs.append(j)
        pf = [f for f in forms if f != "const"]
        if tier == "quick":
            pf = [pf[(seed + r["id"]) % len(pf)]]
        for f in pf:
            for which in ("cycle", "path"):
                emitjobs.append({"obj": obj, "id": r["id"], "flip": GC.flip_of(seed, r["id"]), "form": f, "which": which, "expects": r[which],
                                 "masks": r["touched"]})
    results = GC.pmap(GR.run_cycle, z3jobs)
    for job, mism in zip(z3jobs, results):
        for p in job["patterns"]:
            chk.note_case(f"cycle/{job['id']}/{job['form']}/{p}", bin(p).count("1") >= 2)
        for mm in mism:
            d = direction(mm["observed"]) if mm["observed"] != mm["expected"] else "returns-wrong-array"
            chk.violation({"helper": "active_edges_single_cycle", "route": "z3", "kind": job["obj"]["kind"],
                           "form": job["form"], "direction": d},
                          f"active_edges_single_cycle {d} (definition: {mm['expected']}) {mm['why']}",
                          {"obj": job["obj"], "id": job["id"], "flip": job.get("flip", 0), "form": job["form"], "pattern": mm["pattern"],
                           "edges_active": GR.bits_of(mm["pattern"], len(job["obj"]["graph"]["edges"])),
                           "expected": mm["expected"], "observed": mm["observed"], "why": mm["why"],
                           "mask": job["masks"][job["patterns"].index(mm["pattern"])]})
    emitted = GC.pmap(GR.emit_cycle, emitjobs)
    erecs = []
    for t, (job, e) in enumerate(zip(emitjobs, emitted)):
        e.update({"t": t, "expects": job["expects"]})
        erecs.append(e)
    def cyc_jobs(j):
        if j["which"] != "cycle":
            return None
        ps = list(range(len(j["expects"])))
        return [dict(j, prim=True, patterns=ps[i:i + 128], expects=j["expects"][i:i + 128], masks=j["masks"][i:i + 128])
                for i in range(0, len(ps), 128)]
    verdicts = GC.judge_emits(chk, erecs, jobs=emitjobs, fallback=(GR.run_cycle, cyc_jobs))
    for t, job in enumerate(emitjobs):
        v = verdicts[t]
        chk.note_case(f"emit/{job['which']}/{job['id']}/{job['form']}", len(job["obj"]["graph"]["edges"]) >= 2)
        if v["verdict"] != "ok":
            m = len(job["obj"]["graph"]["edges"])
            chk.violation({"helper": "active_edges_single_" + job["which"], "route": "primitive",
                           "clause": v["verdict"],
                           "empty_edge_set_only": v["pattern"] == 0 and v["nbad"] == 1},
                          f"native-primitive program of active_edges_single_{job['which']}: {v['verdict']} "
                          f"(first bad edge pattern {v['pattern']}, {v['nbad']} bad)",
                          {"obj": job["obj"], "form": job["form"], "which": job["which"], "pattern": v["pattern"],
                           "edges_active": GR.bits_of(max(v["pattern"], 0), m), "nbad": v["nbad"]})
    # Graph.line_graph() as a specified function: vertices = edges, adjacent iff they share an endpoint
    for r in recs:
        if r["obj"]["kind"] != "graph":
            continue
        chk.note_case(f"linegraph/{r['id']}", len(r["obj"]["graph"]["edges"]) >= 2)
        try:
            # the edges are added in the listed order, reversed, or second half first; oriented as listed, reversed, alternating
            GR._JOB_GRAPHS.clear()
            GR.EORD[0], GR.FLIP[0], GR.HIST[0] = r["id"] % 3, (r["id"] // 3) % 3, False
            g = r["obj"]["graph"]
            lg = GR.mk_graph(g).line_graph()
            perm = GR._JOB_GRAPHS[id(g)][2]
            got = sorted(sorted((perm[a] + 1, perm[b] + 1)) for (a, b) in lg.edges)
            ok = lg.num_vertices == len(r["obj"]["graph"]["edges"]) and got == sorted(sorted(p) for p in r["linegraph"]) \
                and len(set(map(tuple, got))) == len(got)
        except Exception as e:  # noqa
            got, ok = "raised " + type(e).__name__, False
        if not ok:
            chk.violation({"helper": "Graph.line_graph"}, "line_graph() differs from 'one vertex per edge, adjacent iff sharing an endpoint'",
                          {"obj": r["obj"], "expected_pairs": r["linegraph"], "observed": got})
    # the path constraint exists only in primitive form
    for r in recs[:: max(1, len(recs) // 10)]:
        chk.note_case(f"path-nonprimitive/{r['id']}", True)
        if not GR.path_nonprimitive_raises(r["obj"]):
            chk.violation({"helper": "active_edges_single_path", "route": "non-primitive"},
                          "active_edges_single_path(use_graph_primitive=False) did not raise", {"obj": r["obj"]})
    chk.sample({"obj": recs[-1]["obj"], "cycle": recs[-1]["cycle"][:12], "touched": recs[-1]["touched"][:12]})
    chk.rule = "case = (multigraph or frame, form of the edge flags, encoding, edge subset); non-trivial = at least 2 active edges"
    chk.exhaustive = True
    chk.extra["space"] = "see spec/MC_Graph.tla CycleObjs: multigraphs with parallel edges, simple graphs <=4 vertices, catalogue, frames; all 2^m subsets"
    chk.extra["objects"] = len(recs)
    chk.assumptions = [
        "cycle, auxiliary-variable encoding: real z3 path, returned array judged through solve() (every key decided, equal to the visited set)",
        "cycle/path, native encoding: TLC decides the emitted program over the line graph the code built, with the native operator's defined meaning",
    ]
    return chk.finish()


def replay(path):
    data = json.loads(open(path).read())
    bad = 0
    for c in data["cases"]:
        if "which" in c:
            job = {"obj": c["obj"], "form": c["form"], "which": c["which"], "masks": []}
            print(json.dumps({"emit": c["which"], "obj": c["obj"], "bad_pattern": c["pattern"], "edges_active": c["edges_active"]}))
            bad += 1
            continue
        if "pattern" not in c:
            print(json.dumps(c)); bad += 1; continue
        job = {"obj": c["obj"], "id": c.get("id", 0), "flip": c.get("flip", 0), "form": c["form"], "prim": False,
               "patterns": [c["pattern"]], "expects": [c["expected"]], "masks": [c["mask"]]}
        mism = GR.run_cycle(job)
        print(json.dumps({"obj": c["obj"], "edges_active": c["edges_active"], "expected": c["expected"],
                          "observed": mism[0] if mism else "as expected"}))
        bad += bool(mism)
    if bad:
        print(f"VIOLATION property={PID} replay={path}")
    return 1 if bad else 0
