"""C04 - active_vertices_connected holds exactly for connected (or tree) active sets"""
import json

from harness.common import Check
from harness import graph_check as GC, graph_replay as GR

PID = "C04"
GRAPH_FORMS = ["vars", "array", "neg", "xor", "const"]
GRID_FORMS = ["vars", "neg", "const"]


def plan(recs, tier, seed):
    z3jobs, emitjobs = [], []
    for r in recs:
        obj = r["obj"]
        n = obj["graph"]["n"]
        forms = GRID_FORMS if obj["kind"] == "grid" else GRAPH_FORMS
        pats = list(range(2 ** n))
        for acyclic in (False, True):
            exp = r["tree"] if acyclic else r["connected"]
            if tier == "quick":
                fs = [forms[(seed + r["id"] + acyclic) % len(forms)]]
            else:
                fs = forms
            for f in fs:
                z3jobs += GC.split_patterns({"obj": obj, "id": r["id"], "flip": GC.flip_of(seed, r["id"]), "acyclic": acyclic, "form": f,
                                             "prim": False, "patterns": pats, "expects": exp})
            # native-primitive route requested
            pf = [f for f in forms if f != "const"]
            if tier == "quick":
                pf = [pf[(seed + r["id"]) % len(pf)]]
            for f in pf:
                if acyclic:   # must fall back to the auxiliary-variable encoding: decided by z3
                    if n <= 6 or tier != "quick":
                        z3jobs += GC.split_patterns({"obj": obj, "id": r["id"], "flip": GC.flip_of(seed, r["id"]), "acyclic": True, "form": f,
                                                     "prim": True, "patterns": pats, "expects": exp})
                else:
                    emitjobs.append({"obj": obj, "id": r["id"], "flip": GC.flip_of(seed, r["id"]), "acyclic": False, "form": f, "expects": exp})
    return z3jobs, emitjobs


def run(tier, seed):
    chk = Check(PID, tier, seed)
    recs = GC.tlc_cases(chk, "conn", tier)
    z3jobs, emitjobs = plan(recs, tier, seed)
    import random
    from harness import scaleup
    z3jobs += scaleup.conn_jobs(chk, tier, seed, random.Random(seed + 4))
    results = GC.pmap(GR.run_conn, z3jobs)
    for job, mism in zip(z3jobs, results):
        n = job["obj"]["graph"]["n"]
        for p in job["patterns"]:
            chk.note_case(f"{job['id']}/{job['acyclic']}/{job['form']}/{job['prim']}/{p}",
                          bin(p).count("1") >= 2 and len(job["obj"]["graph"]["edges"]) >= 1)
        for m in mism:
            direction = ("admits" if m["observed"] is True else "rejects" if m["observed"] is False
                         else str(m["observed"]))
            chk.violation({"helper": "active_vertices_connected", "route": "z3-primitive-requested" if job["prim"] else "z3",
                           "acyclic": job["acyclic"], "kind": job["obj"]["kind"], "form": job["form"],
                           "direction": direction},
                          f"active_vertices_connected(acyclic={job['acyclic']}) {direction} a pattern the definition "
                          f"{'rejects' if m['observed'] is True else 'admits'}",
                          {"obj": job["obj"], "id": job["id"], "acyclic": job["acyclic"], "form": job["form"], "prim": job["prim"], "flip": job.get("flip", 0),
                           "pattern": m["pattern"], "active": GR.bits_of(m["pattern"], n),
                           "expected": m["expected"], "observed": m["observed"]})
    emitted = GC.pmap(GR.emit_conn, emitjobs)
    erecs = []
    for t, (job, e) in enumerate(zip(emitjobs, emitted)):
        e.update({"t": t, "expects": job["expects"]})
        erecs.append(e)
    verdicts = GC.judge_emits(chk, erecs, jobs=emitjobs, fallback=(GR.run_conn, lambda j: GC.split_patterns(
        dict(j, prim=True, patterns=list(range(len(j["expects"])))))))
    for t, job in enumerate(emitjobs):
        v = verdicts[t]
        chk.note_case(f"emit/{job['id']}/{job['form']}", len(job["obj"]["graph"]["edges"]) >= 1)
        native = any(c["op"] == "GRAPH_ACTIVE_VERTICES_CONNECTED" for c in erecs[t]["prog"]["cons"])
        if v["verdict"] != "ok" or not native:
            what = v["verdict"] if v["verdict"] != "ok" else "emit:native-operator-not-used-although-requested"
            chk.violation({"helper": "active_vertices_connected", "route": "primitive", "kind": job["obj"]["kind"],
                           "form": job["form"], "clause": what},
                          f"native-primitive program of active_vertices_connected: {what}",
                          {"obj": job["obj"], "form": job["form"], "pattern": v["pattern"], "nbad": v["nbad"],
                           "program": erecs[t]["prog"]})
    chk.sample({"obj": recs[len(recs) // 2]["obj"], "connected": recs[len(recs) // 2]["connected"][:16]})
    chk.sample({"z3_job": {k: z3jobs[0][k] for k in ("obj", "acyclic", "form", "prim")}, "patterns": z3jobs[0]["patterns"][:8]})
    chk.rule = ("case = (graph or grid, acyclic flag, form in which is_active is supplied, encoding, activity pattern); "
                "non-trivial = at least 2 active vertices and a graph with at least one edge")
    chk.exhaustive = True
    chk.extra["objects"] = len(recs)
    chk.extra["space"] = ("every labelled simple graph on 1..4 vertices, a catalogue on 5-8 vertices (incl. multigraphs), "
                          "grids (see spec/MC_Graph.tla ConnObjs for the tier); ALL 2^n activity patterns of each; "
                          "quick: one seeded is_active form per object, thorough: every form")
    chk.assumptions = [
        "auxiliary-variable encoding decided by the real z3 path; native-primitive encoding decided by TLC with the "
        "operator's defined meaning (CspSem!EvalGraphConn) because no native solver exists offline",
        "bounded scope: graphs up to 8 vertices, grids up to 3x4",
    ]
    return chk.finish()


def replay(path):
    data = json.loads(open(path).read())
    bad = 0
    for c in data["cases"]:
        if "active" not in c:
            print(json.dumps(c)[:600])
            bad += 1
            continue
        job = {"obj": c["obj"], "id": c.get("id", 0), "acyclic": c["acyclic"], "form": c["form"], "prim": c["prim"], "flip": c.get("flip", 0),
               "patterns": [c["pattern"]], "expects": [c["expected"]]}
        mism = GR.run_conn(job)
        print(json.dumps({"obj": c["obj"], "acyclic": c["acyclic"], "form": c["form"], "active": c["active"],
                          "expected": c["expected"], "observed": mism[0]["observed"] if mism else c["expected"]}))
        bad += bool(mism)
    if bad:
        print(f"VIOLATION property={PID} replay={path}")
    return 1 if bad else 0
