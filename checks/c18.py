"""C18 - segmentation builder only ever produces valid room partitions

spec/Segmentation.tla: the builder as a transition system (Merge / Split / Move); TLC shows Valid is invariant from
EVERY valid state under every bound configuration (and that removing the articulation guard breaks it).  Binding:
(P1) in every state TLC reaches, every update the real candidates() proposes is applied with copy_with_update;
(P2) seeded random walks from initial() over larger boards; both judged by TLC (spec/Trace_Seg.tla)."""
import copy
import json
import multiprocessing as mp
from harness.par import RobustPool
import random

from harness.common import Check, NPROC, chunks, write_ndjson
from harness.tlc import run_tlc, MachineryError

PID = "C18"


def mk_builder(h, w, b, unset=0, initial_blocks=None):
    """unset: bit mask of the bounds that are left to their defaults (None) when the configured value equals the
    default (1, h*w, 1, h*w): the same configuration, written the way most callers write it"""
    from cspuz.generator.segmentation import SegmentationBuilder2D
    n = h * w
    kw = {"min_num_blocks": b["minB"], "max_num_blocks": b["maxB"], "min_block_size": b["minS"], "max_block_size": b["maxS"]}
    dflt = {"min_num_blocks": 1, "max_num_blocks": n, "min_block_size": 1, "max_block_size": n}
    for bit, k in enumerate(sorted(kw)):
        if unset >> bit & 1 and kw[k] == dflt[k]:
            kw[k] = None
    if initial_blocks is not None:
        kw["initial_blocks"] = initial_blocks
    return SegmentationBuilder2D(h, w, **kw)


class _InitialTimeout(Exception):
    pass


def _initial(bld, limit=10):
    """initial() repairs unmet bounds by a random walk inside `while True`; on some bound configurations that walk does not
    arrive (C18 is about the values that ARE produced): give it `limit` seconds, then count it like a walk that got stuck"""
    import signal

    def onalarm(signum, frame):
        raise _InitialTimeout()
    signal.signal(signal.SIGALRM, onalarm)
    signal.alarm(limit)
    try:
        return bld.initial()
    finally:
        signal.alarm(0)


def to_cells(blocks, w):
    return [[y * w + x for (y, x) in blk] for blk in blocks]


def explore_state(args):
    """every update proposed in the given states"""
    out = []
    for tid, st, seed in args:
        h, w, b = st["h"], st["w"], st["bnd"]
        random.seed(seed)
        bld = mk_builder(h, w, b, unset=seed % 16)
        cur = [[(c // w, c % w) for c in blk] for blk in st["blocks"]]
        rng = random.Random(seed)
        rng.shuffle(cur)
        for blk in cur:
            rng.shuffle(blk)
        rec = {"t": tid, "h": h, "w": w, "bnd": b, "before": to_cells(cur, w), "updates": [], "status": "ok", "exc": ""}
        try:
            snap = copy.deepcopy(cur)
            for upd in bld.candidates(cur):
                after = bld.copy_with_update(cur, upd)
                rec["updates"].append({"after": to_cells(after, w), "before_unchanged": cur == snap})
                if cur != snap:
                    cur = copy.deepcopy(snap)
        except Exception as e:  # noqa
            rec["status"], rec["exc"] = "exc", type(e).__name__
        out.append(rec)
    return out


def walk(args):
    """seeded random walks from initial(): initial, then candidates -> pick -> copy_with_update"""
    out = []
    for tid, h, w, b, seed, steps in args:
        random.seed(seed)
        rng = random.Random(seed * 31 + 7)
        if seed % 3 == 2 and tid >= 0:
            out += restart_walk(tid, h, w, b, seed, steps, rng)
            continue
        if tid == -3:
            out += initial_blocks_case(h, w, b, seed)
            continue
        bld = mk_builder(h, w, b, unset=seed % 16)
        try:
            cur = _initial(bld, limit=4 if tid == -2 else 10)
        except Exception as e:  # noqa
            out.append({"t": tid, "h": h, "w": w, "bnd": b, "before": [], "updates": [], "status": "exc", "exc": "initial:" + type(e).__name__})
            continue
        history = [copy.deepcopy(cur)]
        live = [cur]
        first = {"t": tid, "h": h, "w": w, "bnd": b, "before": to_cells(cur, w), "updates": [], "status": "ok", "exc": ""}
        recs = [first]
        try:
            for k in range(steps):
                cands = bld.candidates(cur)
                if not cands:
                    break
                if tid == -1:      # scale-up walk: every proposed update is applied and judged, not only the chosen one
                    snap = copy.deepcopy(cur)
                    recs.append({"t": tid, "h": h, "w": w, "bnd": b, "before": to_cells(cur, w), "status": "ok", "exc": "",
                                 "updates": [{"after": to_cells(bld.copy_with_update(cur, u), w), "before_unchanged": cur == snap}
                                             for u in cands]})
                upd = rng.choice(cands)
                nxt = bld.copy_with_update(cur, upd)
                # no earlier value may have been modified by producing a later one
                intact = all(a == b2 for a, b2 in zip(live, history))
                recs.append({"t": tid, "h": h, "w": w, "bnd": b, "before": to_cells(history[-1], w),
                             "updates": [{"after": to_cells(nxt, w), "before_unchanged": intact}], "status": "ok", "exc": ""})
                live.append(nxt)
                history.append(copy.deepcopy(nxt))
                cur = nxt
        except Exception as e:  # noqa
            recs.append({"t": tid, "h": h, "w": w, "bnd": b, "before": [], "updates": [], "status": "exc", "exc": type(e).__name__})
        out += recs
    return out


def initial_blocks_case(h, w, b, seed):
    """initial() of a builder that was given initial_blocks which do not meet the bounds (too many / too few blocks,
    blocks too small / too large): what it hands out must be inside the bounds (allow_unmet_constraints_first is off),
    and so must every value one update further"""
    form = b["_ib"]
    b = {k: v for k, v in b.items() if k != "_ib"}
    ib = {"singles": [[(y, x)] for y in range(h) for x in range(w)],
          "rows": [[(y, x) for x in range(w)] for y in range(h)],
          "cols": [[(y, x) for y in range(h)] for x in range(w)],
          "whole": [[(y, x) for y in range(h) for x in range(w)]],
          "dominoes": [[(y, x), (y, x + 1)] for y in range(h) for x in range(0, w - 1, 2)] + [[(y, w - 1)] for y in range(h) if w % 2]}[form]
    base = {"t": -3, "h": h, "w": w, "bnd": b, "status": "ok", "exc": ""}
    try:
        bld = mk_builder(h, w, b, unset=seed % 16, initial_blocks=ib)
        cur = _initial(bld, limit=5)
    except Exception as e:  # noqa
        return [dict(base, before=[], updates=[], status="exc", exc="initial:" + type(e).__name__)]
    snap = copy.deepcopy(cur)
    rec = dict(base, before=to_cells(cur, w), updates=[])
    try:
        for upd in bld.candidates(cur):
            rec["updates"].append({"after": to_cells(bld.copy_with_update(cur, upd), w), "before_unchanged": cur == snap})
    except Exception as e:  # noqa
        return [rec, dict(base, before=[], updates=[], status="exc", exc=type(e).__name__)]
    return [rec]


def restart_walk(tid, h, w, b, seed, steps, rng):
    """one builder object used the way generate_problem's callers use it: values are dropped as soon as they are
    replaced, and the walk is restarted from initial() several times (with and without initial_blocks)"""
    recs = []
    base = {"t": tid, "h": h, "w": w, "bnd": b, "status": "ok", "exc": ""}
    try:
        start = _initial(mk_builder(h, w, b))
    except Exception as e:  # noqa
        return [dict(base, before=[], updates=[], status="exc", exc="initial:" + type(e).__name__)]
    # initial_blocks: none / a value that already meets the bounds / the rows of the board / one block with every cell
    # (the last two usually do NOT meet the bounds: initial() has to repair them before handing anything out)
    rows = [[(y, x) for x in range(w)] for y in range(h)]
    whole = [[(y, x) for y in range(h) for x in range(w)]]
    # ... / one block per cell (more blocks than any upper bound below h*w allows) / the columns
    singles = [[(y, x)] for y in range(h) for x in range(w)]
    cols = [[(y, x) for y in range(h)] for x in range(w)]
    bld = mk_builder(h, w, b, unset=seed % 16, initial_blocks=[None, start, rows, whole, singles, cols][(seed // 3) % 6])
    try:
        for _ in range(max(2, steps // 4)):
            try:
                cur = _initial(bld)
            except Exception as e:  # noqa
                recs.append(dict(base, before=[], updates=[], status="exc", exc="initial:" + type(e).__name__))
                break
            recs.append(dict(base, before=to_cells(cur, w), updates=[]))
            for k in range(rng.randint(0, 3)):
                cands = bld.candidates(cur)
                if not cands:
                    break
                snap = copy.deepcopy(cur)
                nxt = bld.copy_with_update(cur, rng.choice(cands))
                recs.append(dict(base, before=to_cells(snap, w),
                                 updates=[{"after": to_cells(nxt, w), "before_unchanged": cur == snap}]))
                cur = nxt
                del nxt, snap, cands
            # every update proposed for the value the walk stopped at; then the value is dropped and the same
            # builder starts over (nothing may be remembered about a value that no longer exists)
            snap = copy.deepcopy(cur)
            rec = dict(base, before=to_cells(cur, w), updates=[])
            for upd in bld.candidates(cur):
                after = bld.copy_with_update(cur, upd)
                rec["updates"].append({"after": to_cells(after, w), "before_unchanged": cur == snap})
                del after
            recs.append(rec)
            del snap, rec
            del cur
    except Exception as e:  # noqa
        recs.append(dict(base, before=[], updates=[], status="exc", exc=type(e).__name__))
    return recs


def run(tier, seed):
    chk = Check(PID, tier, seed)
    boards = ["2x2", "1x4", "2x3"] if tier == "quick" else ["2x2", "1x4", "2x3", "3x2", "3x3"]
    states = []
    for b in boards:
        res = run_tlc("MC_Seg", "MC_Seg_" + b, workdir=chk.dir, timeout=3000)
        chk.add_tlc(res)
        states += res.records
    res = run_tlc("MC_Seg", "MC_Seg_broken", workdir=chk.dir, timeout=600, expect_ok=False)
    chk.extra["spec_level_binding_demo"] = ("Move without the articulation guard violates Inv: " +
                                            ("yes" if res.exit_code == 12 and res.invariant_violated == "Inv" else "NO"))
    if res.exit_code != 12:
        raise MachineryError("the broken Segmentation spec was expected to violate Inv")
    if tier == "quick" and len(states) > 2500:
        rng = random.Random(seed)
        states = rng.sample(states, 2500)
    jobs = [(i, st, seed * 1000 + i) for i, st in enumerate(states)]
    with RobustPool(NPROC) as pool:
        outs = pool.map(explore_state, chunks(jobs, NPROC * 4))
    recs = [x for o in outs for x in o]
    # random walks on larger boards
    rng = random.Random(seed + 5)
    wj = []
    nwalks = 60 if tier == "quick" else 600
    for i in range(nwalks):
        h, w = rng.choice([(3, 3), (4, 4), (2, 5), (5, 3), (1, 6), (6, 6)])
        n = h * w
        minS = rng.choice([1, 1, 2, 3])
        maxS = rng.choice([max(minS, 3), max(minS, 5), n])
        maxB = rng.choice([max(1, n // max(1, minS)), n, max(2, n // 2)])
        minB = rng.choice([1, 1, min(2, maxB), min(3, maxB)])
        b = {"minB": minB, "maxB": maxB, "minS": minS, "maxS": maxS}
        # satisfiable configurations only: minB*minS <= n <= maxB*maxS
        if not (minB * minS <= n <= maxB * maxS):
            continue
        wj.append((0, h, w, b, seed * 7919 + i, 25 if tier == "quick" else 60))
    # scale-up: boards with a side of 16 and more (few blocks, so that blocks span several rows), every proposed update
    # of every visited value judged
    for i, (h, w) in enumerate([(3, 16), (2, 17), (17, 2), (2, 16)] * (1 if tier == "quick" else 6)):
        b = {"minB": 1, "maxB": 3 + i % 2, "minS": 1, "maxS": h * w}
        wj.append((-1, h, w, b, seed * 7919 + 5000 + i, 40 if tier == "quick" else 120))
    for i, (h, w, b) in enumerate([(3, 3, {"minB": 3, "maxB": 3, "minS": 3, "maxS": 5}),
                                   (4, 4, {"minB": 8, "maxB": 8, "minS": 1, "maxS": 2}),
                                   (6, 6, {"minB": 18, "maxB": 18, "minS": 1, "maxS": 2}),
                                   (2, 4, {"minB": 2, "maxB": 2, "minS": 4, "maxS": 4}),
                                   (3, 4, {"minB": 4, "maxB": 4, "minS": 3, "maxS": 3})] * (2 if tier == "quick" else 8)):
        wj.append((-2, h, w, b, seed * 7919 + 9000 + i, 3))
    # initial_blocks that do not meet the bounds, on small boards, every form x a sweep of bounds
    k = 0
    for (h, w) in [(2, 2), (2, 3), (3, 3), (1, 4)] + ([] if tier == "quick" else [(2, 5), (4, 4), (3, 4)]):
        n = h * w
        for form in ("singles", "rows", "cols", "whole", "dominoes"):
            for minB, maxB, minS, maxS in [(1, 1, 1, n), (1, 2, 1, n), (1, 3, 1, n), (2, 2, 1, n), (2, 3, 1, n - 1), (1, n, 2, n),
                                           (2, n, 1, max(1, n // 2)), (n, n, 1, 1), (1, n - 1, 1, n), (2, n, 2, n)]:
                if minB <= maxB and minS <= maxS and minB * minS <= n <= maxB * maxS:
                    wj.append((-3, h, w, {"minB": minB, "maxB": maxB, "minS": minS, "maxS": maxS, "_ib": form}, seed * 7919 + 20000 + k, 1))
                    k += 1
    with RobustPool(NPROC) as pool:
        wouts = pool.map(walk, chunks(wj, NPROC * 2))
    wrecs = [x for o in wouts for x in o]
    allrecs = recs + wrecs
    for i, r in enumerate(allrecs):
        r["t"] = i
    from harness.tlc import run_tlc_chunked
    seg_results = run_tlc_chunked("Trace_Seg", allrecs, workdir=chk.dir, name="seg", chunk_bytes=3_000_000, parallel=4,
                                  timeout=3000, workers=4)
    seg_verdicts = []
    for res2 in seg_results:
        chk.add_tlc(res2)
        seg_verdicts += res2.records
    if len(seg_verdicts) != len(allrecs):
        raise MachineryError(f"{len(allrecs)} builder records but {len(seg_verdicts)} verdicts")
    chk.traces = len(allrecs)
    other = 0
    for v in seg_verdicts:
        r = allrecs[v["t"]]
        src = "state" if v["t"] < len(recs) else "walk"
        for u in r["updates"]:
            chk.note_case(f"{r['h']}x{r['w']}/{r['bnd']}/{r['before']}/{u['after']}", True)
        other += v["other_kind"]
        if r["status"] != "ok" and r["exc"].startswith("initial:"):
            # initial() walks randomly towards the bounds and may get stuck on tight configurations: it then produces
            # no value at all, which C18 (about the values that ARE produced) does not speak about
            chk.extra["initial_could_not_meet_the_bounds (not judged)"] = chk.extra.get("initial_could_not_meet_the_bounds (not judged)", 0) + 1
        elif r["status"] != "ok":
            chk.violation({"what": "raised", "exc": r["exc"]}, f"builder raised {r['exc']}",
                          {"h": r["h"], "w": r["w"], "bnd": r["bnd"], "before": r["before"]})
        elif src == "walk" and v["t"] >= len(recs) and not v["start_valid"]:
            chk.violation({"what": "invalid-value-on-walk"}, "a value reached by the walk (or initial()) is not a valid partition within the bounds",
                          {"h": r["h"], "w": r["w"], "bnd": r["bnd"], "value": r["before"]})
        if v["verdict"] != "ok":
            u = r["updates"][v["first_bad"] - 1]
            chk.violation({"what": v["verdict"], "source": src}, f"{r['h']}x{r['w']} bounds {r['bnd']}: {v['verdict']} ({v['nbad']} update(s))",
                          {"h": r["h"], "w": r["w"], "bnd": r["bnd"], "before": r["before"], "after": u["after"],
                           "before_unchanged": u["before_unchanged"]})
    chk.extra["updates_judged"] = sum(len(r["updates"]) for r in allrecs)
    chk.extra["updates_that_are_not_a_merge_split_or_move_of_the_spec (diagnostic)"] = other
    chk.extra["states_from_TLC"] = len(recs)
    chk.extra["walk_records"] = len(wrecs)
    ex = next(r for r in recs if len(r["updates"]) >= 2)
    chk.sample({"h": ex["h"], "w": ex["w"], "bnd": ex["bnd"], "before": ex["before"], "one_update_after": ex["updates"][0]["after"]})
    chk.rule = "case = (board, bounds, value, proposed update); distinct by JSON; every update changes at least two blocks or splits one"
    chk.exhaustive = True
    chk.extra["space"] = "every valid value of boards 2x2, 1x4, 2x3 (thorough: 3x2, 3x3) under every bound configuration with min<=max<=5 (or the board size): all updates candidates() proposes there; plus seeded random walks from initial() on boards up to 6x6"
    chk.assumptions = ["allow_unmet_constraints_first=False; satisfiable bound configurations only",
                       "proposals must be sound, need not be complete; sharing of inner lists is not mutation; the kind of update is a diagnostic"]
    return chk.finish()


def replay(path):
    """the recorded cases are printed; the verdict comes from re-running the check that found them, with the same tier and
    seed, on the current tree (the cases of this check depend on what ran before them in the same process, or need the
    TLC-computed expectations)"""
    data = json.loads(open(path).read())
    for c in data["cases"][:5]:
        print(json.dumps(c)[:600])
    return run(data.get("tier", "quick"), data.get("seed", 0))
