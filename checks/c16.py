"""C16 - puzzle URL codecs round-trip and agree with the puzz.link/pzv format"""
import json
import multiprocessing as mp
from harness.par import RobustPool

from harness.common import Check, NPROC, chunks, write_ndjson
from harness.tlc import run_tlc, MachineryError
from harness import url_codecs

PID = "C16"


def run(tier, seed):
    chk = Check(PID, tier, seed)
    res = run_tlc("MC_Url", "MC_Url", workdir=chk.dir, env={"TIER": tier}, timeout=3000)
    chk.add_tlc(res)
    cases = [(r["id"], r["case"]) for r in sorted(res.records, key=lambda r: r["id"])]
    # scale-up: boards with a side of 1000 and more (a width or height with four digits in the URL)
    nid = max(c[0] for c in cases) + 1
    def sparse(n, empty, clues):
        cells = [empty] * n
        for pos, v in clues.items():
            cells[pos % n] = v
        return cells
    big = [{"mod": "nurikabe", "h": 3, "w": 1200, "cells": sparse(3600, 0, {0: 5, 1777: 17, 3599: 300})},
           {"mod": "nurikabe", "h": 1100, "w": 2, "cells": sparse(2200, 0, {3: 2, 2199: 16})},
           {"mod": "slither", "h": 2, "w": 1001, "cells": sparse(2002, -1, {0: 3, 1000: 0, 2001: 2})},
           {"mod": "masyu", "h": 1, "w": 1003, "cells": sparse(1003, 0, {5: 1, 1002: 2})}]
    if tier != "quick":      # room codecs on such boards cost TLC minutes (flood fill over 2000 cells)
        big += [{"mod": "lits", "h": 2, "w": 1000, "rgs": [x // 5 for x in range(1000)] * 2, "vals": []},
                {"mod": "heyawake", "h": 2, "w": 1000, "rgs": [x // 10 for x in range(1000)] * 2, "vals": [(-1 if r % 3 else r % 7) for r in range(100)]}]
    for c in big:
        cases.append((nid, c))
        nid += 1
    with RobustPool(NPROC) as pool:
        outs = pool.map(url_codecs.work, chunks(cases, NPROC * 4))
    recs = [x for o in outs for x in o]
    path = chk.dir / "urls.ndjson"
    write_ndjson(path, recs)
    res2 = run_tlc("Trace_Url", "Trace_Url", workdir=chk.dir, env={"TRACE_FILE": str(path)}, timeout=3000, workers=4)
    chk.add_tlc(res2)
    if len(res2.records) != len(recs):
        raise MachineryError(f"{len(recs)} url records but {len(res2.records)} verdicts")
    chk.traces = len(recs)
    obs = {r["t"]: r for r in recs}
    for cid, case in cases:
        chk.note_case(case, case["h"] * case["w"] >= 2)
    for v in res2.records:
        if v["verdict"] != "ok":
            o = obs[v["t"]]
            case = o["case"]
            has_q = case["mod"] == "yajilin" and url_codecs.QMARK in case.get("cells", [])
            chk.violation({"module": case["mod"], "clause": v["verdict"], "square": case["h"] == case["w"],
                           "yajilin_unknown_clue": has_q},
                          f"{case['mod']} {case['h']}x{case['w']}: {v['verdict']}",
                          {"case": case, "url": o["url"], "decoded": {k: o[k] for k in ("dec_status", "dec_h", "dec_w", "dec_cells", "dec_rooms", "dec_vals", "dec_clues")}})
    for m in ("nurikabe", "heyawake", "compass"):
        o = next(r for r in recs if r["case"]["mod"] == m and r["case"]["h"] * r["case"]["w"] >= 4)
        chk.sample({"case": o["case"], "url": o["url"]})
    chk.rule = "case = (module, board, problem as canonical integers); non-trivial = board with at least 2 cells"
    chk.exhaustive = True
    chk.extra["space"] = "see spec/MC_Url.tla: all grids over each module's clue alphabet on boards up to 2x3 (+ long single rows), all connected room partitions up to 2x3 (3x3 thorough), compass clue subsets"
    chk.assumptions = ["independent decoders (spec/Pzpr.tla) written from the pzpr format; yajilin '??' is part of the solver's problem format",
                       "URL split lexically at '?' and '/' by the harness"]
    return chk.finish()


def replay(path):
    data = json.loads(open(path).read())
    for c in data["cases"]:
        r = url_codecs.run_case(c["case"])
        print(json.dumps({k: r[k] for k in ("status", "exc", "url", "dec_status", "dec_h", "dec_w", "dec_cells", "dec_clues")})[:600])
    print(f"VIOLATION property={PID} replay={path}")
    return 1
