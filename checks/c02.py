"""C02 - solve() reports exactly the facts common to all solutions

(P3) every behaviour of spec/SolveLoop.tla (all model sets over a 3-variable universe x all key subsets
x every sequence of models a correct backend may return) is turned into an adversarial *policy* backend
for the real Solver.solve; the recorded conversation and the final ret/sol are judged by TLC
(spec/Trace_SolveLoop.tla).  (P2) sessions with answer keys and solve() on the real z3 backend are
judged by spec/Trace_Session.tla (SolveVerdict: facts computed from all models of the driver's meaning).
The native-deduction route (reply parsing of the Sugar family) is exercised in C03 with TLC-rendered replies."""
import json
import multiprocessing as mp
from harness.par import RobustPool
import random

from harness.common import Check, NPROC, chunks, write_ndjson, canon
from harness.tlc import run_tlc, MachineryError
from harness import policy_backend as PB
from checks import c01

PID = "C02"


def run_behaviours(batch):
    from cspuz import Solver
    out = []
    for tid, beh in batch:
        kinds = beh["kinds"]
        # integer values are scaled (x 1000) in every other behaviour: values outside CPython's small-int cache are
        # distinct objects, so a comparison by identity instead of equality shows
        scale = 1000 if tid % 2 else 1
        sc = lambda m: {"ty": m["ty"], "b": m["b"], "n": [x * scale for x in m["n"]]}
        beh = dict(beh, models=[sc(m) for m in beh["models"]], order=[sc(m) for m in beh["order"]],
                   facts=[dict(f, n=f["n"] * scale) for f in beh["facts"]], lo=beh["lo"] * scale, hi=beh["hi"] * scale)
        models = [PB.untyped(m) for m in beh["models"]]
        order = [PB.untyped(m) for m in beh["order"]]
        keys = beh["keys"]
        cap = len(keys) * max(1, len(models)) + 8
        log = []
        backend = PB.make_backend(models, order, cap, log)
        s = Solver()
        vs = [s.bool_var() if k == "bool" else s.int_var(beh["lo"], beh["hi"]) for k in kinds]
        if keys:
            from harness.session import KEY_FORMS, _key_args
            s.add_answer_key(*_key_args(KEY_FORMS[tid % len(KEY_FORMS)], [vs[k - 1] for k in keys]))
        rec = {"t": tid, "kinds": kinds, "models": beh["models"], "keys": keys, "status": "ok",
               "exc": "", "ret": False}
        import warnings
        try:
            with warnings.catch_warnings():
                warnings.simplefilter("ignore")
                r = s.solve(backend=backend)
            if type(r) is not bool:
                rec["status"], rec["exc"] = "exc", "ReturnedNonBool"
            else:
                rec["ret"] = r
        except PB.SolveCapExceeded:
            rec["status"], rec["exc"] = "exc", "DidNotTerminateWithinSolveCap"
        except Exception as e:  # noqa
            rec["status"], rec["exc"] = "exc", type(e).__name__
        from harness.export import sol_of
        rec.update(sol_of(vs))
        rec["conv"] = [e for e in log if e["ev"] in ("add", "solve")]
        for e in rec["conv"]:     # homogeneous records for TLC
            e.setdefault("trees", [])
            e.setdefault("ret", False)
            e.setdefault("m", {"ty": [], "b": [], "n": []})
        rec["expected_facts"] = beh["facts"]
        rec["order"] = beh["order"]
        rec["lo"], rec["hi"] = beh["lo"], beh["hi"]
        rec["ref_nsolve"] = beh["nsolve"]
        rec["followed_reference"] = [PB.untyped(e["m"]) for e in rec["conv"] if e["ev"] == "solve" and e["ret"]] == order
        out.append(rec)
    return out


def loop_part(chk, tier, seed):
    cfgs = [("MC_SolveLoop", 0, 1)] if tier == "quick" else [("MC_SolveLoop", 0, 1)]
    behs = []
    for cfg, lo, hi in cfgs:
        res = run_tlc("MC_SolveLoop", cfg, workdir=chk.dir, timeout=1800)
        chk.add_tlc(res)
        for r in res.records:
            r["lo"], r["hi"] = lo, hi
            behs.append(r)
    if tier != "quick":
        # a 4-variable universe (bool, int 0..2, bool, int 0..2: 36 assignments) sampled by simulation
        res = run_tlc("MC_SolveLoop", "MC_SolveLoop4", workdir=chk.dir, timeout=1800,
                      simulate="num=400", depth=40, seed=seed + 3, workers=8)
        chk.add_tlc(res)
        seen = set()
        for r in res.records:
            c = canon(r)
            if c not in seen:
                seen.add(c)
                r["lo"], r["hi"] = 0, 2
                behs.append(r)
    if tier == "quick":      # quick: a seeded half of the 34 744 behaviours; thorough: all of them
        behs = [b for i, b in enumerate(behs) if (i + seed) % 2 == 0]
    numbered = list(enumerate(behs))
    with RobustPool(NPROC) as pool:
        outs = pool.map(run_behaviours, chunks(numbered, NPROC * 4))
    recs = [x for o in outs for x in o]
    path = chk.dir / "loop_runs.ndjson"
    write_ndjson(path, recs)
    res = run_tlc("Trace_SolveLoop", "Trace_SolveLoop", workdir=chk.dir, env={"TRACE_FILE": str(path)},
                  timeout=3000, workers=1)
    chk.add_tlc(res)
    verdicts = {r["t"]: r for r in res.records}
    if len(verdicts) != len(recs):
        raise MachineryError(f"{len(recs)} loop runs but {len(verdicts)} verdicts")
    chk.traces += len(recs)
    followed = 0
    for rec in recs:
        beh = behs[rec["t"]]
        nontriv = (any(f["ty"] != "none" for i, f in enumerate(beh["facts"]) if i + 1 in beh["keys"]) and
                   any(f["ty"] == "none" for i, f in enumerate(beh["facts"]) if i + 1 in beh["keys"])) \
            or beh["nsolve"] >= 3
        chk.note_case({"loop": [beh["models"], beh["keys"], beh["order"]]}, nontriv)
        followed += rec["followed_reference"]
        v = verdicts[rec["t"]]["verdict"]
        if v != "ok":
            chk.violation({"clause": v, "route": "refinement-loop"},
                          f"Solver.solve against a correct adversarial backend: {v}",
                          {"kinds": rec["kinds"], "models": rec["models"], "keys": rec["keys"],
                           "order": rec["order"], "lo": rec["lo"], "hi": rec["hi"], "nsolve": beh["nsolve"],
                           "observed": {k: rec[k] for k in ("status", "exc", "ret", "ty", "b", "n")},
                           "expected_facts": rec["expected_facts"]})
    chk.sample({"source": "SolveLoop behaviour", "models": behs[len(behs) // 2]["models"],
                "keys": behs[len(behs) // 2]["keys"], "order": behs[len(behs) // 2]["order"]})
    chk.extra["loop_behaviours_replayed"] = len(recs)
    chk.extra["loop_runs_that_reproduced_the_reference_model_sequence (diagnostic)"] = followed
    return len(recs)


def run(tier, seed):
    chk = Check(PID, tier, seed)
    n_loop = loop_part(chk, tier, seed)
    # P2: real z3 sessions with solve()
    from harness import sessions_check as S
    sc = c01.scenarios(chk, tier, seed + 101, ("solve", "solve", "find_answer"))
    numbered = [(i, steps) for i, (_, steps) in enumerate(sc)]
    traces = S.execute(numbered, "z3")
    verdicts = S.judge(chk, traces)
    for i, (src, steps) in enumerate(sc):
        chk.note_case(steps, c01.nontrivial(steps) and any(s["a"] == "solve" for s in steps))
        v = verdicts[i]
        if v["verdict"].endswith("Z3TimeLimit"):
            chk.extra["inconclusive_z3_time_limit"] = chk.extra.get("inconclusive_z3_time_limit", 0) + 1
        elif v["verdict"].endswith("ConfiguredTimeLimit"):
            chk.extra["refused_under_configured_timeout"] = chk.extra.get("refused_under_configured_timeout", 0) + 1
        elif v["verdict"] != "ok":
            chk.violation({"clause": v["verdict"], "route": "z3-session"},
                          f"event {v['k']} of session rejected: {v['verdict']}",
                          {"source": src, "steps": steps, "rejected_event": traces[i]["events"][v["k"] - 1],
                           "backend": "z3"})
    # the native-deduction route and the `sugar` executable route of the same property: sessions with solve() through the
    # module backends answered by a correct stand-in solver (harness/standin.py), and through the sugar executable
    # answered by a scripted correct conversation (checks/c03.py); final ret / sol judged by Trace_Session as above
    small = [(src, steps) for src, steps in sc if src in ("A", "B", "R") and any(x["a"] == "solve" for x in steps)
             and not any(x["a"] == "int_var" and x["hi"] - x["lo"] > 10 for x in steps)]
    small = small[:: max(1, len(small) // (600 if tier == "quick" else 6000))]
    for bi, backend in enumerate(("cspuz_core", "csugar", "enigma_csp")):
        part = [(i, steps) for i, (_, steps) in enumerate(small) if i % 3 == bi]
        ntr = S.execute(part, backend)
        nver = S.judge(chk, ntr, "native_" + backend)
        steps_of = dict(part)
        for tr in ntr:
            v = nver[tr["t"]]
            chk.note_case({"native": backend, "steps": steps_of[tr["t"]]}, True)
            if v["verdict"] != "ok":
                chk.violation({"clause": v["verdict"], "route": "native-deduction (correct stand-in solver)"},
                              f"event {v['k']} of a session through backend {backend}: {v['verdict']}",
                              {"source": "native", "backend": backend, "steps": steps_of[tr["t"]],
                               "rejected_event": tr["events"][v["k"] - 1]})
    from checks import c03
    sess = [{"kind": "session", "steps": [x for x in steps if x["a"] not in ("find_answer", "solve", "config")], "small": True}
            for _, steps in small[:: max(1, len(small) // (48 if tier == "quick" else 480))]]
    cjobs = [(i, sp, seed * 1000 + i, None) for i, sp in enumerate(sess)]
    parts = chunks(cjobs, NPROC)
    for i, p in enumerate(parts):
        d = chk.dir / f"wire{i}"
        d.mkdir(exist_ok=True)
        parts[i] = [(a, b, c, str(d)) for (a, b, c, _) in p]
    with RobustPool(NPROC) as pool:
        outs = pool.map(c03.record_conversations, parts)
    ctraces = [x for o in outs for x in o[1]]
    cver = S.judge(chk, ctraces, "sugar_conversations")
    for tr in ctraces:
        v = cver[tr["t"]]
        chk.note_case({"sugar": sess[tr["t"]]["steps"]}, True)
        if v["verdict"] != "ok":
            chk.violation({"clause": v["verdict"], "route": "refinement loop through the sugar executable (correct scripted solver)"},
                          f"solve() through the sugar executable: {v['verdict']}",
                          {"source": "sugar", "steps": sess[tr["t"]]["steps"] + [{"a": "solve"}], "backend": "sugar",
                           "rejected_event": tr["events"][v["k"] - 1]})
    chk.extra["sessions_through_native_stand_in"] = len(small)
    chk.extra["sessions_through_the_sugar_executable"] = len(ctraces)
    c01.repo_tests_part(chk, ("solve",))
    ex = next((steps for s, steps in sc if s == "R" and any(x["a"] == "solve" for x in steps)), None)
    chk.sample({"source": "R", "steps": ex})
    chk.exhaustive = False
    chk.rule = ("loop case = one behaviour of SolveLoop.tla (model set, keys, backend model order): non-trivial when "
                "some key is decided and some undecided or the loop needs >= 3 backend solves; "
                "session case as in C01, non-trivial when it also calls solve()")
    chk.extra["universe"] = ("2 booleans + 1 integer 0..1: all 256 model sets x 8 key subsets x all backend choice "
                             "sequences = 34 744 behaviours model-checked; %d replayed into the real code "
                             "(quick: a seeded half; thorough: all, plus a simulated 4-variable universe)" % n_loop)
    chk.assumptions = [
        "the adversarial backend answers correctly for the constraints it actually received (re-checked by TLC per run)",
        "no real Sugar/csugar/cspuz_core offline: the native-deduction route runs against a correct stand-in solver module, "
        "the sugar executable route against a scripted correct conversation (every reply text is also enumerated in C03)",
        "only answer-key variables are compared; the 'no answer key' warning is not an error",
    ]
    return chk.finish()


def replay(path):
    data = json.loads(open(path).read())
    route = data["sig"].get("route", "")
    if route == "z3-session" or route.startswith("native"):
        return c01.replay(path)          # sessions re-executed (native module backends: with the stand-in solver)
    if route.startswith("refinement loop through the sugar"):
        for c in data["cases"]:          # the scripted conversation is rebuilt by ./check C02 from the seed; shown as recorded
            print(json.dumps(c)[:1500])
        print(f"VIOLATION property={PID} replay={path}")
        return 1
    chk = Check(PID + "_replay", "quick", 0)
    behs = [dict(c, facts=c["expected_facts"]) for c in data["cases"]]
    recs = run_behaviours(list(enumerate(behs)))
    p = chk.dir / "replay.ndjson"
    write_ndjson(p, recs)
    res = run_tlc("Trace_SolveLoop", "Trace_SolveLoop", workdir=chk.dir, env={"TRACE_FILE": str(p)}, workers=1)
    bad = 0
    for r in sorted(res.records, key=lambda r: r["t"]):
        print(json.dumps({"case": r["t"], "verdict": r["verdict"], "expected_facts": behs[r["t"]]["facts"],
                          "observed": {k: recs[r["t"]][k] for k in ("status", "exc", "ret", "ty", "b", "n")}}))
        bad += r["verdict"] != "ok"
    if bad:
        print(f"VIOLATION property={PID} replay={path}")
    return 1 if bad else 0
