"""C01 - find_answer decides satisfiability and leaves a genuine model in .sol

Scenarios: (A) TLC enumerates SolverSM behaviours "declare, post one form of the pool, find_answer,
solve" over every depth<=1 form (operator x operand kind x operand order); (B) TLC simulates the full
SolverSM Next relation (declare / ensure / add_answer_key / find_answer / solve interleaved);
(R) seeded random sessions with nested trees and nested containers, small and wide domains.
Every scenario is executed on the real Solver with the z3 backend, recorded, and judged event by
event by TLC (spec/Trace_Session.tla, verdict predicates of spec/SolverSM.tla over spec/CspSem.tla)."""
import json
import random

from harness.common import Check, canon
from harness import sessions_check as S
from harness.gen_sessions import random_session, latin_session, wide_sum_session

PID = "C01"
CALLS = ("find_answer",)


def mentions_var(d):
    if d.get("f") == "var":
        return True
    return any(mentions_var(x) for x in d.get("args", []))


def nontrivial(steps):
    return any(s["a"] == "ensure" and mentions_var(s["x"]) for s in steps) and \
        any(s["a"] in ("find_answer", "solve") for s in steps)


def scenarios(chk, tier, seed, calls):
    rng = random.Random(seed * 7919 + 17)
    out = []
    # (A) one pool form per session, exhaustive over a shard of the pool (all of it when thorough)
    if tier == "quick":
        nsh = 12
        hists = S.tlc_scenarios_A(chk, seed % nsh, nsh)
        chk.extra["shapeA"] = f"shard {seed % nsh} of {nsh} of the depth<=1 pool over DeclA"
    else:
        hists = S.tlc_scenarios_A(chk, 0, 1) + S.tlc_scenarios_A(chk, 0, 1, cfg="MC_SessionA2")
        chk.extra["shapeA"] = "the complete depth<=1 pool over DeclA and DeclA2"
    out += [("A", h) for h in hists]
    # (B) simulated incremental sessions
    depth = 10
    hs = S.tlc_scenarios_B(chk, 12 if tier == "quick" else 120, depth, seed + 1)
    uniq = sorted({canon(h) for h in hs})
    rng.shuffle(uniq)
    for c in uniq[: 600 if tier == "quick" else 6000]:
        h = json.loads(c)
        h += [{"a": "find_answer"}, {"a": "solve"}]
        out.append(("B", h))
    # (R) seeded random sessions
    n_small, n_wide = (2500, 150) if tier == "quick" else (30000, 1500)
    for _ in range(n_small):
        out.append(("R", random_session(rng, "small", calls)))
    for _ in range(n_wide):
        out.append(("R", random_session(rng, "wide", ("find_answer",), max_product=7000)))
    # (W) programs too large to enumerate, judged by supplied solutions; half of them under a configured
    # solver_timeout (cspuz.config), which may make a call refuse loudly but never answer wrongly
    for n in ((4, 5, 8) if tier == "quick" else (4, 5, 6, 7, 8)):
        for limit in (None, 0.001):
            for _ in range((3 if n < 8 else 1) if tier == "quick" else (8 if n < 8 else 2)):
                out.append(("W", latin_session(rng, n, calls if n <= 5 else ("find_answer",), limit)))
    # scale-up: sums with 17 .. 300 operands
    for n in ((17, 33, 129, 130, 257) if tier == "quick" else (17, 33, 65, 129, 130, 150, 200, 257, 300)):
        out.append(("W", wide_sum_session(rng, n, calls)))
    return out


def run(tier, seed, pid=PID, calls=CALLS, backend="z3"):
    chk = Check(pid, tier, seed)
    sc = scenarios(chk, tier, seed, calls)
    if pid == "C01":   # C01 judges find_answer; the solve calls of shapes A/B are C02's business
        sc = [(src, [s for s in steps if s["a"] != "solve"]) for src, steps in sc]
    numbered = [(i, steps) for i, (_, steps) in enumerate(sc)]
    traces = S.execute(numbered, backend)
    verdicts = S.judge(chk, traces)
    by_src = {}
    for i, (src, steps) in enumerate(sc):
        by_src[src] = by_src.get(src, 0) + 1
        chk.note_case(steps, nontrivial(steps))
        v = verdicts[i]
        if v["verdict"].endswith("Z3TimeLimit"):
            chk.extra["inconclusive_z3_time_limit"] = chk.extra.get("inconclusive_z3_time_limit", 0) + 1
        elif v["verdict"].endswith("ConfiguredTimeLimit"):
            chk.extra["refused_under_configured_timeout"] = chk.extra.get("refused_under_configured_timeout", 0) + 1
        elif v["verdict"] != "ok":
            ev = traces[i]["events"][v["k"] - 1]
            chk.violation({"clause": v["verdict"]},
                          f"event {v['k']} of session rejected: {v['verdict']}",
                          {"source": src, "steps": steps, "rejected_event": ev, "backend": backend})
    if pid == "C01":
        repo_tests_part(chk, ("find_answer",))
    for src in ("A", "B", "R", "W"):
        ex = next((steps for s, steps in sc if s == src), None)
        if ex:
            chk.sample({"source": src, "steps": ex})
    chk.rule = ("a case is one session (sequence of public Solver calls); distinct = distinct JSON; "
                "non-trivial = posts at least one constraint that mentions a variable and calls "
                "find_answer/solve at least once")
    chk.extra["sessions_by_source"] = by_src
    chk.extra["events_judged"] = sum(len(t["events"]) for t in traces)
    chk.assumptions = [
        "z3 (z3-solver 5.1) is the solving path exercised; Sugar-family backends are C03",
        "bounded scopes: <= 6 variables, domain product <= 300 (<= 7000 for the wide profile), tree depth <= 4; "
        "source W (Latin squares of side 4..7) is judged by driver-supplied solutions instead of enumeration",
        "a Python bool is never used as an integer operand",
        "sol after an unsatisfiable answer is unconstrained",
    ]
    return chk.finish()


def repo_tests_part(chk, calls):
    recs, verdicts = S.repo_test_traces(chk, calls)
    exact = 0
    for r in recs:
        v = verdicts[r["t"]]
        exact += bool(v["exact"])
        chk.note_case(f"repo-test/{r['test']}/{r['t']}", len(r["prog"]["cons"]) >= 1)
        if v["verdict"] != "ok":
            chk.violation({"clause": v["verdict"], "route": "repository-test-suite"},
                          f"a {r['call']} call made by the repository's own test {r['test']} is rejected: {v['verdict']}",
                          {"test": r["test"], "call": r["call"], "ret": r["ret"], "program": r["prog"],
                           "sol": {k: r[k] for k in ("ty", "b", "n")}})
    chk.extra["repo_test_calls_validated"] = len(recs)
    chk.extra["repo_test_calls_validated_exactly (small domain)"] = exact


def replay(path):
    data = json.loads(open(path).read())
    chk = Check(PID + "_replay", "quick", 0)
    sc = [(i, c["steps"]) for i, c in enumerate(data["cases"])]
    traces = S.execute(sc, data["cases"][0].get("backend", "z3"))
    verdicts = S.judge(chk, traces, "replay")
    bad = 0
    for i, _ in sc:
        v = verdicts[i]
        print(json.dumps({"case": i, "verdict": v["verdict"], "at_event": v["k"],
                          "observed": traces[i]["events"][v["k"] - 1] if v["verdict"] != "ok" else None}))
        bad += v["verdict"] != "ok"
    if bad:
        print(f"VIOLATION property={data['property']} replay={path}")
    return 1 if bad else 0
