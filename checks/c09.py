"""C09 - active_edges_acyclic admits exactly the forests"""
from harness.common import Check
from harness import graph_check as GC
from harness.flag_family import run_family, replay_flags

PID = "C09"
FORMS = ["vars", "array", "neg", "xor", "const"]


def run(tier, seed):
    chk = Check(PID, tier, seed)
    recs = GC.tlc_cases(chk, "acyclic", tier)
    jobs = []
    for r in recs:
        m = len(r["obj"]["graph"]["edges"])
        fs = [FORMS[(seed + r["id"]) % len(FORMS)]] if tier == "quick" else FORMS
        for f in fs:
            jobs += GC.split_patterns({"family": "acyclic", "obj": r["obj"], "id": r["id"], "flip": GC.flip_of(seed, r["id"]), "form": f, "nflags": m,
                                       "patterns": list(range(2 ** m)), "expects": r["forest"]})
    run_family(chk, jobs, lambda j: "active_edges_acyclic")
    chk.sample({"obj": recs[-3]["obj"], "forest": recs[-3]["forest"][:16]})
    chk.rule = "case = (multigraph, form of the edge flags, edge subset); non-trivial = at least 2 active edges"
    chk.exhaustive = True
    chk.extra["space"] = ("loop-free multigraphs on <=3 (quick) / <=4 (thorough) vertices with every pair joined 0-2 times "
                          "(<=6 edges), all simple graphs on <=4 vertices, catalogue up to 8 vertices; all 2^m subsets")
    chk.extra["objects"] = len(recs)
    chk.assumptions = ["decided by the real z3 path", "edge flags as variables, negated variables, compound expressions, constants"]
    return chk.finish()


def replay(path):
    return replay_flags(PID, path)
