"""C12 - array operators and aggregate helpers have pointwise / mathematical meaning"""
import json
import multiprocessing as mp
from harness.par import RobustPool
import operator

from harness.common import Check, NPROC, chunks, write_ndjson
from harness.tlc import run_tlc, MachineryError

PID = "C12"
OPS = {"add": operator.add, "sub": operator.sub, "le": operator.le, "lt": operator.lt, "ge": operator.ge,
       "gt": operator.gt, "and": operator.and_, "or": operator.or_, "xor": operator.xor, "eq": operator.eq,
       "ne": operator.ne}


def work(cases):
    from cspuz import Solver
    import cspuz
    from cspuz import constraints as C
    from cspuz.expr import Expr
    from harness.export import tree
    out = []
    for cid, case in cases:
        s = Solver()

        def mk(o):
            k = o["kind"]
            if k in ("blit",):
                return o["b"]
            if k == "ilit":
                return o["n"]
            before = len(s.variables)
            if k == "BA1":
                v = s.bool_array(o["h"])
            elif k == "IA1":
                v = s.int_array(o["h"], -1, 1)
            elif k == "BA2":
                v = s.bool_array((o["h"], o["w"]))
            elif k == "IA2":
                v = s.int_array((o["h"], o["w"]), -1, 1)
            elif k == "bvar":
                v = s.bool_var()
            else:
                v = s.int_var(-1, 1)
            if before != o["base"]:
                raise RuntimeError("machinery: variable base mismatch")
            return v

        def mknest(a, depth=0):
            if a["kind"] == "list":
                items = [mknest(x, depth + 1) for x in a["items"]]
                return [items, tuple(items), (x for x in items)][(cid + depth) % 3]
            return mk(a)

        rec = {"t": cid, "case": case, "outcome": "value", "exc": "", "shape": [], "elems": []}
        form = case["form"]
        try:
            if form == "four_neighbors":
                a = mk(case["ops"][0])
                w = case["ops"][0]["w"]
                base = case["ops"][0]["base"]
                exp = sorted(tuple(p) for p in case["expect"])
                got1 = sorted(((v.id - base) // w, (v.id - base) % w) for v in a.four_neighbors(case["y"], case["x"]))
                got2 = sorted(((v.id - base) // w, (v.id - base) % w) for v in a.four_neighbors((case["y"], case["x"])))
                lst = a.four_neighbor_indices(case["y"], case["x"])
                got3 = sorted(lst)
                # what a call returns is the caller's: editing it must not show in what a later call returns
                # (neither on this array nor on another array of the same shape)
                if isinstance(lst, list):
                    lst.append(("edited", "by the caller"))
                    del lst[0:1]
                nb = a.four_neighbors(case["y"], case["x"])
                if hasattr(nb, "data") and isinstance(nb.data, list):
                    nb.data.append(None)
                other = mk(dict(case["ops"][0], base=len(s.variables)))
                got4 = sorted(a.four_neighbor_indices(case["y"], case["x"]))
                got5 = sorted(other.four_neighbor_indices(case["y"], case["x"]))
                got6 = sorted(((v.id - base) // w, (v.id - base) % w) for v in a.four_neighbors(case["y"], case["x"]))
                # the result is an array of the same element kind and can be used as an operand (pointwise)
                nb2 = a.four_neighbors(case["y"], case["x"])
                is_int = case["ops"][0]["kind"] in ("IA1", "IA2")
                kind_ok = type(nb2).__name__ == ("IntArray1D" if is_int else "BoolArray1D")
                try:
                    r2 = (nb2 != 0) if is_int else (~nb2)
                    use_ok = hasattr(r2, "shape") and list(r2.shape) == [len(exp)] and type(r2).__name__ == "BoolArray1D"
                except Exception:  # noqa
                    use_ok = False
                rec["nbr_ok"] = (got1 == exp and got2 == exp and got3 == exp and got4 == exp and got5 == exp and got6 == exp
                                 and kind_ok and use_ok)
                rec["nbr_got"] = [got1, got2, got3, got4, got5, got6, {"result_type": type(nb2).__name__, "usable_as_operand": use_ok}]
                out.append(rec)
                continue
            if form in ("helper", "method"):
                args = [mknest(a) for a in case["args"]]
                if form == "method":
                    r = getattr(args[0], case["op"])()
                else:
                    r = getattr(cspuz, case["op"])(*args)
            else:
                ops = [mk(o) for o in case["ops"]]
                if form == "bin":
                    r = OPS[case["op"]](ops[0], ops[1])
                elif form == "un":
                    r = ~ops[0] if case["op"] == "not" else -ops[0]
                elif form == "then":
                    r = ops[0].then(ops[1])
                elif form == "thenf":
                    r = C.then(ops[0], ops[1])
                elif form == "cond":
                    r = ops[0].cond(ops[1], ops[2])
                elif form == "condf":
                    r = C.cond(ops[0], ops[1], ops[2])
                elif form == "conv2d":
                    r = ops[0].conv2d(case["kh"], case["kw"], case["op"])
                else:
                    raise RuntimeError("machinery: unknown form " + form)
            if r is NotImplemented:
                rec["outcome"] = "notimplemented"
            elif hasattr(r, "shape") and hasattr(r, "data"):
                rec["shape"] = list(r.shape)
                rec["elems"] = [tree(x) for x in r.data]
            else:
                rec["elems"] = [tree(r)]
        except RuntimeError:
            raise
        except Exception as e:  # noqa
            rec["outcome"], rec["exc"] = "raised", type(e).__name__
        from cspuz.expr import BoolVar
        rec["vars"] = ["bool" if isinstance(v, BoolVar) else "int" for v in s.variables]
        out.append(rec)
    return out


def nontrivial(case):
    ops = case.get("ops", [])
    if case["form"] in ("helper", "method"):
        return len(json.dumps(case["args"])) > 60
    return any(o["kind"] in ("BA1", "IA1") and o["h"] >= 2 or o["kind"] in ("BA2", "IA2") and o["h"] * o["w"] >= 2 for o in ops)


def sig_of(case, verdict):
    kinds = [o["kind"] for o in case.get("ops", [])]
    return {"form": case["form"], "op": case.get("op", ""), "clause": verdict,
            "array_operand": any(k in ("BA1", "IA1", "BA2", "IA2") for k in kinds)}


def run(tier, seed):
    chk = Check(PID, tier, seed)
    res = run_tlc("MC_Array", "MC_Array", workdir=chk.dir, env={"TIER": tier}, timeout=1800)
    chk.add_tlc(res)
    cases = [(r["id"], r["case"]) for r in sorted(res.records, key=lambda r: r["id"])]
    with RobustPool(NPROC) as pool:
        outs = pool.map(work, chunks(cases, NPROC * 4))
    recs = [x for o in outs for x in o]
    by_id = dict(cases)
    judged = [r for r in recs if r["case"]["form"] != "four_neighbors"]
    path = chk.dir / "arrays.ndjson"
    write_ndjson(path, judged)
    res2 = run_tlc("Trace_Array", "Trace_Array", workdir=chk.dir, env={"TRACE_FILE": str(path)}, timeout=3000, workers=1)
    chk.add_tlc(res2)
    if len(res2.records) != len(judged):
        raise MachineryError(f"{len(judged)} array records but {len(res2.records)} verdicts")
    chk.traces = len(recs)
    obs = {r["t"]: r for r in recs}
    for cid, case in cases:
        chk.note_case(case, nontrivial(case))
    for v in res2.records:
        if v["verdict"] != "ok":
            case = by_id[v["t"]]
            o = obs[v["t"]]
            chk.violation(sig_of(case, v["verdict"]), f"{case['form']} {case.get('op','')}: {v['verdict']}",
                          {"case": case, "observed": {k: o[k] for k in ("outcome", "exc", "shape")}, "elems": o["elems"][:3]})
    for r in recs:
        if r["case"]["form"] == "four_neighbors" and not r.get("nbr_ok", False):
            chk.violation({"form": "four_neighbors", "clause": "wrong-neighbours"},
                          "four_neighbors / four_neighbor_indices differ from the in-bounds orthogonal neighbours",
                          {"case": r["case"], "observed": r.get("nbr_got", r.get("exc"))})
    chk.sample({"case": cases[100][1]})
    chk.sample({"case": next(c for _, c in cases if c["form"] == "helper" and len(json.dumps(c)) > 200)})
    chk.rule = ("case = (form, operator, operand kinds and shapes / nesting); distinct = distinct JSON; non-trivial = an array "
                "operand with at least 2 elements (helpers: a nested argument)")
    chk.exhaustive = True
    chk.extra["space"] = ("every binary operator x every pair of operand kinds (1-D 0..3, 2-D shapes, variables, literals) x both orders; "
                          "unary; then/cond as methods and module functions; helpers over nestings of lists/tuples/generators/arrays/"
                          "literals; conv2d windows 1..4 x 1..4; four_neighbors at every cell")
    chk.assumptions = ["equality between a boolean and an integer operand: no requirement (as in the property)",
                       "any exception class counts as rejection; returning NotImplemented does not",
                       "value equivalence over integer domain -1..1 for the variables an element mentions"]
    return chk.finish()


def replay(path):
    data = json.loads(open(path).read())
    cases = [(i, c["case"]) for i, c in enumerate(data["cases"])]
    for r in work(cases):
        print(json.dumps({"case": r["case"], "outcome": r["outcome"], "exc": r["exc"], "shape": r["shape"], "elems": r["elems"][:2]}))
    print(f"VIOLATION property={PID} replay={path}")
    return 1
