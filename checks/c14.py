"""C14 - BoolGridFrame accessors are consistent with the lattice geometry"""
import json

from harness.common import Check
from harness.tlc import run_tlc

PID = "C14"


def observe(rec):
    """all accessors of a real frame of this size, projected to segment names; returns mismatches"""
    try:
        return _observe(rec)
    except Exception as e:  # noqa
        return [{"what": "an accessor of a frame of legal size raised " + type(e).__name__ + " where nothing may raise"}]


def _observe(rec):
    from cspuz import Solver, BoolGridFrame, graph as cg
    from cspuz.grid_frame import BoolInnerGridFrame
    h, w = rec["h"], rec["w"]
    s = Solver()
    # how the frame gets its edge arrays: fresh ones (0), both supplied (1), only horizontal= (2), only vertical= (3)
    mode = rec.get("mode", 0)
    kw = {}
    if mode in (1, 2):
        kw["horizontal"] = s.bool_array((h + 1, w))
    if mode in (1, 3):
        kw["vertical"] = s.bool_array((h, w + 1))
    fr = BoolGridFrame(s, h, w, **kw)
    name = {}
    bad = []
    for k, arr in kw.items():
        if getattr(fr, k) is not arr:
            return [{"what": "the array supplied as " + k + "= is not the one the frame uses"}]
    if tuple(fr.horizontal.shape) != (h + 1, w) or tuple(fr.vertical.shape) != (h, w + 1):
        return [{"what": "shape of horizontal/vertical", "got": [fr.horizontal.shape, fr.vertical.shape]}]
    for y in range(h + 1):
        for x in range(w):
            name[fr.horizontal[y, x].id] = ["H", y, x]
    for y in range(h):
        for x in range(w + 1):
            name[fr.vertical[y, x].id] = ["V", y, x]

    def nm(e):
        return name.get(getattr(e, "id", None), ["?", -1, -1])

    def outcome(fn):
        try:
            return ("ok", fn())
        except IndexError:
            return ("IndexError", None)
        except Exception as e:  # noqa
            return (type(e).__name__, None)

    for q in rec["doubled"]:
        st, v = outcome(lambda: fr[q["Y"], q["X"]])
        exp = q["r"]
        if exp["err"]:
            if st != "IndexError":
                bad.append({"what": "frame[Y,X] outside / wrong parity must raise IndexError", "Y": q["Y"], "X": q["X"],
                            "got": st if st != "ok" else nm(v)})
        elif st != "ok" or nm(v) != exp["seg"]:
            bad.append({"what": "frame[Y,X]", "Y": q["Y"], "X": q["X"], "expected": exp["seg"], "got": st if st != "ok" else nm(v)})
    for kind, fn in (("cells", fr.cell_neighbors), ("points", fr.vertex_neighbors)):
        for q in rec[kind]:
            for style in ("two-args", "tuple"):
                st, v = outcome((lambda: fn(q["y"], q["x"])) if style == "two-args" else (lambda: fn((q["y"], q["x"]))))
                if q["err"]:
                    if st != "IndexError":
                        bad.append({"what": kind + " outside must raise IndexError", "y": q["y"], "x": q["x"], "got": st})
                else:
                    got = sorted(nm(e) for e in v) if st == "ok" else st
                    if got != sorted(q["segs"]):
                        bad.append({"what": kind, "y": q["y"], "x": q["x"], "expected": sorted(q["segs"]), "got": got})
    aearr = fr.all_edges()
    n_edges = (h + 1) * w + h * (w + 1)
    try:      # all_edges() is an array over ALL edges: its shape, and what an element-wise operator covers
        if tuple(aearr.shape) != (n_edges,) or len(aearr) != n_edges or len((~aearr).data) != n_edges or tuple((~aearr).shape) != (n_edges,):
            bad.append({"what": "all_edges() as an array (shape / element-wise operator)", "expected": n_edges,
                        "got": [list(aearr.shape), len(aearr), len((~aearr).data)]})
    except Exception as e:  # noqa
        bad.append({"what": "all_edges() as an array (shape / element-wise operator)", "got": "raised " + type(e).__name__})
    ae = [nm(e) for e in aearr]
    it = [nm(e) for e in fr]
    if ae != rec["all_edges"] or it != ae:
        bad.append({"what": "all_edges / iteration order", "expected": rec["all_edges"][:40], "got": [ae[:40], it[:40]]})
    try:
        edges, g = cg._from_grid_frame(fr)
        lat = [{"seg": nm(e), "u": min(g.edges[i]), "v": max(g.edges[i])} for i, e in enumerate(edges)]
        if lat != rec["lattice"] or g.num_vertices != (h + 1) * (w + 1) or len(g.edges) != len(edges):
            bad.append({"what": "graph inferred by the loop constraints", "expected": rec["lattice"][:40], "got": lat[:40]})
    except Exception as e:  # noqa
        bad.append({"what": "graph inferred by the loop constraints", "expected": rec["lattice"][:10], "got": "raised " + type(e).__name__})
    d = fr.dual()
    ok_dual = isinstance(d, BoolInnerGridFrame) and d.height == h + 1 and d.width == w + 1
    if ok_dual:
        try:
            ok_dual = tuple(d.horizontal.shape) == (h, w + 1) and tuple(d.vertical.shape) == (h + 1, w) and \
                all(nm(d.horizontal[y, x]) == ["V", y, x] for y in range(h) for x in range(w + 1)) and \
                all(nm(d.vertical[y, x]) == ["H", y, x] for y in range(h + 1) for x in range(w))
        except Exception:
            ok_dual = False
    if not ok_dual:
        bad.append({"what": "dual() must put V(y,x) between points (y,x),(y+1,x) and H(y,x) between (y,x),(y,x+1)"})
    try:
        dd = d.dual()
        same = dd.height == h and dd.width == w and [nm(e) for e in dd.all_edges()] == rec["all_edges"] and \
            [nm(e) for e in d] == rec["all_edges"]
    except Exception:
        same = False
    if not same:
        bad.append({"what": "dual of dual must be the original frame"})
    return bad


def run(tier, seed):
    chk = Check(PID, tier, seed)
    maxdim = 3 if tier == "quick" else 5
    res = run_tlc("MC_Frame", "MC_Frame", workdir=chk.dir, env={"MAXDIM": maxdim}, timeout=900)
    chk.add_tlc(res)
    recs4 = []
    for rec in sorted(res.records, key=lambda r: (r["h"], r["w"])):
        for mode in ((0, 1, 2, 3) if rec["h"] <= 5 and rec["w"] <= 5 else (0,)):
            recs4.append(dict(rec, mode=mode))
    for rec in recs4:
        nq = len(rec["doubled"]) + 2 * len(rec["cells"]) + 2 * len(rec["points"]) + 4
        for i in range(nq):
            chk.note_case(f"{rec['h']}x{rec['w']}/{rec['mode']}/{i}", rec["h"] * rec["w"] >= 1)
        chk.traces += 1
        for b in observe(rec):
            chk.violation({"accessor": b["what"]}, f"BoolGridFrame {rec['h']}x{rec['w']}: {b['what']}",
                          dict(b, h=rec["h"], w=rec["w"], arrays_supplied=["none", "both", "horizontal only", "vertical only"][rec["mode"]]))
    r = next(r for r in res.records if r["h"] == 1 and r["w"] == 2)
    chk.sample({"h": 1, "w": 2, "all_edges": r["all_edges"], "lattice": r["lattice"][:4], "doubled": r["doubled"][:4]})
    chk.rule = "case = (frame size, accessor, coordinate); non-trivial = frame with at least one cell"
    chk.exhaustive = True
    chk.extra["space"] = f"every frame size 0..{maxdim} x 0..{maxdim}; doubled coordinates -2..2h+2 x -2..2w+2; cells -1..h x -1..w; points -1..h+1 x -1..w+1"
    chk.assumptions = ["projection: frame.horizontal[y,x] IS H(y,x), frame.vertical[y,x] IS V(y,x); neighbour accessors compared as sets"]
    return chk.finish()


def replay(path):
    """the recorded cases are printed; the verdict comes from re-running the check that found them, with the same tier and
    seed, on the current tree (the cases of this check depend on what ran before them in the same process, or need the
    TLC-computed expectations)"""
    data = json.loads(open(path).read())
    for c in data["cases"][:5]:
        print(json.dumps(c)[:600])
    return run(data.get("tier", "quick"), data.get("seed", 0))
