"""C10 - crossable loop/path constraint admits exactly single self-crossing trails"""
import json
import random

from harness.common import Check
from harness import graph_check as GC, graph_replay as GR
from harness.flag_family import direction

PID = "C10"


def lattice(h, w):
    """the frame's graph in the order of GraphDefs!Lattice (= cspuz.graph._from_grid_frame): per point, down then right"""
    edges = []
    for y in range(h + 1):
        for x in range(w + 1):
            p = y * (w + 1) + x
            if y != h:
                edges.append([p, p + w + 1])
            if x != w:
                edges.append([p, p + 1])
    return {"n": (h + 1) * (w + 1), "edges": edges}


def wide_frame_jobs(chk, tier, seed, rng):
    """non-square frames too large to enumerate (2x3, 3x2, 2x4 ...): segment sets built from rectangle outlines (their
    symmetric differences are exactly the drawings in which every point has even degree: loops, figure-eights, several
    loops), the same with one segment removed (open paths) or added, judged by TLC (Trace_Patterns, frame mode)"""
    from harness.common import write_ndjson
    from harness.tlc import run_tlc, MachineryError
    shapes = [(2, 3), (3, 2), (3, 3), (4, 4), (6, 7)] if tier == "quick" else [(2, 3), (3, 2), (2, 4), (4, 2), (3, 3), (4, 4), (4, 5), (6, 7), (7, 6)]
    recs, objs = [], {}
    for (h, w) in shapes:
        g = lattice(h, w)
        objs[(h, w)] = {"kind": "frame", "name": "frame", "h": h, "w": w, "graph": g}
        index = {tuple(e): k for k, e in enumerate(g["edges"])}
        rects = []
        for y0 in range(h + 1):
            for y1 in range(y0 + 1, h + 1):
                for x0 in range(w + 1):
                    for x1 in range(x0 + 1, w + 1):
                        es = set()
                        for x in range(x0, x1):
                            es.add(index[(y0 * (w + 1) + x, y0 * (w + 1) + x + 1)])
                            es.add(index[(y1 * (w + 1) + x, y1 * (w + 1) + x + 1)])
                        for y in range(y0, y1):
                            es.add(index[(y * (w + 1) + x0, (y + 1) * (w + 1) + x0)])
                            es.add(index[(y * (w + 1) + x1, (y + 1) * (w + 1) + x1)])
                        rects.append(frozenset(es))
        pats = set()
        for a in rects:
            pats.add(a)
            for b in rects:
                pats.add(a ^ b)
        pats = sorted((sorted(p) for p in pats if p), key=lambda p: (len(p), p))
        rng.shuffle(pats)
        pats = pats[: (120 if h * w <= 6 else 40) if tier == "quick" else 1500]
        # weaves: the outlines of the cells of one colour of a checkerboard, added up (every interior point of the
        # drawing is a 4-way point), whole and with one cell left out
        unit = {}
        for r in rects:
            pass
        for colour in (0, 1):
            cells = [(y, x) for y in range(h) for x in range(w) if (y + x) % 2 == colour]
            for leave in [None] + cells[:3]:
                acc = frozenset()
                for (y, x) in cells:
                    if (y, x) == leave:
                        continue
                    acc = acc ^ frozenset([index[(y * (w + 1) + x, y * (w + 1) + x + 1)], index[((y + 1) * (w + 1) + x, (y + 1) * (w + 1) + x + 1)],
                                           index[(y * (w + 1) + x, (y + 1) * (w + 1) + x)], index[(y * (w + 1) + x + 1, (y + 1) * (w + 1) + x + 1)]])
                if acc:
                    pats.append(sorted(acc))
        if h * w > 20:
            # scale-up frame (its auxiliary graph has more than 256 nodes): a few drawings, plus far-apart strands
            m = len(g["edges"])
            pats = pats[:8] + [[0], [0, m - 1], [1, m - 2], sorted(set(pats[0]) | {m - 1}), list(range(m))]
        extra = []
        for p in pats[: len(pats) // 2]:
            q = list(p)
            q.remove(rng.choice(q))                      # an open path (or two)
            extra.append(sorted(q))
            free = [k for k in range(len(g["edges"])) if k not in p]
            if free:
                extra.append(sorted(p + [rng.choice(free)]))
        for p in pats + extra:
            for cyc in (False, True):
                recs.append({"t": len(recs), "kind": "frame", "h": h, "w": w, "cyc": cyc, "active": [k + 1 for k in p]})
    path = chk.dir / "wide_patterns.ndjson"
    write_ndjson(path, recs)
    res = run_tlc("Trace_Patterns", "Trace_Patterns", workdir=chk.dir, env={"TRACE_FILE": str(path)}, timeout=3000, workers=8)
    chk.add_tlc(res)
    if len(res.records) != len(recs):
        raise MachineryError("Trace_Patterns (frame mode) verdict count")
    verdict = {v["t"]: v for v in res.records}
    jobs = []
    for r in recs:
        v = verdict[r["t"]]
        mask = lambda pts: sum(1 << q for q in pts)
        jobs.append({"obj": objs[(r["h"], r["w"])], "id": 50000 + r["t"], "single_cycle": r["cyc"], "alias": bool(r["cyc"] and r["t"] % 2),
                     "frameform": ["vars", "const", "mixed"][r["t"] % 3], "patterns": [sum(1 << (k - 1) for k in r["active"])],
                     "expects": [v["ok"]], "passed": [mask(v["passed"])], "cross": [mask(v["cross"])]})
    chk.extra["wide_frame_patterns"] = len(recs)
    chk.extra["wide_frame_patterns_admitted"] = sum(1 for v in verdict.values() if v["ok"])
    chk.traces += len(recs)
    # the native-primitive route on the same drawings (frames of at most 9 cells): the emitted program is judged by
    # Trace_Emit on the listed patterns (plist)
    ejobs = []
    for (h, w) in shapes:
        if h * w > 9:
            continue
        for cyc in (False, True):
            rs = [r for r in recs if (r["h"], r["w"], r["cyc"]) == (h, w, cyc)]
            # drawings with 4-way points first (that is where the crossable encoding differs from a plain cycle)
            rs.sort(key=lambda r: (-len(verdict[r["t"]]["cross"]), r["t"]))
            rs = rs[: (40 if h * w <= 6 else 10) if tier == "quick" else 400]
            mask = lambda pts: sum(1 << q for q in pts)
            ejobs.append({"obj": objs[(h, w)], "id": 60000 + len(ejobs), "single_cycle": cyc, "alias": False,
                          "plist": [sum(1 << (k - 1) for k in r["active"]) for r in rs],
                          "expects": [verdict[r["t"]]["ok"] for r in rs],
                          "passed": [mask(verdict[r["t"]]["passed"]) for r in rs],
                          "cross": [mask(verdict[r["t"]]["cross"]) for r in rs]})
    return jobs, ejobs


def run(tier, seed):
    chk = Check(PID, tier, seed)
    recs = GC.tlc_cases(chk, "cross", tier)
    rng = random.Random(seed)
    zjobs, ejobs = [], []
    for r in recs:
        m = len(r["obj"]["graph"]["edges"])
        pats = list(range(2 ** m))
        if tier == "quick" and m >= 12:
            # quick: every admitted pattern plus a seeded sample of the rejected ones
            keep = [p for p in pats if r["ok"][p]] + rng.sample([p for p in pats if not r["ok"][p]], 500)
            pats = sorted(set(keep))
        base = {"obj": r["obj"], "id": r["id"], "single_cycle": r["single_cycle"],
                "alias": bool(r["single_cycle"] and (r["id"] + seed) % 2)}
        for i in range(0, len(pats), 48):
            ps = pats[i:i + 48]
            # how the segments are given: variables pinned afterwards, Python constants, or a mixture
            base["frameform"] = ["vars", "const", "mixed"][(i // 48 + r["id"] + seed) % 3]
            zjobs.append(dict(base, patterns=ps, expects=[r["ok"][p] for p in ps],
                              passed=[r["passed"][p] for p in ps], cross=[r["cross"][p] for p in ps]))
        ejobs.append(dict(base, expects=r["ok"], passed=r["passed"], cross=r["cross"]))
    wz, we = wide_frame_jobs(chk, tier, seed, rng)
    zjobs += wz
    ejobs += we
    results = GC.pmap(GR.run_cross, zjobs)
    for job, mism in zip(zjobs, results):
        m = len(job["obj"]["graph"]["edges"])
        for p in job["patterns"]:
            chk.note_case(f"cross/{job['id']}/{p}", bin(p).count("1") >= 2)
        for mm in mism:
            d = direction(mm["observed"]) if mm["observed"] != mm["expected"] else "returns-wrong-array"
            chk.violation({"helper": "active_edges_connected_crossable", "route": "z3",
                           "single_cycle": job["single_cycle"], "direction": d},
                          f"crossable constraint (single_cycle={job['single_cycle']}) {d}; definition says {mm['expected']} {mm['why']}",
                          {"obj": job["obj"], "id": job["id"], "single_cycle": job["single_cycle"], "alias": job["alias"],
                           "frameform": job.get("frameform", "vars"), "pattern": mm["pattern"], "segments_active": GR.bits_of(mm["pattern"], m),
                           "expected": mm["expected"], "observed": mm["observed"], "why": mm["why"],
                           "passed_mask": job["passed"][job["patterns"].index(mm["pattern"])],
                           "cross_mask": job["cross"][job["patterns"].index(mm["pattern"])]})
    emitted = GC.pmap(GR.emit_cross, ejobs)
    erecs = []
    for t, (job, e) in enumerate(zip(ejobs, emitted)):
        e.update({"t": t, "expects": job["expects"]})
        if "plist" in job:
            e["plist"] = job["plist"]
        erecs.append(e)
    def cross_jobs(j):
        ps = j.get("plist") or list(range(len(j["expects"])))
        return [dict(j, prim=True, patterns=ps[i:i + 48], expects=j["expects"][i:i + 48], passed=j["passed"][i:i + 48],
                     cross=j["cross"][i:i + 48]) for i in range(0, len(ps), 48)]
    verdicts = GC.judge_emits(chk, erecs, jobs=ejobs, fallback=(GR.run_cross, cross_jobs))
    for t, job in enumerate(ejobs):
        v = verdicts[t]
        chk.note_case(f"emit/cross/{job['id']}", len(job["obj"]["graph"]["edges"]) >= 2)
        if v["verdict"] != "ok":
            chk.violation({"helper": "active_edges_connected_crossable", "route": "primitive", "clause": v["verdict"],
                           "single_cycle": job["single_cycle"]},
                          f"native-primitive program of the crossable constraint: {v['verdict']} (first bad pattern {v['pattern']}, {v['nbad']} bad)",
                          {"obj": job["obj"], "single_cycle": job["single_cycle"], "emit": True,
                           "pattern": job["plist"][v["pattern"]] if "plist" in job and v.get("judged_by") != "z3"
                           and 0 <= v["pattern"] < len(job["plist"]) else v["pattern"],
                           "nbad": v["nbad"]})
    r = recs[-1]
    chk.sample({"obj": r["obj"], "single_cycle": r["single_cycle"], "admitted_patterns": [p for p in range(len(r["ok"])) if r["ok"][p]][:10]})
    chk.rule = "case = (frame, single_cycle, encoding, segment subset); non-trivial = at least 2 active segments"
    chk.exhaustive = tier != "quick"
    chk.extra["space"] = "rectangle-outline drawings (loops, figure-eights, open paths, stray segments) on 2x3 / 3x2 (thorough: up to 3x3 / 2x4) judged by Trace_Patterns; frames up to 2x2 (quick: on 2x2 every admitted pattern + 500 sampled rejected ones per mode; thorough: all 4096, plus 1x3/3x1); both encodings; returned arrays judged through solve()"
    chk.extra["objects"] = len(recs)
    chk.assumptions = ["auxiliary-variable route by real z3; native route by TLC on the emitted program (57 variables on 2x2, all determined)"]
    return chk.finish()


def replay(path):
    data = json.loads(open(path).read())
    bad = 0
    for c in data["cases"]:
        if c.get("emit"):
            print(json.dumps(c)); bad += 1; continue
        job = dict(c, patterns=[c["pattern"]], expects=[c["expected"]], passed=[c["passed_mask"]], cross=[c["cross_mask"]])
        mism = GR.run_cross(job)
        print(json.dumps({"obj": c["obj"], "single_cycle": c["single_cycle"], "segments_active": c["segments_active"],
                          "expected": c["expected"], "observed": mism[0] if mism else "as expected"}))
        bad += bool(mism)
    if bad:
        print(f"VIOLATION property={PID} replay={path}")
    return 1 if bad else 0
