"""C10 - crossable loop/path constraint admits exactly single self-crossing trails"""
import json
import random

from harness.common import Check
from harness import graph_check as GC, graph_replay as GR
from harness.flag_family import direction

PID = "C10"


def run(tier, seed):
    chk = Check(PID, tier, seed)
    recs = GC.tlc_cases(chk, "cross", tier)
    rng = random.Random(seed)
    zjobs, ejobs = [], []
    for r in recs:
        m = len(r["obj"]["graph"]["edges"])
        pats = list(range(2 ** m))
        if tier == "quick" and m >= 12:
            # quick: every admitted pattern plus a seeded sample of the rejected ones
            keep = [p for p in pats if r["ok"][p]] + rng.sample([p for p in pats if not r["ok"][p]], 500)
            pats = sorted(set(keep))
        base = {"obj": r["obj"], "id": r["id"], "single_cycle": r["single_cycle"],
                "alias": bool(r["single_cycle"] and (r["id"] + seed) % 2)}
        for i in range(0, len(pats), 48):
            ps = pats[i:i + 48]
            # how the segments are given: variables pinned afterwards, Python constants, or a mixture
            base["frameform"] = ["vars", "const", "mixed"][(i // 48 + r["id"] + seed) % 3]
            zjobs.append(dict(base, patterns=ps, expects=[r["ok"][p] for p in ps],
                              passed=[r["passed"][p] for p in ps], cross=[r["cross"][p] for p in ps]))
        ejobs.append(dict(base, expects=r["ok"], passed=r["passed"], cross=r["cross"]))
    results = GC.pmap(GR.run_cross, zjobs)
    for job, mism in zip(zjobs, results):
        m = len(job["obj"]["graph"]["edges"])
        for p in job["patterns"]:
            chk.note_case(f"cross/{job['id']}/{p}", bin(p).count("1") >= 2)
        for mm in mism:
            d = direction(mm["observed"]) if mm["observed"] != mm["expected"] else "returns-wrong-array"
            chk.violation({"helper": "active_edges_connected_crossable", "route": "z3",
                           "single_cycle": job["single_cycle"], "direction": d},
                          f"crossable constraint (single_cycle={job['single_cycle']}) {d}; definition says {mm['expected']} {mm['why']}",
                          {"obj": job["obj"], "id": job["id"], "single_cycle": job["single_cycle"], "alias": job["alias"],
                           "frameform": job.get("frameform", "vars"), "pattern": mm["pattern"], "segments_active": GR.bits_of(mm["pattern"], m),
                           "expected": mm["expected"], "observed": mm["observed"], "why": mm["why"],
                           "passed_mask": job["passed"][job["patterns"].index(mm["pattern"])],
                           "cross_mask": job["cross"][job["patterns"].index(mm["pattern"])]})
    emitted = GC.pmap(GR.emit_cross, ejobs)
    erecs = []
    for t, (job, e) in enumerate(zip(ejobs, emitted)):
        e.update({"t": t, "expects": job["expects"]})
        erecs.append(e)
    def cross_jobs(j):
        ps = list(range(len(j["expects"])))
        return [dict(j, prim=True, patterns=ps[i:i + 48], expects=j["expects"][i:i + 48], passed=j["passed"][i:i + 48],
                     cross=j["cross"][i:i + 48]) for i in range(0, len(ps), 48)]
    verdicts = GC.judge_emits(chk, erecs, jobs=ejobs, fallback=(GR.run_cross, cross_jobs))
    for t, job in enumerate(ejobs):
        v = verdicts[t]
        chk.note_case(f"emit/cross/{job['id']}", len(job["obj"]["graph"]["edges"]) >= 2)
        if v["verdict"] != "ok":
            chk.violation({"helper": "active_edges_connected_crossable", "route": "primitive", "clause": v["verdict"],
                           "single_cycle": job["single_cycle"]},
                          f"native-primitive program of the crossable constraint: {v['verdict']} (first bad pattern {v['pattern']}, {v['nbad']} bad)",
                          {"obj": job["obj"], "single_cycle": job["single_cycle"], "emit": True,
                           "pattern": v["pattern"], "nbad": v["nbad"]})
    r = recs[-1]
    chk.sample({"obj": r["obj"], "single_cycle": r["single_cycle"], "admitted_patterns": [p for p in range(len(r["ok"])) if r["ok"][p]][:10]})
    chk.rule = "case = (frame, single_cycle, encoding, segment subset); non-trivial = at least 2 active segments"
    chk.exhaustive = tier != "quick"
    chk.extra["space"] = "frames up to 2x2 (quick: on 2x2 every admitted pattern + 500 sampled rejected ones per mode; thorough: all 4096, plus 1x3/3x1); both encodings; returned arrays judged through solve()"
    chk.extra["objects"] = len(recs)
    chk.assumptions = ["auxiliary-variable route by real z3; native route by TLC on the emitted program (57 variables on 2x2, all determined)"]
    return chk.finish()


def replay(path):
    data = json.loads(open(path).read())
    bad = 0
    for c in data["cases"]:
        if c.get("emit"):
            print(json.dumps(c)); bad += 1; continue
        job = dict(c, patterns=[c["pattern"]], expects=[c["expected"]], passed=[c["passed_mask"]], cross=[c["cross_mask"]])
        mism = GR.run_cross(job)
        print(json.dumps({"obj": c["obj"], "single_cycle": c["single_cycle"], "segments_active": c["segments_active"],
                          "expected": c["expected"], "observed": mism[0] if mism else "as expected"}))
        bad += bool(mism)
    if bad:
        print(f"VIOLATION property={PID} replay={path}")
    return 1 if bad else 0
