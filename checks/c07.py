"""C07 - variable-group division (with/without borders) admits exactly valid partitions"""
import json

from harness.common import Check
from harness import graph_check as GC, graph_replay as GR
from harness.flag_family import direction

PID = "C07"


def run(tier, seed):
    chk = Check(PID, tier, seed)
    grecs = GC.tlc_cases(chk, "groups", tier)
    brecs = GC.tlc_cases(chk, "borders", tier)
    gjobs = []
    for r in grecs:
        if tier == "quick" and r["obj"]["graph"]["n"] >= 5 and (r["id"] + seed) % 2:
            continue
        base = {"obj": r["obj"], "id": r["id"], "flip": GC.flip_of(seed, r["id"]), "sizekind": r["sizekind"], "sizes": r["sizes"],
                "form": ["list", "array"][(seed + r["id"]) % 2]}
        for i in range(0, len(r["parts"]), 24):
            gjobs.append(dict(base, parts=r["parts"][i:i + 24], expects=r["ok"][i:i + 24]))
    import random
    from harness import scaleup
    gjobs += scaleup.group_jobs(chk, tier, seed, random.Random(seed + 7))
    results = GC.pmap(GR.run_groups, gjobs)
    for job, mism in zip(gjobs, results):
        for rgs in job["parts"]:
            chk.note_case(f"groups/{job['id']}/{rgs}", len(set(rgs)) >= 2)
        for m in mism:
            d = direction(m["observed"]) if m["observed"] != m["expected"] else "wrong-shape"
            chk.violation({"helper": "division_connected_variable_groups", "kind": job["obj"]["kind"],
                           "sizekind": job["sizekind"], "direction": d},
                          f"division_connected_variable_groups {d} a partition on which the definition says {m['expected']} {m['why']}",
                          {"family": "groups", "obj": job["obj"], "sizekind": job["sizekind"], "sizes": job["sizes"],
                           "form": job["form"], "partition_rgs": m["rgs"], "expected": m["expected"],
                           "observed": m["observed"]})
    bjobs, ejobs = [], []
    for r in brecs:
        m = len(r["obj"]["graph"]["edges"])
        forms = ["vars"] if r["obj"]["kind"] == "inner" else ["vars", "array", "neg", "xor"]
        f = forms[(seed + r["id"]) % len(forms)]
        base = {"obj": r["obj"], "id": r["id"], "flip": GC.flip_of(seed, r["id"]), "sizekind": r["sizekind"], "sizes": r["sizes"], "form": f}
        if not (tier == "quick" and m >= 12 and (r["id"] + seed) % 4):
            bjobs += GC.split_patterns(dict(base, patterns=list(range(2 ** m)), expects=r["ok"]), 64)
        # native route: in the grid form the sizes are free integer variables (the API requires an IntArray2D),
        # which TLC has to search: only boards with <= 4 cells; the graph form (sizes with holes) for everything
        if r["obj"]["kind"] != "inner" or r["obj"]["graph"]["n"] <= 4:
            ejobs.append(dict(base, expects=r["ok"]))
    results = GC.pmap(GR.run_borders, bjobs)
    for job, mism in zip(bjobs, results):
        m = len(job["obj"]["graph"]["edges"])
        for p in job["patterns"]:
            chk.note_case(f"borders/{job['id']}/{p}", bin(p).count("1") >= 1 and m >= 2)
        for mm in mism:
            d = direction(mm["observed"])
            chk.violation({"helper": "division_connected_variable_groups_with_borders", "route": "z3",
                           "kind": job["obj"]["kind"], "sizekind": job["sizekind"], "direction": d},
                          f"..._with_borders {d} a border pattern on which the definition says {mm['expected']}",
                          {"family": "borders", "obj": job["obj"], "id": job["id"], "flip": job.get("flip", 0), "sizekind": job["sizekind"], "sizes": job["sizes"],
                           "form": job["form"], "pattern": mm["pattern"], "is_border": GR.bits_of(mm["pattern"], m),
                           "expected": mm["expected"], "observed": mm["observed"]})
    emitted = GC.pmap(GR.emit_borders, ejobs)
    erecs = []
    for t, (job, e) in enumerate(zip(ejobs, emitted)):
        e.update({"t": t, "expects": job["expects"]})
        erecs.append(e)
    verdicts = GC.judge_emits(chk, erecs, jobs=ejobs, fallback=(GR.run_borders, lambda j: GC.split_patterns(
        dict(j, prim=True, patterns=list(range(len(j["expects"])))), 64)))
    for t, job in enumerate(ejobs):
        v = verdicts[t]
        chk.note_case(f"emit/borders/{job['id']}", len(job["obj"]["graph"]["edges"]) >= 2)
        native = erecs[t].get("status") == "ok" and any(c["op"] == "GRAPH_DIVISION" for c in erecs[t]["prog"]["cons"])
        if v["verdict"] != "ok" or not native:
            what = v["verdict"] if v["verdict"] != "ok" else "emit:native-operator-not-used-although-requested"
            chk.violation({"helper": "division_connected_variable_groups_with_borders", "route": "primitive",
                           "clause": what, "sizekind": job["sizekind"]},
                          f"native graph-division program: {what}",
                          {"family": "borders-emit", "obj": job["obj"], "sizekind": job["sizekind"], "sizes": job["sizes"],
                           "form": job["form"], "pattern": v["pattern"], "nbad": v["nbad"]})
    r = grecs[len(grecs) // 2]
    chk.sample({"obj": r["obj"], "sizekind": r["sizekind"], "sizes": r["sizes"], "parts": r["parts"][:5], "ok": r["ok"][:5]})
    r = brecs[-1]
    chk.sample({"obj": r["obj"], "sizekind": r["sizekind"], "sizes": r["sizes"], "ok(first 16 border patterns)": r["ok"][:16]})
    chk.rule = ("group case = (graph/grid, size specification, set partition); border case = (graph / inner grid frame, size "
                "specification, encoding, border pattern); non-trivial = at least 2 blocks / at least one border edge")
    chk.exhaustive = tier != "quick"
    chk.extra["space"] = "see spec/MC_Graph.tla GroupObjs / BorderObjs: all set partitions (restricted growth strings) and all 2^m border patterns"
    chk.extra["objects"] = len(grecs) + len(brecs)
    chk.assumptions = ["group ids decided by real z3 with (gid[u]==gid[v]) == same_block(u,v) posted for all pairs",
                       "native graph-division node decided by TLC with CspSem!EvalGraphDiv"]
    return chk.finish()


def replay(path):
    data = json.loads(open(path).read())
    bad = 0
    for c in data["cases"]:
        if c["family"] == "groups":
            mism = GR.run_groups(dict(c, parts=[c["partition_rgs"]], expects=[c["expected"]]))
        elif c["family"] == "borders":
            mism = GR.run_borders(dict(c, patterns=[c["pattern"]], expects=[c["expected"]]))
        else:
            mism = [c]
        print(json.dumps({"case": {k: v for k, v in c.items() if k != "obj"}, "obj": c["obj"],
                          "observed": mism[0].get("observed") if mism else "as expected"}))
        bad += bool(mism)
    if bad:
        print(f"VIOLATION property={PID} replay={path}")
    return 1 if bad else 0
