"""C03 - Sugar-family backends: emitted CSP text and parsed replies are faithful

Request side (P2): Solver states built by the C01 drivers and by the graph helpers (native operators included) are
solved through each of the five backend names with substituted solver modules / executable; the text that reached the
"solver" is tokenised and judged by TLC (spec/Trace_Sugar.tla over SugarWire.tla: declarations, answer-key line,
every constraint line denotes the posted constraint).  Reply side (P1): TLC enumerates every well-formed reply over
<= 3 variables in both formats of CspuzSugarInterface.java, renders the text, and the real parsers must leave exactly
the specified values (with Python types) in sol."""
import json
import multiprocessing as mp
from harness.par import RobustPool
import os
import random
import sys
import types
import warnings

from harness.common import Check, NPROC, chunks, write_ndjson
from harness.tlc import run_tlc, MachineryError

PID = "C03"
MODULE_OF = {"csugar": "pycsugar", "enigma_csp": "enigma_csp", "cspuz_core": "cspuz_core"}
NAMES = ["sugar", "sugar_extended", "csugar", "enigma_csp", "cspuz_core"]
FAKE = os.path.join(os.path.dirname(os.path.abspath(__file__)), "..", "harness", "fake_sugar.py")


class Wire:
    """routes every Sugar-family entry point to `reply(desc)` and records what was sent"""

    def __init__(self, workdir, reply_text=None, via_path=False, script=None):
        self.dir, self.reply_text, self.via_path = str(workdir), reply_text, via_path
        self.script = script
        self.requests = []

    def __enter__(self):
        import cspuz
        self.saved_mod = {m: sys.modules.get(m, "<absent>") for m in MODULE_OF.values()}
        for m in MODULE_OF.values():
            fake = types.ModuleType(m)

            def solver(desc, _m=m):
                self.requests.append({"via": _m, "text": desc})
                if self.reply_text is not None:
                    return self.reply_text
                return "unsat\n" if "\n#" in "\n" + desc else "s UNSATISFIABLE\n"
            fake.solver = solver
            sys.modules[m] = fake
        self.saved_cfg = (cspuz.config.backend_path, os.environ.get("PATH"), os.environ.get("FAKE_SUGAR_DIR"))
        os.environ["FAKE_SUGAR_DIR"] = self.dir
        if self.via_path:       # backend_path unset: the executable named `sugar` on PATH
            bindir = os.path.join(self.dir, "bin")
            os.makedirs(bindir, exist_ok=True)
            link = os.path.join(bindir, "sugar")
            if not os.path.exists(link):
                os.symlink(os.path.abspath(FAKE), link)
            os.environ["PATH"] = bindir + os.pathsep + os.environ.get("PATH", "")
            cspuz.config.backend_path = None
        else:
            cspuz.config.backend_path = os.path.abspath(FAKE)
        for f in os.listdir(self.dir):
            if f in ("request.txt", "argv.txt", "reply.txt") or f.startswith(("request_", "reply_")):
                try:
                    os.remove(os.path.join(self.dir, f))
                except OSError:
                    pass
        for n, text in enumerate(self.script or []):
            with open(os.path.join(self.dir, "reply_%d.txt" % n), "w") as f:
                f.write(text)
        if self.reply_text is not None:
            with open(os.path.join(self.dir, "reply.txt"), "w") as f:
                f.write(self.reply_text)
        return self

    def conversation(self):
        """every request the executable received, in order"""
        out, n = [], 0
        while os.path.exists(os.path.join(self.dir, "request_%d.txt" % n)):
            text = open(os.path.join(self.dir, "request_%d.txt" % n), "rb").read()
            out.append({"text": text.decode("ascii", "replace"), "ascii": all(b < 128 for b in text)})
            n += 1
        return out

    def subprocess_request(self):
        try:
            text = open(os.path.join(self.dir, "request.txt"), "rb").read()
            argv = open(os.path.join(self.dir, "argv.txt")).read().split("\n")
        except OSError:
            return None
        return {"via": "subprocess", "text": text.decode("ascii", "replace"), "argv": argv,
                "ascii": all(b < 128 for b in text)}

    def __exit__(self, *a):
        import cspuz
        cspuz.config.backend_path = self.saved_cfg[0]
        if self.saved_cfg[1] is not None:
            os.environ["PATH"] = self.saved_cfg[1]
        if self.saved_cfg[2] is None:
            os.environ.pop("FAKE_SUGAR_DIR", None)
        for m, v in self.saved_mod.items():
            if v == "<absent>":
                sys.modules.pop(m, None)
            else:
                sys.modules[m] = v


# ---------------------------------------------------------------------------------------
# request side

def build_solver(spec):
    """spec: {"kind":"session","steps":[..]} or {"kind":"graph", ...} -> Solver (no solving)"""
    from cspuz import Solver, graph as cg, BoolGridFrame
    from cspuz.grid_frame import BoolInnerGridFrame
    from harness import dx as DX
    s = Solver()
    if spec["kind"] == "session":
        vs = []
        for st in spec["steps"]:
            a = st["a"]
            if a == "bool_var":
                vs.append(s.bool_var())
            elif a == "int_var":
                vs.append(s.int_var(st["lo"], st["hi"]))
            elif a in ("bool_array", "int_array"):
                sh = st["shape"]
                arg = sh[0] if len(sh) == 1 else tuple(sh)
                arr = s.bool_array(arg) if a == "bool_array" else s.int_array(arg, st["lo"], st["hi"])
                vs.extend([arr[i] for i in range(sh[0])] if len(sh) == 1 else [arr[y, x] for y in range(sh[0]) for x in range(sh[1])])
            elif a == "ensure":
                s.ensure(DX.build(st["x"], vs))
            elif a == "add_key":
                s.add_answer_key([vs[i] for i in (st.get("ids") or [st["id"]])])
            elif a == "add_key_all":
                s.add_answer_key(list(vs))
            elif a not in ("config",):
                raise RuntimeError("machinery: build_solver does not know the step " + a)
        return s
    h = spec["helper"]
    prim = spec["prim"]
    g = cg.Graph(4)
    for u, v in [(0, 1), (1, 2), (2, 3), (0, 3), (0, 2)]:
        g.add_edge(u, v)
    if h == "conn":
        act = s.bool_array(4)
        cg.active_vertices_connected(s, [act[0], ~act[1], act[2] | act[3], True], g, acyclic=spec.get("acyclic", False),
                                     use_graph_primitive=prim)
        s.add_answer_key(act)
    elif h == "cycle":
        fr = BoolGridFrame(s, 1, 2)
        p = cg.active_edges_single_cycle(s, fr, use_graph_primitive=prim)
        s.add_answer_key(p)
    elif h == "path":
        e = s.bool_array(5)
        cg.active_edges_single_path(s, e, g, use_graph_primitive=True)
        s.add_answer_key(e)
    elif h == "borders":
        sz = s.int_array((2, 2), 1, 4)
        b = BoolInnerGridFrame(s, 2, 2)
        cg.division_connected_variable_groups_with_borders(s, group_size=sz, is_border=b, use_graph_primitive=prim)
        s.add_answer_key(sz)
    elif h == "borders-holes":
        e = s.bool_array(5)
        cg.division_connected_variable_groups_with_borders(s, group_size=[2, None, s.int_var(1, 3), None], is_border=e,
                                                           graph=g, use_graph_primitive=prim)
        s.add_answer_key(e)
    elif h == "cross":
        fr = BoolGridFrame(s, 1, 1)
        p, c = cg.active_edges_connected_crossable(s, fr, use_graph_primitive=prim)
        s.add_answer_key(p)
    return s


def record_requests(jobs):
    from harness.export import program
    from harness.sexpr import parse_request
    out = []
    for tid, spec, name, call, workdir, via_path in jobs:
        rec = {"t": tid, "backend": name, "status": "ok", "exc": "", "transport_ok": True, "lines": [],
               "small": spec.get("small", False)}
        try:
            s = build_solver(spec)
        except Exception as e:  # noqa
            rec["status"], rec["exc"] = "exc", "building:" + type(e).__name__
            rec.update({"prog": {"vars": [], "cons": [], "keys": []}, "mode": "find"})
            out.append(rec)
            continue
        rec["prog"] = program(s)
        with Wire(workdir, via_path=via_path) as w:
            try:
                with warnings.catch_warnings():
                    warnings.simplefilter("ignore")
                    r = s.find_answer(name) if call == "find_answer" else s.solve(name)
                req = w.requests[0] if w.requests else w.subprocess_request()
                if req is None:
                    rec["status"], rec["exc"] = "exc", "NoRequestReachedTheSolver"
                else:
                    if name in MODULE_OF:
                        rec["transport_ok"] = req["via"] == MODULE_OF[name]
                    else:
                        rec["transport_ok"] = req["via"] == "subprocess" and req["argv"][1:] == ["/dev/stdin"] and req["ascii"] \
                            and os.path.basename(req["argv"][0]) in ("fake_sugar.py", "sugar")
                    rec["lines"] = parse_request(req["text"])
                    rec["text"] = req["text"][:2000]
                if r is not False and rec["status"] == "ok":
                    rec["status"], rec["exc"] = "exc", "UnsatReplyNotReflected"
            except Exception as e:  # noqa
                rec["status"], rec["exc"] = "exc", type(e).__name__
        rec["mode"] = "deduce" if (call == "solve" and name != "sugar") else "find"
        out.append(rec)
    return out


# ---------------------------------------------------------------------------------------
# conversations: the refinement loop of Solver.solve through the `sugar` executable (several requests per call)

def _finder_reply(vars_, m):
    if m is None:
        return "s UNSATISFIABLE\n"
    lines = ["s SATISFIABLE"]
    for i, v in enumerate(vars_):
        if v["kind"] == "bool":
            lines.append("a b%d\t%s" % (i, "true" if m[i] else "false"))
        else:
            lines.append("a i%d\t%d" % (i, m[i]))
    return "\n".join(lines + ["a"]) + "\n"


def _script(prog, rng):
    """what a correct solver may answer to the successive requests of the refinement loop (spec/SolveLoop.tla),
    and the refuting clause each follow-up request must add"""
    import itertools
    from harness.pyeval import ev
    doms = [[False, True] if v["kind"] == "bool" else list(range(v["lo"], v["hi"] + 1)) for v in prog["vars"]]
    remaining = [a for a in itertools.product(*doms) if all(ev(c, a) for c in prog["cons"])]
    if not remaining:
        return [None], []
    m = rng.choice(remaining)
    models, extras = [m], []
    answer = {k: m[k] for k in prog["keys"]}
    while True:
        lits = []
        for k in prog["keys"]:
            if answer[k] is not None:
                var = {"op": "VAR", "id": k}
                lits.append({"op": "XOR", "args": [var, {"op": "BOOL", "val": answer[k]}]} if prog["vars"][k]["kind"] == "bool"
                            else {"op": "NE", "args": [var, {"op": "INT", "val": answer[k]}]})
        clause = {"op": "OR", "args": lits}
        extras.append(clause)
        remaining = [a for a in remaining if ev(clause, a)]
        if not remaining:
            models.append(None)
            return models, extras
        m = rng.choice(remaining)
        models.append(m)
        for k in prog["keys"]:
            if answer[k] is not None and answer[k] != m[k]:
                answer[k] = None


def record_conversations(jobs):
    from harness.export import program
    from harness.sexpr import parse_request
    from harness import session
    reqs, traces = [], []
    for tid, spec, seed, workdir in jobs:
        rng = random.Random(seed)
        prog = program(build_solver(spec))
        models, extras = _script(prog, rng)
        steps = [dict(st) for st in spec["steps"]] + [{"a": "solve"}]
        with Wire(workdir, script=[_finder_reply(prog["vars"], m) for m in models]) as w:
            events = session.run_scenario(steps, "sugar")
            conv = w.conversation()
        traces.append({"t": tid, "events": events})
        for j in range(max(len(conv), len(models))):
            rec = {"t": tid * 100 + j, "backend": "sugar", "status": "ok", "exc": "", "transport_ok": True, "lines": [],
                   "small": True, "mode": "find", "conv": tid, "pos": j,
                   "prog": {"vars": prog["vars"], "cons": prog["cons"] + extras[:j], "keys": prog["keys"]}}
            if j >= len(conv):
                rec["status"], rec["exc"] = "exc", "ExpectedFollowUpRequestNeverSent"
            elif j >= len(models):
                rec["status"], rec["exc"] = "exc", "RequestAfterTheSolverAnsweredUnsatisfiable"
            else:
                rec["transport_ok"] = conv[j]["ascii"]
                rec["lines"] = parse_request(conv[j]["text"])
                rec["text"] = conv[j]["text"][:2000]
            reqs.append(rec)
    return reqs, traces


# ---------------------------------------------------------------------------------------
# reply side

def feed_replies(jobs):
    from cspuz import Solver
    from harness.export import sol_of
    out = []
    for tid, case, name, workdir in jobs:
        s = Solver()
        vs = [s.bool_var() if k == "bool" else s.int_var(-20, 200) for k in case["kinds"]]
        if case["keys"]:
            s.add_answer_key([vs[k - 1] for k in case["keys"]])
        for v in vs:          # stale values from an earlier solve must not survive
            v.sol = (True if type(v).__name__ == "BoolVar" else 99)
        with Wire(workdir, reply_text=case["text"]):
            try:
                with warnings.catch_warnings():
                    warnings.simplefilter("ignore")
                    r = s.find_answer(name) if case["mode"] == "find" else s.solve(name)
                got = {"ret": r, "sol": [dict(zip(("ty", "b", "n"), t)) for t in zip(*[sol_of(vs)[k] for k in ("ty", "b", "n")])]}
            except Exception as e:  # noqa
                got = {"ret": "raised " + type(e).__name__, "sol": []}
        exp = {"ret": case["sat"], "sol": case["sol"]}
        if got != exp:
            out.append({"t": tid, "backend": name, "case": case, "observed": got})
    return out


def run(tier, seed):
    chk = Check(PID, tier, seed)
    rng = random.Random(seed + 33)
    from harness.gen_sessions import random_session
    # ---- requests
    specs = []
    for i in range(260 if tier == "quick" else 3000):
        steps = random_session(rng, "small", ("solve",), max_product=200)
        steps = [s for s in steps if s["a"] not in ("find_answer", "solve")]
        specs.append({"kind": "session", "steps": steps, "small": True})
    # explicit constant NODES (as count_true() of literals, fold_or([]) ... produce them) under every operator, negative,
    # zero and positive: the printer has its own branch for them
    V = lambda k: {"f": "var", "id": k}
    for n in (-3, -1, 0, 2):
        K = {"f": "iconst", "n": n}
        forms = [{"f": "eq", "args": [{"f": "neg", "args": [K]}, V(0)]},
                 {"f": "le", "args": [{"f": "add", "args": [K, V(0)]}, {"f": "ilit", "n": 3}]},
                 {"f": "ne", "args": [{"f": "sub", "args": [V(0), {"f": "neg", "args": [K]}]}, K]},
                 {"f": "ge", "args": [{"f": "cond", "args": [V(1), K, {"f": "neg", "args": [K]}]}, V(0)]},
                 {"f": "alldifferent", "args": [V(0), K, {"f": "neg", "args": [{"f": "neg", "args": [K]}]}]},
                 {"f": "iff", "args": [V(1), {"f": "bconst", "b": n >= 0}]},
                 {"f": "or", "args": [{"f": "not", "args": [{"f": "bconst", "b": n < 0}]}, V(1)]}]
        specs.append({"kind": "session", "small": True,
                      "steps": [{"a": "int_var", "lo": -4, "hi": 4}, {"a": "bool_var"}] + [{"a": "ensure", "x": f} for f in forms]
                      + [{"a": "add_key", "ids": [0, 1]}]})
    for h in ("conn", "cycle", "path", "borders", "borders-holes", "cross"):
        for prim in (True, False):
            if h == "path" and not prim:
                continue
            specs.append({"kind": "graph", "helper": h, "prim": prim, "small": False})
    specs.append({"kind": "graph", "helper": "conn", "prim": True, "acyclic": True, "small": False})
    jobs = []
    tid = 0
    for k, spec in enumerate(specs):
        for name in NAMES:
            sub = name in ("sugar", "sugar_extended")
            if sub and spec["kind"] == "session" and k % (6 if tier == "quick" else 20) != 0:
                continue          # the executable route costs a process per request: a sample
            for call in ("find_answer", "solve"):
                jobs.append((tid, spec, name, call, None, sub and k % 12 == 0))
                tid += 1
    parts = chunks(jobs, NPROC)
    for i, p in enumerate(parts):
        d = chk.dir / f"wire{i}"
        d.mkdir(exist_ok=True)
        parts[i] = [(a, b, c, e, str(d), g) for (a, b, c, e, _, g) in p]
    with RobustPool(NPROC) as pool:
        outs = pool.map(record_requests, parts)
    recs = [x for o in outs for x in o]
    path = chk.dir / "requests.ndjson"
    write_ndjson(path, [{k: v for k, v in r.items() if k != "text"} for r in recs])
    res = run_tlc("Trace_Sugar", "Trace_Sugar", workdir=chk.dir, env={"TRACE_FILE": str(path)}, timeout=3000)
    chk.add_tlc(res)
    if len(res.records) != len(recs):
        raise MachineryError(f"{len(recs)} requests but {len(res.records)} verdicts")
    byt = {r["t"]: r for r in recs}
    spec_of = {j[0]: j for j in jobs}
    for v in res.records:
        r = byt[v["t"]]
        chk.note_case(f"req/{v['t']}", len(r["prog"]["cons"]) >= 1)
        if v["verdict"] != "ok":
            chk.violation({"side": "request", "clause": v["verdict"], "backend": r["backend"]},
                          f"request of backend {r['backend']} ({r['mode']} mode): {v['verdict']}",
                          {"spec": spec_of[v["t"]][1], "backend": r["backend"], "call": spec_of[v["t"]][3],
                           "text": r.get("text", ""), "program": r["prog"]})
    chk.traces += len(recs)
    ex = next(r for r in recs if r["backend"] == "cspuz_core" and r["mode"] == "deduce" and len(r.get("text", "")) > 40)
    chk.sample({"request": ex["text"][:400], "backend": "cspuz_core", "mode": "deduce"})
    # ---- conversations (several requests per solve(): the refinement loop through the `sugar` executable)
    sess = [sp for sp in specs if sp["kind"] == "session"][: 64 if tier == "quick" else 640]
    cjobs = [(i, sp, seed * 1000 + i, None) for i, sp in enumerate(sess)]
    parts = chunks(cjobs, NPROC)
    for i, p in enumerate(parts):
        d = chk.dir / f"wire{i}"
        d.mkdir(exist_ok=True)
        parts[i] = [(a, b, c, str(d)) for (a, b, c, _) in p]
    with RobustPool(NPROC) as pool:
        outs = pool.map(record_conversations, parts)
    creqs = [x for o in outs for x in o[0]]
    ctraces = [x for o in outs for x in o[1]]
    cpath = chk.dir / "conversations.ndjson"
    write_ndjson(cpath, [{k: v for k, v in r.items() if k != "text"} for r in creqs])
    res = run_tlc("Trace_Sugar", "Trace_Sugar", workdir=chk.dir, env={"TRACE_FILE": str(cpath)}, timeout=3000)
    chk.add_tlc(res)
    if len(res.records) != len(creqs):
        raise MachineryError(f"{len(creqs)} conversation requests but {len(res.records)} verdicts")
    cby = {r["t"]: r for r in creqs}
    for v in res.records:
        r = cby[v["t"]]
        chk.note_case(f"conv/{v['t']}", r["pos"] >= 1)
        if v["verdict"] != "ok":
            chk.violation({"side": "request", "clause": v["verdict"], "backend": "sugar", "route": "conversation"},
                          f"request #{r['pos'] + 1} of one solve() through the sugar executable: {v['verdict']}",
                          {"spec": sess[r["conv"]], "backend": "sugar", "call": "solve", "request_no": r["pos"] + 1,
                           "text": r.get("text", ""), "expected_program": r["prog"]})
    from harness import sessions_check as S
    cverd = S.judge(chk, ctraces, "conversation_sessions")
    for tr in ctraces:
        v = cverd[tr["t"]]
        if v["verdict"] != "ok":
            chk.violation({"side": "conversation", "clause": v["verdict"], "backend": "sugar"},
                          f"solve() through the sugar executable answered by a correct stand-in: {v['verdict']}",
                          {"spec": sess[tr["t"]], "backend": "sugar", "rejected_event": tr["events"][v["k"] - 1]})
    chk.traces += len(creqs)
    chk.extra["conversations"] = len(ctraces)
    chk.extra["conversation_requests_judged"] = len(creqs)
    # ---- replies
    res2 = run_tlc("MC_SugarReply", "MC_SugarReply", workdir=chk.dir, timeout=900)
    chk.add_tlc(res2)
    cases = res2.records
    rjobs = []
    tid = 0
    for k, c in enumerate(cases):
        for name in NAMES:
            if c["mode"] == "deduce" and name == "sugar":
                continue          # sugar has no deduction mode (it goes through the refinement loop: C02)
            if name in ("sugar", "sugar_extended") and (k + seed) % (60 if tier == "quick" else 6) != 0:
                continue
            if tier == "quick" and name in MODULE_OF and (k + seed + len(name)) % 2:
                continue
            rjobs.append((tid, c, name, None))
            tid += 1
    parts = chunks(rjobs, NPROC)
    for i, p in enumerate(parts):
        d = chk.dir / f"wire{i}"
        d.mkdir(exist_ok=True)
        parts[i] = [(a, b, c, str(d)) for (a, b, c, _) in p]
    with RobustPool(NPROC) as pool:
        outs = pool.map(feed_replies, parts)
    for j in rjobs:
        chk.note_case(f"reply/{j[2]}/{json.dumps(j[1], sort_keys=True)}", len(j[1]["kinds"]) >= 2)
    for o in outs:
        for m in o:
            chk.violation({"side": "reply", "backend": m["backend"], "mode": m["case"]["mode"]},
                          f"reply parsed by backend {m['backend']} leaves the wrong sol / ret",
                          {"reply_text": m["case"]["text"], "kinds": m["case"]["kinds"], "keys": m["case"]["keys"],
                           "mode": m["case"]["mode"], "expected": {"ret": m["case"]["sat"], "sol": m["case"]["sol"]},
                           "observed": m["observed"], "backend": m["backend"]})
    chk.traces += len(rjobs)
    chk.sample({"reply_case": cases[len(cases) // 2]})
    chk.rule = ("request case = (Solver state, backend name, find_answer/solve); reply case = (variable kinds, keys, mode, "
                "sat, decided subset, printing order, backend name); non-trivial = at least one constraint / two variables")
    chk.extra["requests"] = len(recs)
    chk.extra["replies_fed"] = len(rjobs)
    chk.extra["reply_space"] = "all variable sequences of length 0..3 over {bool,int}, values {T,F} / {-12,0,7,105}, both modes, sat/unsat, every key subset and decided subset, two printing orders"
    chk.assumptions = ["decided up to the wire: the external solvers are not available offline; degenerate forms such as (||) get their neutral-element meaning",
                       "the tokenizer (harness/sexpr.py) is purely lexical; all meaning is assigned in SugarWire.tla"]
    return chk.finish()


def replay(path):
    """the recorded cases are printed; the verdict comes from re-running the check that found them, with the same tier and
    seed, on the current tree (the cases of this check depend on what ran before them in the same process, or need the
    TLC-computed expectations)"""
    data = json.loads(open(path).read())
    for c in data["cases"][:5]:
        print(json.dumps(c)[:600])
    return run(data.get("tier", "quick"), data.get("seed", 0))
