"""X01 (extended coverage, not a listed property) - Analyzer.analyze() follows spec/Analyzer.tla

TLC model-checks the analysis procedure (StepSound, ReasonsKnown, Progress, Partition, ExplMinimal, Complete,
NoneIffUnsat, Terminates) on every program of MC_Analyzer and exports each program with the result the procedure
must return; the real cspuz.analyzer.Analyzer is run on each of them with a complete brute-force backend
(harness/brute_backend.py) and must return exactly that."""
import contextlib
import io
import json
import multiprocessing as mp
from harness.par import RobustPool

from harness.common import Check, NPROC, chunks
from harness.tlc import run_tlc

PID = "X01"


def work(cases):
    from cspuz.analyzer import Analyzer
    from harness import dx as DX
    from harness.brute_backend import BruteBackend
    out = []
    for cid, c in cases:
        a = Analyzer()
        vs = [a.bool_var() if v["kind"] == "bool" else a.int_var(v["lo"], v["hi"]) for v in c["vars"]]
        for d in c["dax"]:
            a.ensure(DX.build(d, vs))
        for j, d in enumerate(c["dgroups"]):
            a.ensure(DX.build(d, vs), name=f"g{j + 1}")
        for k in c["keys"]:
            a.add_answer_key(vs[k - 1], name=f"v{k}")
        got = {"status": "ok", "exc": "", "none": False, "steps": []}
        try:
            with contextlib.redirect_stdout(io.StringIO()):
                # every 40th program through the multiprocessing path of analyze (candidates computed by a Pool)
                res = a.analyze(n_workers=2 if cid % 40 == 7 else -1, backend=BruteBackend)
            if res is None:
                got["none"] = True
            else:
                for new, cs, fs in res:
                    got["steps"].append({"new": [[n, type(v).__name__, v] for n, v in new], "cs": list(cs), "fs": list(fs)})
        except Exception as e:  # noqa
            got["status"], got["exc"] = "exc", type(e).__name__
        # the specified result, in the vocabulary of the real return value (names)
        exp = {"status": "ok", "exc": "", "none": c["none"], "steps": []}
        learnt = []
        for s in c["steps"]:
            new = [[f"v{f['var']}", "bool" if f["ty"] == "bool" else "int", f["b"] if f["ty"] == "bool" else f["n"]] for f in s["new"]]
            exp["steps"].append({"new": new, "cs": [f"g{j}" for j in s["cs"]], "fs": [learnt[i - 1] for i in s["fs"]]})
            learnt += [n for n, _, _ in new]
        if got != exp:
            out.append({"case": {k: c[k] for k in ("vars", "dax", "dgroups", "keys")}, "expected": exp, "observed": got})
    return out


def run(tier, seed):
    chk = Check(PID, tier, seed, evidence_dir="evidence_extended")
    res = run_tlc("MC_Analyzer", "MC_Analyzer", workdir=chk.dir, env={"TIER": tier}, timeout=3000)
    chk.add_tlc(res)
    cases = list(enumerate(res.records))
    with RobustPool(NPROC) as pool:
        outs = pool.map(work, chunks(cases, NPROC * 4))
    for _, c in cases:
        chk.note_case({k: c[k] for k in ("ax", "gs", "keys")}, len(c["steps"]) >= 2)
    for o in outs:
        for m in o:
            what = ("analyze raised " + m["observed"]["exc"]) if m["observed"]["status"] != "ok" else \
                "analyze returned a different explanation sequence than the specified procedure"
            chk.violation({"what": "raised" if m["observed"]["status"] != "ok" else "differs"}, what, m)
    chk.traces = len(cases)
    ex = next(c for _, c in cases if len(c["steps"]) >= 3)
    chk.sample({"dax": ex["dax"], "dgroups": ex["dgroups"], "keys": ex["keys"], "steps": ex["steps"]})
    chk.rule = "case = (axioms, named groups in order, answer keys); non-trivial = the explanation has at least two steps"
    chk.exhaustive = True
    chk.extra["space"] = "<= 1 axiom and 1..3 named groups (ascending pool order; thorough: descending too) from a pool of 10 driver expressions over 3 booleans and an integer 0..2; 4 answer-key choices"
    chk.extra["invariants_model_checked"] = ["StepSound", "ReasonsKnown", "Progress", "Partition", "ExplMinimal", "Complete", "NoneIffUnsat", "Terminates (liveness, weak fairness)"]
    chk.assumptions = ["n_workers=-1 (the sequential path of analyze) for most programs, n_workers=2 (candidates computed by a multiprocessing.Pool) for every 40th",
                       "the backend is a complete brute-force collaborator; integer facts stay inside CPython's small-int range "
                       "(analyze asserts `sol is val`, an identity test)"]
    return chk.finish()


def replay(path):
    """the recorded cases are printed; the verdict comes from re-running the check that found them, with the same tier and
    seed, on the current tree (the cases of this check depend on what ran before them in the same process, or need the
    TLC-computed expectations)"""
    data = json.loads(open(path).read())
    for c in data["cases"][:5]:
        print(json.dumps(c)[:600])
    return run(data.get("tier", "quick"), data.get("seed", 0))
