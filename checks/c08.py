"""C08 - not_adjacent / not_adjacent_and_not_segmenting match their graph definitions"""
from harness.common import Check
from harness import graph_check as GC
from harness.flag_family import run_family, replay_flags

PID = "C08"


def run(tier, seed):
    chk = Check(PID, tier, seed)
    recs = GC.tlc_cases(chk, "notseg", tier)
    jobs = []
    for r in recs:
        obj = r["obj"]
        n = obj["graph"]["n"]
        pats = list(range(2 ** n))
        forms = ["vars", "neg"] if obj["kind"] == "grid" else ["vars", "array", "neg"]
        fs = [forms[(seed + r["id"]) % len(forms)]] if tier == "quick" else forms
        big = n > 12
        for f in fs:
            jobs += GC.split_patterns({"family": "notadj", "obj": obj, "id": r["id"], "flip": GC.flip_of(seed, r["id"]), "form": f, "nflags": n,
                                       "patterns": pats, "expects": r["notadj"]})
            # not-segmenting: only patterns that are non-adjacent need the solver to tell; all are checked
            jobs += GC.split_patterns({"family": "notseg", "obj": obj, "id": r["id"], "flip": GC.flip_of(seed, r["id"]), "form": f, "nflags": n,
                                       "patterns": pats, "expects": r["notseg"]})
            if obj["kind"] == "grid" and not big:
                # the explicit-graph form on the corresponding grid graph must accept exactly the same patterns
                jobs += GC.split_patterns({"family": "notseg", "obj": obj, "id": r["id"], "flip": GC.flip_of(seed, r["id"]), "form": "array",
                                           "as_graph": True, "nflags": n, "patterns": pats, "expects": r["notseg"]})
    names = {"notadj": "active_vertices_not_adjacent", "notseg": "active_vertices_not_adjacent_and_not_segmenting"}
    run_family(chk, jobs, lambda j: names[j["family"]])
    large_patterns(chk, tier, seed, names)
    chk.sample({"obj": recs[-1]["obj"], "notseg": recs[-1]["notseg"][:16]})
    chk.rule = "case = (graph or grid, helper, form, activity pattern); non-trivial = at least 2 active vertices"
    chk.exhaustive = True
    chk.extra["space"] = "see spec/MC_Graph.tla NotSegObjs: graphs <=4 (quick) / <=5 (thorough) vertices, grids incl. 1xN and Nx1, all patterns"
    chk.extra["objects"] = len(recs)
    chk.assumptions = ["decided by the real z3 path; grid specialisation and explicit-graph form compared through the definition"]
    return chk.finish()


def chains(rng, h, w, n):
    """seeded long diagonal chains of active cells (no two orthogonally adjacent, each new cell diagonal to exactly one
    earlier cell): a long open chain that starts at the border and curls through the interior is what the rank range of
    the grid specialisation has to accommodate; chains that touch the border twice or close up are segmenting"""
    import sys
    sys.setrecursionlimit(10000)
    out = []
    for k in range(n):
        start = rng.choice([(0, x) for x in range(w)] + [(y, 0) for y in range(h)])
        best = []
        budget = [4000]

        def ok(c, used, interior_only):
            y, x = c
            if not (0 <= y < h and 0 <= x < w) or c in used:
                return False
            if interior_only and not (0 < y < h - 1 and 0 < x < w - 1):
                return False
            if any((y + dy, x + dx) in used for dy, dx in ((1, 0), (-1, 0), (0, 1), (0, -1))):
                return False
            return sum(1 for dy in (-1, 1) for dx in (-1, 1) if (y + dy, x + dx) in used) == 1

        def dfs(chain, used):
            nonlocal best
            budget[0] -= 1
            if len(chain) > len(best):
                best = list(chain)
            if budget[0] <= 0:
                return
            y, x = chain[-1]
            cand = [(y + dy, x + dx) for dy in (-1, 1) for dx in (-1, 1) if ok((y + dy, x + dx), used, True)]
            rng.shuffle(cand)
            for c in cand:
                chain.append(c)
                used.add(c)
                dfs(chain, used)
                used.discard(c)
                chain.pop()
                if budget[0] <= 0:
                    return
        dfs([start], {start})
        cells = sorted(y * w + x for (y, x) in best)
        out.append(cells)
        if k % 2 == 0 and len(best) > 3:          # the same chain extended by a cell on the border (if any fits): segmenting
            y, x = best[-1]
            used = set(best)
            extra = [(y + dy, x + dx) for dy in (-1, 1) for dx in (-1, 1) if ok((y + dy, x + dx), used, False)]
            if extra:
                e = rng.choice(extra)
                out.append(sorted(cells + [e[0] * w + e[1]]))
    return out


def large_patterns(chk, tier, seed, names):
    import random
    from harness.common import write_ndjson
    from harness.tlc import run_tlc, MachineryError
    from harness import graph_replay as GR
    rng = random.Random(seed + 808)
    recs = []
    shapes = [(7, 7), (7, 8)] if tier == "quick" else [(7, 7), (7, 8), (8, 7), (8, 8), (9, 9), (6, 10)]
    for (h, w) in shapes:
        for act in chains(rng, h, w, 4 if tier == "quick" else 30):
            recs.append({"t": len(recs), "h": h, "w": w, "active": act})
    # diagonal TREES (a cell with three or four active diagonal neighbours, arms extended): not chains
    for (h, w) in ([(4, 5), (5, 5)] if tier == "quick" else [(4, 5), (5, 4), (5, 5), (6, 6), (7, 7)]):
        for cy in range(1, h - 1):
            for cx in range(1, w - 1):
                arms = [(cy + dy, cx + dx) for dy in (-1, 1) for dx in (-1, 1)]
                for drop in (None, 0, 1, 2, 3):
                    cells = [(cy, cx)] + [a for i, a in enumerate(arms) if i != drop]
                    ext = [(y + (y - cy), x + (x - cx)) for (y, x) in cells[1:]]
                    for extra in ([], [e for e in ext if 0 <= e[0] < h and 0 <= e[1] < w][:2]):
                        act = sorted({y * w + x for (y, x) in cells + extra})
                        if (cy + cx + (drop or 0)) % (1 if tier != "quick" else 2) == 0:
                            recs.append({"t": len(recs), "h": h, "w": w, "active": act})
    path = chk.dir / "patterns.ndjson"
    write_ndjson(path, recs)
    res = run_tlc("Trace_Patterns", "Trace_Patterns", workdir=chk.dir, env={"TRACE_FILE": str(path)}, timeout=3000, workers=4)
    chk.add_tlc(res)
    if len(res.records) != len(recs):
        raise MachineryError("Trace_Patterns verdict count")
    verdict = {v["t"]: v for v in res.records}
    jobs = []
    for r in recs:
        h, w = r["h"], r["w"]
        n = h * w
        p = sum(1 << c for c in r["active"])
        obj = {"kind": "grid", "name": "grid", "h": h, "w": w, "graph": {"n": n, "edges": [[y * w + x, y * w + x + 1] for y in range(h) for x in range(w - 1)] + [[y * w + x, (y + 1) * w + x] for y in range(h - 1) for x in range(w)]}}
        for as_graph in (False, True):
            jobs.append({"family": "notseg", "obj": obj, "id": 100000 + r["t"], "form": "array" if as_graph else "vars", "as_graph": as_graph,
                         "nflags": n, "patterns": [p], "expects": [verdict[r["t"]]["notseg"]]})
    run_family(chk, jobs, lambda j: names[j["family"]])
    chk.traces += len(recs)
    chk.extra["large_grid_chain_patterns"] = len(recs)
    chk.extra["longest_chain"] = max(len(r["active"]) for r in recs)


def replay(path):
    return replay_flags(PID, path)
