"""C08 - not_adjacent / not_adjacent_and_not_segmenting match their graph definitions"""
from harness.common import Check
from harness import graph_check as GC
from harness.flag_family import run_family, replay_flags

PID = "C08"


def run(tier, seed):
    chk = Check(PID, tier, seed)
    recs = GC.tlc_cases(chk, "notseg", tier)
    jobs = []
    for r in recs:
        obj = r["obj"]
        n = obj["graph"]["n"]
        pats = list(range(2 ** n))
        forms = ["vars", "neg"] if obj["kind"] == "grid" else ["vars", "array", "neg"]
        fs = [forms[(seed + r["id"]) % len(forms)]] if tier == "quick" else forms
        big = n > 12
        for f in fs:
            jobs += GC.split_patterns({"family": "notadj", "obj": obj, "id": r["id"], "form": f, "nflags": n,
                                       "patterns": pats, "expects": r["notadj"]})
            # not-segmenting: only patterns that are non-adjacent need the solver to tell; all are checked
            jobs += GC.split_patterns({"family": "notseg", "obj": obj, "id": r["id"], "form": f, "nflags": n,
                                       "patterns": pats, "expects": r["notseg"]})
            if obj["kind"] == "grid" and not big:
                # the explicit-graph form on the corresponding grid graph must accept exactly the same patterns
                jobs += GC.split_patterns({"family": "notseg", "obj": obj, "id": r["id"], "form": "array",
                                           "as_graph": True, "nflags": n, "patterns": pats, "expects": r["notseg"]})
    names = {"notadj": "active_vertices_not_adjacent", "notseg": "active_vertices_not_adjacent_and_not_segmenting"}
    run_family(chk, jobs, lambda j: names[j["family"]])
    chk.sample({"obj": recs[-1]["obj"], "notseg": recs[-1]["notseg"][:16]})
    chk.rule = "case = (graph or grid, helper, form, activity pattern); non-trivial = at least 2 active vertices"
    chk.exhaustive = True
    chk.extra["space"] = "see spec/MC_Graph.tla NotSegObjs: graphs <=4 (quick) / <=5 (thorough) vertices, grids incl. 1xN and Nx1, all patterns"
    chk.extra["objects"] = len(recs)
    chk.assumptions = ["decided by the real z3 path; grid specialisation and explicit-graph form compared through the definition"]
    return chk.finish()


def replay(path):
    return replay_flags(PID, path)
