"""C13 - array indexing and slicing follow Python nested-list semantics

Three-way: spec/Indexing.tla (CPython slice arithmetic, enumerated by TLC) = real Python list-of-lists
indexing (validates the transcription against the reference the property names) = cspuz arrays."""
import json
import multiprocessing as mp
from harness.par import RobustPool

from harness.common import Check, NPROC, chunks
from harness.tlc import run_tlc, MachineryError

PID = "C13"


def comp(c):
    if c["k"] == "i":
        return c["i"]
    return slice(c["s"] if c["hs"] else None, c["e"] if c["he"] else None, c["t"] if c["ht"] else None)


def show(c):
    if c["k"] == "i":
        return str(c["i"])
    f = lambda has, v: str(v) if has else ""
    return f(c["hs"], c["s"]) + ":" + f(c["he"], c["e"]) + (":" + str(c["t"]) if c["ht"] else "")


def py_ref_1d(n, a):
    L = list(range(n))
    try:
        r = L[comp(a)]
    except IndexError:
        return {"err": True}
    return {"err": False, "dims": [] if isinstance(r, int) else [len(r)], "idx": [r] if isinstance(r, int) else r}


def py_ref_2d(h, w, a, b):
    rows = [[y * w + x for x in range(w)] for y in range(h)]
    ka, kb = comp(a), comp(b)
    try:
        if isinstance(ka, int):
            r = rows[ka][kb]
            if isinstance(kb, int):
                return {"err": False, "dims": [], "idx": [r]}
            return {"err": False, "dims": [len(r)], "idx": r}
        sel = rows[ka]
        if isinstance(kb, int):
            r = [row[kb] for row in sel]
            return {"err": False, "dims": [len(r)], "idx": r}
        if not sel:
            nx = len(list(range(w))[kb])
        else:
            nx = len(sel[0][kb])
        return {"err": False, "dims": [len(sel), nx], "idx": [v for row in sel for v in row[kb]]}
    except IndexError:
        return {"err": True}


def observe(arr, key):
    """cspuz result as {err, dims, idx}; variable ids are the flat positions (fresh Solver)"""
    try:
        r = arr[key]
    except IndexError:
        return {"err": True}
    except Exception as e:  # noqa
        return {"err": False, "raised": type(e).__name__}
    if hasattr(r, "shape"):
        if not isinstance(r.shape, tuple) or any(type(d) is not int for d in r.shape):
            # "the same resulting shape": a shape is a tuple of ints (a bool or a float in it prints and serialises differently)
            return {"err": False, "raised": "shape-is-not-a-tuple-of-ints:" + repr(r.shape)}
        return {"err": False, "dims": list(r.shape), "idx": [v.id for v in r.data]}
    return {"err": False, "dims": [], "idx": [r.id]}


def same(exp, got):
    if exp["err"]:
        return got["err"]
    return (not got["err"]) and got.get("dims") == exp["dims"] and got.get("idx") == exp["idx"]


def work(recs):
    from cspuz import Solver
    bad, n, nontriv = [], 0, 0
    spec_vs_python = []
    for rec in recs:
        if rec["kind"] == "1d":
            ln = rec["n"]
            for kind in ("bool", "int"):
                s = Solver()
                arr = s.bool_array(ln) if kind == "bool" else s.int_array(ln, 0, 3)
                for c in rec["cases"]:
                    exp = c["r"]
                    ref = py_ref_1d(ln, c["a"])
                    if not same(exp, ref):
                        spec_vs_python.append({"n": ln, "key": show(c["a"]), "spec": exp, "python": ref})
                    got = observe(arr, comp(c["a"]))
                    n += 1
                    nontriv += bool(exp["err"] or exp["idx"] or (c["a"]["k"] == "s" and c["a"]["ht"] and c["a"]["t"] < 0))
                    if not same(exp, got):
                        bad.append({"shape": [ln], "key": show(c["a"]), "elem": kind, "expected": exp, "observed": got,
                                    "sig": sig1(ln, c["a"], None)})
        elif rec["kind"] == "2d":
            h, w = rec["h"], rec["w"]
            s = Solver()
            arr = s.bool_array((h, w))
            for c in rec["cases"]:
                exp = c["r"]
                ref = py_ref_2d(h, w, c["a"], c["b"])
                if not exp["either"] and not same(exp, ref):
                    spec_vs_python.append({"shape": [h, w], "key": show(c["a"]) + "," + show(c["b"]), "spec": exp, "python": ref})
                got = observe(arr, (comp(c["a"]), comp(c["b"])))
                n += 1
                nontriv += bool(exp["err"] or exp["idx"])
                if exp["either"]:
                    ok = got["err"] or (got.get("idx") == [] and "raised" not in got)
                else:
                    ok = same(exp, got)
                if not ok:
                    bad.append({"shape": [h, w], "key": show(c["a"]) + ", " + show(c["b"]), "expected": exp, "observed": got,
                                "sig": sig1(h, c["a"], (w, c["b"]))})
        else:
            h, w = rec["h"], rec["w"]
            for kind in ("bool", "int"):
                s = Solver()
                arr = s.bool_array((h, w)) if kind == "bool" else s.int_array((h, w), 0, 3)
                for c in rec["singles"]:
                    exp = c["r"]
                    got = observe(arr, comp(c["a"]))
                    n += 1
                    nontriv += bool(exp["err"] or exp["idx"])
                    if not same(exp, got):
                        bad.append({"shape": [h, w], "key": show(c["a"]), "expected": exp, "observed": got,
                                    "sig": sig1(h, c["a"], None)})
                for c in rec["coords"]:
                    exp = c["r"]
                    got = observe(arr, [tuple(p) for p in c["cs"]])
                    n += 1
                    nontriv += 1
                    if not same(exp, got):
                        bad.append({"shape": [h, w], "key": "coords " + json.dumps(c["cs"]), "expected": exp, "observed": got,
                                    "sig": {"kind": "coords"}})
                # flatten / reshape keep row-major order
                flat = [v.id for v in arr.flatten().data]
                n += 1
                if flat != list(range(h * w)) if kind == "bool" else False:
                    bad.append({"shape": [h, w], "key": "flatten", "expected": list(range(h * w)), "observed": flat, "sig": {"kind": "flatten"}})
                base = min(v.id for v in arr.data) if arr.data else 0
                for p in range(1, h * w + 1):
                    if (h * w) % p == 0:
                        q = (h * w) // p
                        for src in (arr, arr.flatten()):
                            r = src.reshape((p, q))
                            n += 1
                            if list(r.shape) != [p, q] or [v.id - base for v in r.data] != list(range(h * w)) or \
                                    any(r[y, x].id - base != y * q + x for y in range(p) for x in range(q)):
                                bad.append({"shape": [h, w], "key": f"reshape({p},{q})", "expected": "row-major",
                                            "observed": [v.id - base for v in r.data], "sig": {"kind": "reshape"}})
                # a shape with another number of cells cannot preserve the elements: whatever reshape returns for it
                # (instead of refusing) has lost or invented elements
                for (p, q) in [(h, w - 1), (h - 1, w), (h + 1, w), (1, h * w - 1), (h * w + 1, 1), (0, w), (h, 0)]:
                    if p < 0 or q < 0 or p * q == h * w:
                        continue
                    for src in (arr, arr.flatten()):
                        n += 1
                        try:
                            r = src.reshape((p, q))
                        except Exception:  # noqa
                            continue
                        bad.append({"shape": [h, w], "key": f"reshape({p},{q})", "expected": "refused (other number of cells)",
                                    "observed": [v.id - base for v in r.data], "sig": {"kind": "reshape-wrong-size"}})
    # scale-up: more than 256 elements (row-major order does not depend on the size)
    for (h, w) in ((17, 17), (1, 289), (20, 15)):
        s = Solver()
        arr = s.bool_array((h, w))
        base = arr.data[0].id
        for (p, q) in ((h, w), (w, h), (1, h * w), (h * w, 1)):
            for src in (arr, arr.flatten()):
                n += 1
                try:
                    r = src.reshape((p, q))
                    got = [v.id - base for v in r.data]
                    ok = list(r.shape) == [p, q] and got == list(range(h * w)) and r[p - 1, q - 1].id - base == h * w - 1
                except Exception as e:  # noqa
                    ok, got = False, ["raised " + type(e).__name__]
                if not ok:
                    bad.append({"shape": [h, w], "key": f"reshape({p},{q})", "expected": "row-major", "observed": got[:20],
                                "sig": {"kind": "reshape-large"}})
    return bad, n, nontriv, spec_vs_python


def sig1(ln, a, rest):
    """signature used to match known findings: which kind of key misbehaves"""
    def one(ln, c):
        if c["k"] == "i":
            return "int"
        step = c["t"] if c["ht"] else 1
        oob = (c["hs"] and (c["s"] < 0 or c["s"] >= ln)) or (c["he"] and (c["e"] < 0 or c["e"] >= ln))
        return ("neg-step" if step < 0 else "pos-step") + ("-bound-negative-or-out-of-range" if oob else "")
    parts = [one(ln, a)]
    if rest:
        parts.append(one(rest[0], rest[1]))
    return {"kind": "slice", "components": sorted(set(parts))}


def run(tier, seed):
    chk = Check(PID, tier, seed)
    res = run_tlc("MC_Index", "MC_Index", workdir=chk.dir, env={"TIER": tier}, timeout=1800)
    chk.add_tlc(res)
    recs = res.records
    with RobustPool(NPROC) as pool:
        outs = pool.map(work, chunks(recs, NPROC * 4))
    nontriv = 0
    for bad, n, nt, svp in outs:
        chk.evaluations += n
        nontriv += nt
        if svp:
            raise MachineryError("spec/Indexing.tla disagrees with real Python list indexing: " + json.dumps(svp[:3]))
        for b in bad:
            sig = b.pop("sig")
            chk.violation(sig, f"array{b['shape']}[{b['key']}] differs from the nested-list result", b)
    chk.nontrivial_extra = nontriv
    chk.traces = chk.evaluations
    ex = next(r for r in recs if r["kind"] == "2d")
    c = ex["cases"][5]
    chk.sample({"shape": [ex["h"], ex["w"]], "key": show(c["a"]) + ", " + show(c["b"]), "expected": c["r"]})
    chk.rule = ("case = (shape, key); key = int | slice | pair | coordinate list (+ flatten/reshape); distinct by construction "
                "(TLC enumerates a set); non-trivial = selects at least one element or is an IndexError case or uses a negative step")
    chk.exhaustive = True
    chk.extra["space"] = ("1-D lengths 0..5 x {13 ints, 1372 slices: bounds None or -6..6, steps None or +-1..3}; 2-D shapes "
                          "(quick 5, thorough 25): full x 14 reduced components in both positions, single keys, coordinate lists, reshape")
    chk.assumptions = ["the spec's slice arithmetic is itself validated against CPython list indexing in the same run (machinery error otherwise)",
                       "a[s, j] with an empty row selection and an out-of-range j: IndexError or empty both accepted"]
    return chk.finish()


def replay(path):
    """the recorded cases are printed; the verdict comes from re-running the check that found them, with the same tier and
    seed, on the current tree (the cases of this check depend on what ran before them in the same process, or need the
    TLC-computed expectations)"""
    data = json.loads(open(path).read())
    for c in data["cases"][:5]:
        print(json.dumps(c)[:600])
    return run(data.get("tier", "quick"), data.get("seed", 0))
