"""C20 - the backend and encoding actually used are the ones configured

spec/Config.tla is the state machine environment -> Config() -> assignments -> per-call overrides; TLC explores it
completely (all environment values x importable module sets x assignments x overrides), checks its design-level
invariants, and every transition it takes is replayed on the real code with substituted modules / executable."""
import importlib
import json
import os
import sys
import types
import warnings

from harness.common import Check, canon
from harness.tlc import run_tlc

PID = "C20"
ENVS = {"envBackend": "CSPUZ_DEFAULT_BACKEND", "envPrim": "CSPUZ_USE_GRAPH_PRIMITIVE",
        "envDiv": "CSPUZ_USE_GRAPH_DIVISION_PRIMITIVE"}
MODULES = ["cspuz_core", "enigma_csp", "pycsugar", "z3"]


class Env:
    """temporarily sets environment variables and which solver modules can be imported"""

    def __init__(self, env, importable, calls=None):
        self.env, self.importable, self.calls = env, importable, calls
        self.broken = (len(json.dumps([env, sorted(importable)])) % 2 == 0)
        self.blocked = []
        outer = self

        class Finder:
            @staticmethod
            def find_spec(name, path=None, target=None):
                if name in outer.blocked:
                    raise ImportError("the extension module " + name + " is present but cannot be loaded")
                return None
        self.finder = Finder

    def __enter__(self):
        self.saved_env = {k: os.environ.get(k) for k in ENVS.values()}
        self.saved_mod = {m: sys.modules.get(m, "<absent>") for m in MODULES}
        for k, v in self.env.items():
            if v == "<unset>":
                os.environ.pop(ENVS[k], None)
            else:
                os.environ[ENVS[k]] = v
        for m in MODULES:
            if m in self.importable:
                if m == "z3" and self.saved_mod["z3"] not in ("<absent>", None):
                    continue
                fake = types.ModuleType(m)
                if self.calls is not None and m != "z3":
                    def solver(desc, _m=m):
                        self.calls.append((_m, desc))
                        return "unsat\n" if "\n#" in "\n" + desc else "s UNSATISFIABLE\n"
                    fake.solver = solver
                sys.modules[m] = fake
            elif self.broken:
                sys.modules.pop(m, None)   # present but broken: importing it raises a plain ImportError
                self.blocked.append(m)
            else:
                sys.modules[m] = None      # absent: import raises ModuleNotFoundError
        if self.blocked:
            sys.meta_path.insert(0, self.finder)
        return self

    def __exit__(self, *a):
        if self.finder in sys.meta_path:
            sys.meta_path.remove(self.finder)
        for k, v in self.saved_env.items():
            if v is None:
                os.environ.pop(k, None)
            else:
                os.environ[k] = v
        for m, v in self.saved_mod.items():
            if v == "<absent>":
                sys.modules.pop(m, None)
            else:
                sys.modules[m] = v


def replay_construct(o):
    from cspuz.configuration import Config
    with Env({k: o[k] for k in ENVS}, o["importable"]):
        try:
            c = Config(infer_from_env=o["infer"])
            got = {"error": False, "backend": c.default_backend, "prim": c.use_graph_primitive,
                   "divprim": c.use_graph_division_primitive}
        except ValueError:
            got = {"error": True, "backend": "", "prim": False, "divprim": False}
        except Exception as e:  # noqa
            got = {"error": "raised " + type(e).__name__}
    exp = {k: o[k] for k in ("error", "backend", "prim", "divprim")}
    return exp, got


def replay_dispatch(o, workdir):
    import cspuz
    from cspuz import Solver
    from cspuz.backend.backend import Backend
    cfg = cspuz.config
    saved = (cfg.default_backend, cfg.backend_path, cfg.use_graph_primitive, cfg.use_graph_division_primitive)
    calls = []
    seen_class = []

    class Recording(Backend):
        def __init__(self, variables):
            seen_class.append("init")

        def add_constraint(self, c):
            pass

        def solve(self):
            return False

        def solve_irrefutably(self, keys):
            return False

    for f in os.listdir(workdir):
        if f in ("request.txt", "argv.txt") or f.startswith(("request_", "reply_")):
            try:
                os.remove(os.path.join(workdir, f))
            except OSError:
                pass
    os.environ["FAKE_SUGAR_DIR"] = str(workdir)
    try:
        cfg.default_backend = o["cfg"]["backend"]
        cfg.backend_path = os.path.join(os.path.dirname(os.path.abspath(__file__)), "..", "harness", "fake_sugar.py")
        with Env({}, sorted(set(o.get("importable", MODULES)) | {"z3"}), calls):
            s = Solver()
            x = s.bool_var()
            s.ensure(x)
            s.add_answer_key(x)
            arg = None if o["arg"] == "<none>" else Recording if o["arg"] == "<class>" else o["arg"]
            try:
                with warnings.catch_warnings():
                    warnings.simplefilter("ignore")
                    r = s.solve(backend=arg)
                if seen_class:
                    got = "<class>"
                elif calls:
                    got = {"pycsugar": "csugar"}.get(calls[0][0], calls[0][0])
                elif os.path.exists(os.path.join(workdir, "request.txt")):
                    req = open(os.path.join(workdir, "request.txt")).read()
                    argv = open(os.path.join(workdir, "argv.txt")).read().split("\n")
                    got = "sugar_extended" if "\n#" in "\n" + req else "sugar"
                    if argv[1:] != ["/dev/stdin"]:
                        got += " (called with " + " ".join(argv[1:]) + ")"
                elif r is True and x.sol is True:
                    got = "z3"
                else:
                    got = "nothing observable"
            except ValueError:
                got = "ValueError"
            except ImportError:
                got = "ImportError" if not calls else "ImportError after a call reached " + calls[0][0]
            except Exception as e:  # noqa
                got = "raised " + type(e).__name__
            if calls and got == o["result"] and {"pycsugar": "csugar"}.get(calls[0][0], calls[0][0]) != got:
                got += " but the call went to " + calls[0][0]
    finally:
        cfg.default_backend, cfg.backend_path, cfg.use_graph_primitive, cfg.use_graph_division_primitive = saved
    return o["result"], got


def replay_graphcall(o):
    import cspuz
    from cspuz import Solver, graph as cg, BoolGridFrame
    from cspuz.grid_frame import BoolInnerGridFrame
    from harness.export import program
    cfg = cspuz.config
    saved = (cfg.use_graph_primitive, cfg.use_graph_division_primitive)
    cfg.use_graph_primitive, cfg.use_graph_division_primitive = o["cfg"]["prim"], o["cfg"]["divprim"]
    kw = {} if o["explicit"] == "none" else {"use_graph_primitive": o["explicit"] == "true"}
    h = o["helper"]
    # which encoding is used must not depend on the size of the object: every third call is made on a large one
    # (a path of 300 vertices, a 12x12 frame whose line graph has 312 vertices, a 17x17 board)
    big = len(json.dumps(o, sort_keys=True)) % 3 == 0
    n = 300 if big else 3
    fs = 12 if big else 1
    bs = 17 if big else 2
    try:
        s = Solver()
        g = cg.Graph(n)
        for i in range(n - 1):
            g.add_edge(i, i + 1)
        try:
            if h == "active_vertices_connected":
                cg.active_vertices_connected(s, s.bool_array(n), g, acyclic=o["acyclic"], **kw)
            elif h == "division_connected":
                cg.division_connected(s, s.int_array(n, 0, 1), 2, g)
            elif h == "active_edges_single_cycle":
                cg.active_edges_single_cycle(s, BoolGridFrame(s, fs, fs), **kw)
            elif h == "active_edges_single_path":
                cg.active_edges_single_path(s, s.bool_array(n - 1), g, **kw)
            elif h == "active_edges_connected_crossable":
                cg.active_edges_connected_crossable(s, BoolGridFrame(s, fs, fs), **kw)
            elif h == "not_adjacent_and_not_segmenting":
                cg.active_vertices_not_adjacent_and_not_segmenting(s, s.bool_array(n), g)
            elif h == "variable_groups_with_borders":
                cg.division_connected_variable_groups_with_borders(
                    s, group_size=s.int_array((bs, bs), 1, 4), is_border=BoolInnerGridFrame(s, bs, bs), **kw)
            ops = {c["op"] for c in program(s)["cons"]}
            got = bool(ops & {"GRAPH_ACTIVE_VERTICES_CONNECTED", "GRAPH_DIVISION"})
        except Exception as e:  # noqa
            got = "raised " + type(e).__name__
    finally:
        cfg.use_graph_primitive, cfg.use_graph_division_primitive = saved
    exp = o["native"]
    ok = got == exp or (h == "active_edges_single_path" and exp is False and got == "raised RuntimeError")
    return exp, got, ok


def run(tier, seed):
    chk = Check(PID, tier, seed)
    res = run_tlc("MC_Config", "MC_Config", workdir=chk.dir, timeout=900)
    chk.add_tlc(res)
    uniq = sorted({canon(r) for r in res.records})
    import cspuz  # noqa  (real z3 must already be imported before modules are masked)
    try:
        importlib.import_module("z3")
    except ImportError:
        pass
    for c in uniq:
        o = json.loads(c)
        if o["a"] == "construct":
            nondefault = o["envBackend"] != "<unset>" or o["envPrim"] != "<unset>" or o["envDiv"] != "<unset>" \
                or sorted(o["importable"]) != ["z3"]
            chk.note_case(c, nondefault)
            exp, got = replay_construct(o)
            if exp != got:
                chk.violation({"step": "construct", "what": [k for k in exp if got.get(k) != exp[k]]},
                              "Config() differs from the specification", {"step": o, "expected": exp, "observed": got})
        elif o["a"] == "dispatch":
            chk.note_case(c, True)
            exp, got = replay_dispatch(o, chk.dir)
            if exp != got:
                chk.violation({"step": "dispatch", "arg": o["arg"], "expected": exp},
                              f"solve(backend={o['arg']}) with default_backend={o['cfg']['backend']}: expected {exp}, observed {got}",
                              {"step": o, "expected": exp, "observed": got})
        else:
            chk.note_case(c, True)
            exp, got, ok = replay_graphcall(o)
            if not ok:
                chk.violation({"step": "graphcall", "helper": o["helper"], "acyclic": o["acyclic"]},
                              f"{o['helper']}(explicit={o['explicit']}, acyclic={o['acyclic']}) with flags "
                              f"{o['cfg']['prim']}/{o['cfg']['divprim']}: native expected {exp}, observed {got}",
                              {"step": o, "expected": exp, "observed": got})
    chk.traces = len(uniq)
    for a in ("construct", "dispatch", "graphcall"):
        chk.sample(next(json.loads(c) for c in uniq if json.loads(c)["a"] == a))
    chk.rule = ("case = one transition of Config.tla (Construct from an environment / Dispatch / GraphCall from a configuration "
                "state); non-trivial = environment, importable set, assignment or override differs from the default")
    chk.exhaustive = True
    chk.extra["space"] = ("CSPUZ_DEFAULT_BACKEND in {unset, auto, six names, bogus} x two boolean variables in {unset,1,0,true,False,"
                          "TRUE,yes,''} x all 16 importable sets x infer_from_env; every backend assignment x every per-call "
                          "argument (none, names, bogus, class); every flag pair x helper x explicit argument x acyclic")
    chk.assumptions = ["module availability simulated through sys.modules; sugar / sugar_extended observed through a stand-in executable",
                       "sugar and sugar_extended are distinguished by the answer-key line of a solve() request"]
    return chk.finish()


def replay(path):
    data = json.loads(open(path).read())
    for c in data["cases"]:
        print(json.dumps(c))
    print(f"VIOLATION property={PID} replay={path}")
    return 1
