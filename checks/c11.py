"""C11 - bundled puzzle solvers agree with the puzzles' published rules

spec/PuzzleRules.tla states each puzzle's rules over GraphDefs; spec/MC_Puzzle.tla enumerates problems on small
(non-square first) boards and computes, from the rules alone, whether a solution exists and which answer keys all
solutions agree on; the real solve_<puzzle> (z3) must report exactly that."""
import json
import multiprocessing as mp
from harness.par import RobustPool

from harness.common import Check, NPROC, chunks
from harness.tlc import run_tlc, MachineryError
from harness import puzzle_adapters as PA

PID = "C11"

# puzzle -> boards (h, w) for the quick tier (seeded sample of COUNT problems each) and the thorough tier (COUNT 0 = all)
PLAN = {
    "slitherlink": {"quick": [(1, 1, 0), (1, 3, 0), (3, 1, 0), (2, 2, 150), (2, 3, 80)], "thorough": [(1, 1, 0), (1, 3, 0), (3, 1, 0), (2, 2, 0), (2, 3, 6000), (3, 2, 3000)]},
    "masyu": {"quick": [(2, 2, 0), (2, 3, 120), (3, 2, 60), (3, 3, 80)], "thorough": [(2, 2, 0), (2, 3, 0), (3, 2, 0), (3, 3, 4000), (3, 4, 800)]},
    "yajilin": {"quick": [(2, 2, 120), (2, 3, 100), (3, 2, 60), (3, 3, 60)], "thorough": [(2, 2, 0), (2, 3, 6000), (3, 2, 3000), (3, 3, 2000)]},
    "simpleloop": {"quick": [(2, 2, 0), (2, 3, 120), (3, 3, 100)], "thorough": [(2, 2, 0), (2, 3, 0), (3, 2, 0), (3, 3, 0), (3, 4, 2000)]},
    "nurikabe": {"quick": [(1, 1, 0), (1, 3, 0), (3, 1, 0), (2, 3, 100), (3, 3, 80)], "thorough": [(1, 1, 0), (1, 3, 0), (3, 1, 0), (2, 2, 0), (2, 3, 6000), (3, 2, 3000), (3, 3, 3000)]},
    "nurikabe_low2": {"quick": [(1, 3, 0), (2, 3, 60), (3, 3, 60)], "thorough": [(1, 3, 0), (3, 1, 0), (2, 3, 3000), (3, 3, 2000)]},
    "nurikabe_low3": {"quick": [(2, 3, 60), (3, 3, 60)], "thorough": [(1, 3, 0), (2, 3, 3000), (3, 3, 2000)]},
    "norinori": {"quick": [(1, 3, 0), (2, 2, 0), (2, 3, 0), (3, 3, 120)], "thorough": [(1, 3, 0), (3, 1, 0), (2, 2, 0), (2, 3, 0), (3, 2, 0), (3, 3, 0), (2, 4, 0)]},
    "akari": {"quick": [(1, 3, 0), (3, 1, 0), (2, 3, 120), (3, 3, 80)], "thorough": [(1, 1, 0), (1, 3, 0), (3, 1, 0), (2, 2, 0), (2, 3, 6000), (3, 2, 3000), (3, 3, 3000)]},
    "starbattle": {"quick": [(1, 1, 0), (2, 2, 0), (3, 3, 0)], "thorough": [(1, 1, 0), (2, 2, 0), (3, 3, 0)]},
    "yinyang": {"quick": [(1, 3, 0), (3, 1, 0), (2, 3, 120), (3, 3, 80)], "thorough": [(1, 1, 0), (1, 3, 0), (3, 1, 0), (2, 2, 0), (2, 3, 0), (3, 2, 0), (3, 3, 4000), (3, 4, 1000)]},
    "creek": {"quick": [(1, 1, 0), (1, 2, 120), (2, 2, 100), (2, 3, 60)], "thorough": [(1, 1, 0), (1, 2, 6000), (2, 1, 3000), (2, 2, 4000), (2, 3, 2000), (3, 3, 1000)]},
    "heyawake": {"quick": [(1, 3, 0), (3, 1, 0), (2, 3, 0), (3, 3, 150)], "thorough": [(1, 3, 0), (3, 1, 0), (2, 2, 0), (2, 3, 0), (3, 2, 0), (3, 3, 0), (1, 5, 0)]},
    "lits": {"quick": [(2, 3, 0), (3, 3, 0), (2, 4, 150)], "thorough": [(2, 3, 0), (3, 2, 0), (3, 3, 0), (2, 4, 0), (4, 2, 0), (2, 5, 2000)]},
    "nurimisaki": {"quick": [(1, 3, 0), (3, 1, 0), (2, 3, 120), (3, 3, 80)], "thorough": [(1, 3, 0), (3, 1, 0), (2, 2, 0), (2, 3, 0), (3, 2, 0), (3, 3, 4000), (3, 4, 1000)]},
    "putteria": {"quick": [(1, 3, 0), (2, 2, 0), (2, 3, 0), (3, 3, 150)], "thorough": [(1, 3, 0), (3, 1, 0), (2, 2, 0), (2, 3, 0), (3, 2, 0), (3, 3, 0)]},
    "aquarium": {"quick": [(1, 3, 0), (3, 1, 0), (2, 3, 200), (3, 2, 100), (3, 3, 100)], "thorough": [(1, 3, 0), (3, 1, 0), (2, 2, 0), (2, 3, 0), (3, 2, 0), (3, 3, 3000)]},
    "sudoku": {"quick": [(1, 1, 0), (2, 2, 150)], "thorough": [(1, 1, 0), (2, 2, 6000)]},
    "building": {"quick": [(1, 1, 0), (2, 2, 0), (3, 3, 150), (4, 4, 60)], "thorough": [(1, 1, 0), (2, 2, 0), (3, 3, 6000), (4, 4, 3000)]},
    "doppelblock": {"quick": [(3, 3, 0), (4, 4, 150)], "thorough": [(3, 3, 0), (4, 4, 6000)]},
    "fillomino": {"quick": [(1, 3, 0), (3, 1, 0), (2, 3, 150), (3, 3, 80)], "thorough": [(1, 1, 0), (1, 3, 0), (3, 1, 0), (2, 2, 0), (2, 3, 6000), (3, 2, 3000), (3, 3, 4000)]},
    "view": {"quick": [(1, 3, 0), (3, 1, 0), (2, 3, 150), (3, 3, 80), (4, 4, 200)], "thorough": [(1, 3, 0), (3, 1, 0), (2, 2, 0), (2, 3, 0), (3, 2, 0), (3, 3, 6000)]},
    "geradeweg": {"quick": [(2, 2, 0), (2, 3, 150), (3, 3, 100)], "thorough": [(2, 2, 0), (2, 3, 0), (3, 2, 0), (3, 3, 6000), (3, 4, 1500)]},
    "castle_wall": {"quick": [(2, 2, 200), (2, 3, 150), (3, 3, 100)], "thorough": [(2, 2, 0), (2, 3, 8000), (3, 2, 4000), (3, 3, 4000)]},
    "compass": {"quick": [(1, 3, 150), (2, 2, 150), (2, 3, 120)], "thorough": [(1, 3, 0), (3, 1, 4000), (2, 2, 6000), (2, 3, 6000), (3, 2, 3000), (3, 3, 1500)]},
    "shakashaka": {"quick": [(1, 3, 0), (2, 2, 400), (2, 3, 60)], "thorough": [(1, 3, 0), (3, 1, 0), (2, 2, 0), (2, 3, 3000), (3, 2, 1500)]},
    # fivecells boards: (h, w, count, hole mask)
    "fivecells": {"quick": [(1, 5, 300, 0), (5, 1, 200, 0), (2, 3, 300, 32), (3, 2, 200, 1)],
                  "thorough": [(1, 5, 0, 0), (5, 1, 0, 0), (2, 3, 0, 32), (3, 2, 0, 1), (2, 5, 3000, 0), (5, 2, 1500, 0), (3, 4, 800, 2049)]},
    "gokigen": {"quick": [(1, 1, 0), (1, 2, 150), (2, 2, 100), (2, 3, 60)], "thorough": [(1, 1, 0), (1, 2, 6000), (2, 1, 3000), (2, 2, 4000), (2, 3, 2000), (3, 3, 600)]},
}


def run(tier, seed):
    chk = Check(PID, tier, seed)
    cases = []
    covered = {}
    # one single-worker TLC process per (puzzle, board), many at a time: these enumerator runs are dominated by the
    # evaluation of large constant sets, which TLC does fastest with one worker (measured: 12 s vs 92 s with 16)
    from concurrent.futures import ThreadPoolExecutor
    todo = [(pz,) + tuple(b) + ((0,) if len(b) == 3 else ()) for pz, plan in PLAN.items() for b in plan[tier]]

    def one(job):
        pz, h, w, cnt, holes = job
        try:
            return job, run_tlc("MC_Puzzle", "MC_Puzzle", workdir=chk.dir, timeout=2400, workers=1, heap="3g",
                                env={"PUZZLE": pz, "BH": h, "BW": w, "COUNT": cnt, "SEED": seed % 1000, "HOLEMASK": holes})
        except MachineryError as e:
            return job, e
    failed = []
    with ThreadPoolExecutor(max_workers=12) as ex:
        for (pz, h, w, cnt, holes), res in ex.map(one, todo):
            if isinstance(res, MachineryError):
                failed.append(f"{pz} {h}x{w}: {str(res)[:160]}")
                continue
            chk.add_tlc(res)
            cases += res.records
            covered.setdefault(pz, []).append(f"{h}x{w}:{len(res.records)}")
            chk.extra.setdefault("tlc_wall_s_per_board", {})[f"{pz} {h}x{w}"] = round(res.wall_s)
    if failed:
        raise MachineryError("TLC did not finish on %d board(s): " % len(failed) + " | ".join(failed))
    with RobustPool(NPROC) as pool:
        outs = pool.map(PA.work, chunks(cases, NPROC * 6))
    got = [x for o in outs for x in o]
    inconclusive = 0
    nsat = 0
    for c, g in zip(cases, got):
        nontriv = c["sat"] and 0 < sum(1 for f in c["facts"] if f >= 0)
        chk.note_case({k: c[k] for k in ("puzzle", "h", "w", "problem")}, bool(nontriv) or (not c["sat"] and any(v not in (-1, 0, -1000) for v in json.loads(json.dumps(c["problem"])) if isinstance(v, int))))
        nsat += bool(c["sat"])
        if g["sat"] == "inconclusive":
            inconclusive += 1
            continue
        if g["sat"] != c["sat"]:
            what = ("reports-a-solution-where-the-rules-admit-none" if g["sat"] is True else
                    "reports-no-solution-where-the-rules-admit-one" if g["sat"] is False else str(g["sat"]))
            chk.violation({"puzzle": c["puzzle"], "what": what, "shape": "square" if c["h"] == c["w"] else "non-square"},
                          f"solve_{c['puzzle']} on a {c['h']}x{c['w']} board: {what}",
                          {"puzzle": c["puzzle"], "h": c["h"], "w": c["w"], "problem": c["problem"], "rules_say_sat": c["sat"],
                           "number_of_solutions_by_the_rules": c["nsol"], "observed": g["sat"]})
        elif c["sat"] and g["facts"] != c["facts"]:
            k = next(i for i, (a, b) in enumerate(zip(g["facts"], c["facts"])) if a != b) if len(g["facts"]) == len(c["facts"]) else -1
            chk.violation({"puzzle": c["puzzle"], "what": "decided-cells-differ-from-the-cells-all-solutions-agree-on"},
                          f"solve_{c['puzzle']} on a {c['h']}x{c['w']} board: decided answer keys differ from the rules' common facts (key {k})",
                          {"puzzle": c["puzzle"], "h": c["h"], "w": c["w"], "problem": c["problem"], "expected_facts": c["facts"],
                           "observed_facts": g["facts"], "number_of_solutions_by_the_rules": c["nsol"]})
    chk.traces = len(cases)
    chk.extra["puzzles_covered"] = covered
    chk.extra["problems_with_a_solution"] = nsat
    chk.extra["inconclusive_z3_time_limit"] = inconclusive
    for pz in PLAN:
        ex = next((c for c in cases if c["puzzle"] == pz and c["sat"] and c["h"] * c["w"] >= 4), None)
        if ex:
            chk.sample({k: ex[k] for k in ("puzzle", "h", "w", "problem", "sat", "facts", "nsol")}, limit=30)
    chk.rule = ("case = (puzzle, board, problem); non-trivial = solvable with at least one decided key, or unsolvable with at least "
                "one clue")
    chk.exhaustive = tier != "quick"
    chk.extra["space"] = "per puzzle and board: every problem over the clue alphabet (COUNT 0) or a seeded sample; see PLAN in checks/c11.py"
    chk.assumptions = ["rules as published (library convention: no line at all is a loop); problems in the module's own format",
                       "z3 with the auxiliary-variable encodings is the solving path",
                       "puzzles not listed under puzzles_covered are not yet specified (see DESIGN.md)"]
    return chk.finish()


def replay(path):
    """re-runs the recorded problems on the current tree against the recorded rule verdicts"""
    data = json.loads(open(path).read())
    bad = 0
    for c in data["cases"]:
        sat, facts = PA.solve(c["puzzle"], c["h"], c["w"], c["problem"])
        still = (sat != c["rules_say_sat"]) if "rules_say_sat" in c else (sat is not True or facts != c["expected_facts"])
        print(json.dumps({"puzzle": c["puzzle"], "h": c["h"], "w": c["w"], "problem": c["problem"], "observed_sat": sat,
                          "observed_facts": facts, "expected": {k: c.get(k) for k in ("rules_say_sat", "expected_facts")},
                          "still_violated": bool(still)}))
        bad += bool(still)
    if bad:
        print(f"VIOLATION property={PID} replay={path}")
    return 1 if bad else 0
