"""X03 (extended coverage, not a listed property) - cspuz.graph.Graph follows spec/GraphSM.tla

Both directions of the binding:
(a) spec -> code: TLC explores every behaviour of add_edge on 3 vertices up to 4 edges (loops, parallel edges, both
    orientations; invariants IncSound / IncComplete / IncOrdered / DegreeSum, action property AppendOnly) and exports every
    reachable state; each is replayed into a real Graph and the projected state (edges, len, iteration, indexing,
    incident_edges) and line_graph() - and the line graph's own line graph - must be the specified ones.  The lattice
    builders _grid_graph / _from_grid_frame must produce the edges of GridEdges / FrameEdges (as a set; for frames paired with the right frame cells) for every
    size up to 4x4.
(b) code -> spec: random call sequences on real Graph(10) objects (add_edge, line_graph, observations, up to 40 edges)
    are recorded and validated event by event against GraphSM by spec/Trace_GraphSM.tla, the invariants being evaluated in
    every state along each trace."""
import json
import random

from harness.common import Check, write_ndjson
from harness.tlc import run_tlc, MachineryError

PID = "X03"
NV_TRACE = 10


def project(g):
    return {"edges": [list(e) for e in g.edges], "inc": [[list(p) for p in row] for row in g.incident_edges]}


def lg_pairs(edges):
    n = len(edges)
    return sorted([x, y] for x in range(n) for y in range(x + 1, n) if set(edges[x]) & set(edges[y]))


def check_graph_object(g, nv, edges):
    """the public read interface agrees with the projected state"""
    probs = []
    if g.num_vertices != nv:
        probs.append("num_vertices")
    if len(g) != len(edges):
        probs.append("len")
    if [list(e) for e in g] != edges:
        probs.append("iter")
    if [list(g[k]) for k in range(len(edges))] != edges:
        probs.append("getitem")
    if len(g.incident_edges) != nv:
        probs.append("incident_edges length")
    return probs


def replay_state(r):
    from cspuz.graph import Graph
    nv = len(r["inc"])
    g = Graph(nv)
    for i, j in r["edges"]:
        g.add_edge(i, j)
    got = project(g)
    exp = {"edges": r["edges"], "inc": r["inc"]}
    probs = check_graph_object(g, nv, r["edges"])
    if got != exp:
        probs.append(f"state: expected {exp}, observed {got}")
    lg = g.line_graph()
    pairs = sorted(sorted(e) for e in lg.edges)
    want = sorted([list(p) for p in r["lg"]] + [[e, e] for e in r["loops"]])
    if lg.num_vertices != len(r["edges"]):
        probs.append("line_graph: vertex count")
    if pairs != want:
        probs.append(f"line_graph: expected pairs {want}, observed {pairs}")
    if project(g) != exp:
        probs.append("line_graph changed the graph")
    # the returned object is a Graph of the same machine: its incidence lists must be the ones add_edge builds
    ref = Graph(lg.num_vertices)
    for a, b in lg.edges:
        ref.add_edge(a, b)
    if project(ref) != project(lg):
        probs.append("line_graph: result is not a state of the machine")
    if r["loopfree"]:
        lg2 = lg.line_graph()
        p2 = sorted(sorted(e) for e in lg2.edges)
        if p2 != lg_pairs([list(e) for e in lg.edges]) or lg2.num_vertices != len(lg.edges):
            probs.append("line_graph of the line graph")
    return probs


def replay_grid(r):
    """order and orientation of the edges are the builders' own business (the specification fixes the code's order, the
    comparison does not): what callers rely on is the set of lattice adjacencies, each once, and - for frames - that the
    k-th edge variable is the frame cell of the k-th graph edge"""
    from cspuz import Solver, BoolGridFrame
    from cspuz.graph import _grid_graph, _from_grid_frame
    probs = []
    h, w = r["h"], r["w"]
    g = _grid_graph(h, w)
    if g.num_vertices != h * w or sorted(sorted(e) for e in g.edges) != sorted(sorted(e) for e in r["edges"]):
        probs.append(f"_grid_graph({h},{w}): expected {r['edges']}, observed {g.edges}")
    s = Solver()
    fr = BoolGridFrame(s, h, w)
    evars, fg = _from_grid_frame(fr)
    want = {tuple(sorted(x["ends"])): id(fr[x["cell"][0], x["cell"][1]]) for x in r["frame"]}
    got = [(tuple(sorted(e)), id(v)) for e, v in zip(fg.edges, evars)]
    if fg.num_vertices != (h + 1) * (w + 1) or len(evars) != len(fg.edges) or len(got) != len(want) or dict(got) != want:
        probs.append(f"_from_grid_frame({h},{w}): the (lattice edge, frame cell) pairs are not the specified ones")
    return probs


def guarded(f, r):
    try:
        return f(r)
    except Exception as e:  # noqa - the code under test raised where the specification has a value
        return [f"raised {type(e).__name__}: {e}"]


def record_trace(tid, rng):
    """one random session on a real Graph(10); every event is logged after the call returns"""
    from cspuz.graph import Graph
    g = Graph(NV_TRACE)
    nv_used = rng.choice([2, 3, 5, 10])
    events = []
    for _ in range(rng.choice([3, 8, 20, 40])):
        c = rng.random()
        if c < 0.8:
            i, j = rng.randrange(nv_used), rng.randrange(nv_used)
            if rng.random() < 0.85 and i == j:      # loops now and then only
                j = (j + 1) % nv_used
            g.add_edge(i, j)
            events.append({"op": "add_edge", "i": i, "j": j, "nedges": len(g), "last": list(g[len(g) - 1]),
                           "inc_i": [list(p) for p in g.incident_edges[i]], "inc_j": [list(p) for p in g.incident_edges[j]]})
        elif c < 0.9:
            lg = g.line_graph()
            events.append({"op": "line_graph", "nv": lg.num_vertices, "pairs": [list(e) for e in lg]})
        else:
            events.append({"op": "observe", **project(g)})
    lg = g.line_graph()
    events.append({"op": "line_graph", "nv": lg.num_vertices, "pairs": [list(e) for e in lg]})
    events.append({"op": "observe", **project(g)})
    return {"tid": tid, "events": events}


def run(tier, seed):
    chk = Check(PID, tier, seed, evidence_dir="evidence_extended")
    # ---- (a) spec -> code
    res = run_tlc("MC_GraphSM", "MC_GraphSM", workdir=chk.dir, env={"TIER": tier}, timeout=1800)
    chk.add_tlc(res)
    nstate = ngrid = 0
    for r in res.records:
        if r["kind"] == "state":
            nstate += 1
            probs = guarded(replay_state, r)
            chk.note_case({"edges": r["edges"]}, len(r["edges"]) >= 2)
            sig = {"part": "state"}
        else:
            ngrid += 1
            probs = guarded(replay_grid, r)
            chk.note_case({"grid": [r["h"], r["w"]]}, r["h"] * r["w"] >= 2)
            sig = {"part": "grid"}
        if probs:
            chk.violation(sig, f"Graph vs GraphSM ({r['kind']}): {probs[0]}", {"case": r, "problems": probs})
    if nstate != res.distinct or ngrid != 16:
        raise MachineryError(f"MC_GraphSM export: {nstate} states for {res.distinct} distinct, {ngrid} grids")
    # ---- (b) code -> spec
    rng = random.Random(seed * 7919 + 3)
    ntr = 300 if tier == "quick" else 3000
    traces = [record_trace(t, rng) for t in range(ntr)]
    path = chk.dir / "graph_traces.ndjson"
    write_ndjson(path, traces)
    res2 = run_tlc("Trace_GraphSM", "Trace_GraphSM", workdir=chk.dir, env={"TRACE_FILE": str(path)}, timeout=3000)
    chk.add_tlc(res2)
    reached = {}
    for v in res2.records:
        reached[v["tid"]] = max(reached.get(v["tid"], 0), v["l"])
    if set(reached) != set(range(ntr)):
        raise MachineryError("Trace_GraphSM: a trace has no initial state")
    for tr in traces:
        n = len(tr["events"])
        chk.note_case(f"trace/{seed}/{tr['tid']}", n >= 5)
        if reached[tr["tid"]] != n:
            ev = tr["events"][reached[tr["tid"]]]
            chk.violation({"part": "trace", "op": ev["op"]},
                          f"trace {tr['tid']}: event {reached[tr['tid']] + 1} ({ev['op']}) is not a step of GraphSM from the state reached",
                          {"trace": tr, "matched_prefix": reached[tr["tid"]]})
    # ---- (c) the Graph objects of the repository's own test-suite, validated the same way
    import os
    import subprocess
    from harness.common import REPO, VERIF
    out = chk.dir / "repo_graphs.ndjson"
    if out.exists():
        out.unlink()
    env = dict(os.environ, CSPUZ_VERIF_GRAPH_RECORD=str(out), PYTHONPATH=f"{REPO}:{VERIF}")
    subprocess.run(["/venv/bin/python", "-m", "pytest", "-q", "-p", "no:cacheprovider", "-p", "harness.graph_recorder",
                    "--timeout=900", "tests"], cwd=str(REPO), env=env, capture_output=True, text=True, timeout=1800)
    if not out.exists():
        raise MachineryError("graph recorder wrote nothing")
    NVR = 40
    rtr, seen, skipped = [], set(), 0
    for line in open(out):
        t = json.loads(line)
        if t["nv"] > NVR or len(t["events"]) > 160 or any(len(e.get("pairs", [])) > 400 for e in t["events"]):
            skipped += 1
            continue
        key = json.dumps(t["events"], sort_keys=True)
        if (t["nv"], key) in seen:          # the suite builds the same small graphs again and again
            continue
        seen.add((t["nv"], key))
        for e in t["events"]:
            if e["op"] == "observe":
                e["inc"] = e["inc"] + [[] for _ in range(NVR - t["nv"])]
        t["tid"] = len(rtr)
        rtr.append(t)
        if len(rtr) >= (150 if tier == "quick" else 1500):
            break
    if not rtr:
        raise MachineryError("no Graph object of the repository tests was recorded")
    rpath = chk.dir / "repo_graph_traces.ndjson"
    write_ndjson(rpath, rtr)
    cfg = chk.dir / "Trace_GraphSM_repo.cfg"
    cfg.write_text(open(VERIF / "spec" / "Trace_GraphSM.cfg").read().replace("CONSTANT NV = 10", f"CONSTANT NV = {NVR}"))
    res3 = run_tlc("Trace_GraphSM", str(cfg), workdir=chk.dir, env={"TRACE_FILE": str(rpath)}, timeout=3000)
    chk.add_tlc(res3)
    reached = {}
    for v in res3.records:
        reached[v["tid"]] = max(reached.get(v["tid"], 0), v["l"])
    for tr in rtr:
        n = len(tr["events"])
        chk.note_case(f"repo-graph/{tr['tid']}", n >= 5)
        got = reached.get(tr["tid"], -1)
        if got != n:
            ev = tr["events"][max(got, 0)]
            chk.violation({"part": "repo-test-trace", "op": ev["op"]},
                          f"a Graph({tr['nv']}) built by the repository's tests: event {got + 1} ({ev['op']}) is not a step of GraphSM",
                          {"nv": tr["nv"], "events": tr["events"][:max(got, 0) + 1][-3:], "matched_prefix": got})
    chk.extra["repo_test_graph_objects_validated"] = len(rtr)
    chk.extra["repo_test_graph_objects_skipped_as_too_large"] = skipped
    chk.extra["repo_test_graph_events_validated"] = sum(len(t["events"]) for t in rtr)
    chk.traces = ntr + nstate + len(rtr)
    chk.sample(res.records[50])
    chk.sample({"tid": traces[0]["tid"], "events": traces[0]["events"][:3]})
    chk.rule = ("case = one reachable state of GraphSM replayed into Graph, one lattice size, or one recorded session of a real "
                "Graph validated by Trace_GraphSM; non-trivial = at least 2 edges / 2 cells / 5 events")
    chk.exhaustive = True
    chk.extra["invariants_model_checked"] = ["TypeOK", "IncSound", "IncComplete", "IncOrdered", "DegreeSum", "AppendOnly (action property)",
                                             "GridOK, FrameOK (lattice geometry of the builders, ASSUME)"]
    chk.extra["events_validated"] = sum(len(t["events"]) for t in traces)
    chk.assumptions = ["a loop makes line_graph() add the degenerate pair (e, e): modelled as the code does it (LineGraphLoops); "
                       "the statement 'joined iff the edges share an endpoint' is for distinct edges"]
    return chk.finish()


def replay(path):
    data = json.loads(open(path).read())
    for c in data["cases"][:5]:
        print(json.dumps(c)[:600])
    return run(data.get("tier", "quick"), data.get("seed", 0))
