"""C17 - decoding arbitrary text never crashes and only yields re-encodable problems"""
import json
import multiprocessing as mp
from harness.par import RobustPool

from harness.common import Check, NPROC, write_ndjson
from harness.tlc import run_tlc, MachineryError
from harness import fuzz

PID = "C17"


def frame_mutilations(pz):
    good = f"https://puzz.link/p?{pz}/2/2/"
    return ["", "x", "https://puzz.link/p?", f"https://puzz.link/p?{pz}", f"https://puzz.link/p?{pz}/2", f"https://puzz.link/p?{pz}/2/2",
            good, f"http://pzv.jp/p.html?{pz}/2/2/gg", f"https://puzz.link/p?{pz}/a/2/gg", f"https://puzz.link/p?{pz}/2/b/gg",
            f"https://puzz.link/p?{pz}/-2/2/gg", f"https://puzz.link/p?bogus/2/2/gg", f"https://puzz.link/p?/2/2/gg",
            f"ftp://puzz.link/p?{pz}/2/2/gg", f"https://puzz.link/q?{pz}/2/2/gg", f"https://puzz.link/p?{pz}/2/2/gg/extra/parts",
            f"https://puzz.link/p?{pz}/٢/2/gg", f"https://puzz.link/p?{pz}/2/2/" + "éあ",
            f"https://puzz.link/p?{pz}/99999999999999999999/2/g", f" https://puzz.link/p?{pz}/2/2/gg"]


def run(tier, seed):
    chk = Check(PID, tier, seed)
    maxlen = 4 if tier == "quick" else 5
    res = run_tlc("MC_Fuzz", "MC_Fuzz", workdir=chk.dir, env={"MAXLEN": maxlen}, timeout=1800)
    chk.add_tlc(res)
    texts = sorted({fuzz.text_of(r["s"]) for r in res.records})
    if len(texts) != sum(12 ** k for k in range(maxlen + 1)):
        raise MachineryError(f"expected all strings up to length {maxlen}, got {len(texts)}")
    url_sizes = [(1, 1), (2, 2), (3, 1), (1, 3), (2, 3)] if tier == "quick" else [(h, w) for h in (1, 2, 3) for w in (1, 2, 3)]
    comb_sizes = [(1, 1), (2, 2), (0, 2), (1, 3)] if tier == "quick" else [(h, w) for h in (0, 1, 2, 3) for w in (0, 1, 2, 3)]
    jobs = []
    B = 1200
    batches = [texts[i:i + B] for i in range(0, len(texts), B)]
    short = [t for t in texts if len(t) <= 3]
    for name in fuzz.url_decoders():
        for (h, w) in url_sizes:
            for b in batches:
                jobs.append(("url", name, h, w, b, None))
        jobs.append(("frame", name, 2, 2, frame_mutilations(fuzz.url_decoders()[name][0]), None))
    for (h, w) in url_sizes:
        for b in batches:
            jobs.append(("compass", "compass", h, w, b, None))
    for name in fuzz.combinators():
        for (h, w) in comb_sizes:
            for b in batches:
                jobs.append(("comb", name, h, w, b, False))
        jobs.append(("comb", name, 2, 2, short, True))
    # named large inputs: recursion depth and long runs
    zero_border = lambda h, w: "0" * (((w - 1) * h + 4) // 5 + ((h - 1) * w + 4) // 5)
    for name in ("lits", "norinori", "heyawake"):
        for (h, w) in ((60, 60), (1, 400), (400, 1)):
            jobs.append(("url", name, h, w, [zero_border(h, w), zero_border(h, w) + "g" * 5], None))
    for name in ("nurikabe", "sudoku", "slither"):
        jobs.append(("url", name, 40, 40, ["z" * 80, "z" * 79 + "5", "5" * 1600], None))
    def died(j):
        # the worker process itself was killed while decoding this batch (stack overflow / segmentation fault): the
        # worst kind of crash; reported for the batch (its first text is shown), judged by Trace_Fuzz like any raise
        return {"kind": j[0], "decoder": j[1], "h": j[2], "w": j[3], "n": len(j[4]), "n_none": 0, "n_valueerror": 0, "n_raised": 1,
                "outs": [{"k": 0, "outcome": "raised", "exc": "InterpreterDiedSomewhereInThisBatch", "dims_ok": True,
                          "reencode": "skipped", "exc2": "", "same": True}]}
    with RobustPool(NPROC) as pool:
        outs = pool.map(fuzz.job, jobs, chunksize=4, on_death=died)
    recs = []
    for t, (o, j) in enumerate(zip(outs, jobs)):
        o["t"] = t
        recs.append(o)
    # the judge reads its input as one JSON sequence: files of at most ~40 MB, one single-worker TLC run each, 6 at a time
    # (the thorough tier produces gigabytes of outcomes)
    files, cur, size = [], [], 0
    for r in recs:
        line = json.dumps(r, separators=(",", ":"))
        if cur and size + len(line) > 40_000_000:
            files.append(cur)
            cur, size = [], 0
        cur.append(line)
        size += len(line)
    if cur:
        files.append(cur)
    for old in chk.dir.glob("fuzz*.ndjson"):
        old.unlink()
    paths = []
    for k, lines in enumerate(files):
        path = chk.dir / f"fuzz_{k}.ndjson"
        path.write_text("\n".join(lines) + "\n")
        paths.append(path)
    from concurrent.futures import ThreadPoolExecutor
    with ThreadPoolExecutor(max_workers=6) as ex:
        results = list(ex.map(lambda pth: run_tlc("Trace_Fuzz", "Trace_Fuzz", workdir=chk.dir, env={"TRACE_FILE": str(pth)},
                                                  timeout=3000, workers=1, heap="4g"), paths))
    verdicts = []
    for res2 in results:
        chk.add_tlc(res2)
        verdicts += res2.records
    if len(verdicts) != len(recs):
        raise MachineryError(f"{len(recs)} fuzz batches but {len(verdicts)} verdicts")
    total = problems = 0
    for v in verdicts:
        rec, jb = recs[v["t"]], jobs[v["t"]]
        total += rec["n"]
        problems += sum(1 for o in rec["outs"] if o["outcome"] == "problem")
        for b in v["bad"]:
            o = rec["outs"][b["i"] - 1]
            text = jb[4][o["k"]]
            chk.violation({"decoder": rec["decoder"], "kind": rec["kind"], "clause": b["verdict"],
                           "big_board": rec["h"] * rec["w"] >= 400},
                          f"{rec['kind']} decoder {rec['decoder']} on a declared {rec['h']}x{rec['w']} board: {b['verdict']}",
                          {"decoder": rec["decoder"], "kind": rec["kind"], "h": rec["h"], "w": rec["w"],
                           "text": text if len(text) < 200 else text[:80] + f"...({len(text)} chars)", "outcome": o})
    chk.evaluations = total
    chk.nontrivial_extra = problems + sum(len(r["outs"]) for r in recs)
    chk.traces = len(recs)
    chk.extra["decode_calls"] = total
    chk.extra["inputs_that_decoded_to_a_problem"] = problems
    chk.sample({"decoder": "nurikabe", "declared": [2, 2], "text": "5g-0f"[:4], "note": "one of the enumerated bodies"})
    chk.sample({"frame_mutilations": frame_mutilations("nurikabe")[:6]})
    chk.rule = ("case = (decoder, declared size, text); texts = ALL strings up to the length bound over the 12-symbol alphabet; "
                "non-trivial counted = inputs that decode to a problem (re-encoded and re-decoded) or raise")
    chk.exhaustive = True
    chk.extra["space"] = f"all {len(texts)} strings of length <= {maxlen} over 0 1 5 f g z - + . / U+0663 A; 9 URL decoders + compass x board sizes; 15 library combinators x sizes (incl. zero) and every offset for strings <= 3; URL-frame mutilations; 60x60 / 1x400 / 400x1 boards"
    chk.assumptions = ["'arbitrary Unicode' is represented by one non-ASCII decimal digit in the alphabet and two non-ASCII letters in the frame mutilations",
                       "re-encoding is required only for boards with at least one cell; None and ValueError are classified by the harness (except ValueError), every other outcome is judged by TLC"]
    return chk.finish()


def replay(path):
    """the recorded cases are printed; the verdict comes from re-running the check that found them, with the same tier and
    seed, on the current tree (the cases of this check depend on what ran before them in the same process, or need the
    TLC-computed expectations)"""
    data = json.loads(open(path).read())
    for c in data["cases"][:5]:
        print(json.dumps(c)[:600])
    return run(data.get("tier", "quick"), data.get("seed", 0))
