"""C19 - problem generation is sound and reproducible under the deterministic PRNG

(i) spec/Prng.tla: TLC proves uniformity of rejection-sampling randint for every raw-source size D<=16 and the
    bijectivity of the Fisher-Yates shuffle for n<=5, and exports (D, a, b, raws) cases replayed into the real randint
    with a scripted raw source; real srandom calls with the real XorShift are recorded (raws as 16-bit limbs) and
    judged by spec/Trace_Prng.tla.
(ii) spec/Generator.tla + Trace_Gen.tla: runs of the real generate_problem with policy callbacks over tiny builder
    patterns (Choice, nested lists/tuples, ArrayBuilder2D with every option, SegmentationBuilder2D) are trace-validated:
    neighbour relation, soundness of the returned problem, no mutation; accept/reject decisions are inferred by TLC.
(iii) reproducibility: the same deterministic seed gives the same candidate sequence and result whatever Python's
    global random state and whichever z3 models the backend finds."""
import json
import os
import sys
import multiprocessing as mp
from harness.par import RobustPool
import random

from harness.common import Check, NPROC, chunks, write_ndjson, canon
from harness.tlc import run_tlc, MachineryError
from harness import gen_replay as GR

PID = "C19"


def z3_generate(args):
    """a real small generator (slitherlink clues on a 3x3 board, real z3) under the deterministic PRNG"""
    seed, pyseed, z3seed = args
    import random as pyrandom
    import z3
    from cspuz.generator import generate_problem, ArrayBuilder2D, Choice
    import cspuz.generator.srandom as srandom
    from cspuz.puzzle.slitherlink import solve_slitherlink
    z3.set_param("smt.random_seed", z3seed)
    z3.set_param("sat.random_seed", z3seed)
    z3.set_param("timeout", 60000)
    pyrandom.seed(pyseed)
    srandom.use_deterministic_prng(True, seed=seed)
    cands = []

    def solver(problem):
        cands.append([list(r) for r in problem])
        return solve_slitherlink(3, 3, problem)
    try:
        res = generate_problem(solver, builder_pattern=ArrayBuilder2D(3, 3, [-1, 0, 1, 2, 3], default=-1, symmetry=(seed % 2 == 0)),
                               max_steps=12)
    finally:
        srandom.use_deterministic_prng(False)
    return {"seed": seed, "cands": cands, "result": res}


def run(tier, seed):
    chk = Check(PID, tier, seed)
    # ---- (i) PRNG
    res = run_tlc("MC_Prng", "MC_Prng", workdir=chk.dir, timeout=1800)
    chk.add_tlc(res)
    nprng = 0
    for rec in res.records:
        bad = GR.replay_small_domain(rec)
        nprng += len(rec["cases"])
        for c in rec["cases"]:
            chk.note_case(f"prng/{rec['D']}/{rec['a']}/{rec['b']}/{c['raws']}", rec["b"] > rec["a"])
        for b in bad[:3]:
            chk.violation({"part": "prng", "what": "randint-differs-from-rejection-sampling", "a_nonzero": b["a"] != 0},
                          f"randint({b['a']},{b['b']}) over a raw source of size {b['D']} with draws {b['raws']}: "
                          f"expected {b['expected']}, observed {b['observed']}", b)
    jobs = [(i, seed * 100 + i, 400 if tier == "quick" else 2000) for i in range(16 if tier == "quick" else 64)]
    with RobustPool(NPROC) as pool:
        precs = pool.map(GR.record_real_prng, jobs)
    path = chk.dir / "prng.ndjson"
    write_ndjson(path, precs)
    res2 = run_tlc("Trace_Prng", "Trace_Prng", workdir=chk.dir, env={"TRACE_FILE": str(path)}, timeout=3000)
    chk.add_tlc(res2)
    if len(res2.records) != len(precs):
        raise MachineryError("Trace_Prng verdict count")
    for v in res2.records:
        rec = precs[v["t"]]
        for c in rec["calls"]:
            chk.note_case(f"prngcall/{rec['seed']}/{len(chk.nontrivial)}", True)
        if rec["any_wide"]:
            chk.violation({"part": "prng", "what": "raw-outside-32-bits"}, "XorShift.next() left the 32-bit range", {"seed": rec["seed"]})
        if v["verdict"] != "ok":
            c = rec["calls"][v["first_bad"] - 1]
            chk.violation({"part": "prng", "what": v["verdict"], "a_nonzero": c.get("a", 0) != 0},
                          f"{c['op']} with the real XorShift (seed {rec['seed']}): {v['verdict']}",
                          {"seed": rec["seed"], "call": c})
    chk.traces += len(precs)
    # ---- (ii) generate_problem runs
    rng = random.Random(seed + 77)
    gjobs = []
    names = list(GR.patterns())
    nruns = 700 if tier == "quick" else 8000
    for i in range(nruns):
        pname = names[i % len(names)]
        opts = {"p_pre": rng.choice([1, 0.7]), "p_sat": rng.choice([0.3, 0.6, 1]), "p_uniq": rng.choice([0, 0.1, 0.3]),
                "pretest": rng.random() < 0.4, "penalty": rng.random() < 0.4, "max_steps": rng.choice([1, 2, 4, 8, 20] if tier == "quick" else [1, 2, 4, 8, 20, None]) if i % 50 else 3,
                "solve_initial": rng.random() < 0.25, "temp": rng.choice([5.0, 0.05]), "explicit_neighbor": rng.random() < 0.2}
        if opts["max_steps"] is None and opts["p_uniq"] == 0:
            opts["max_steps"] = 6
        gjobs.append((i, pname, seed * 100000 + i, opts))
    with RobustPool(NPROC) as pool:
        runs = pool.map(GR.run_generate, gjobs, chunksize=8)
    ok_runs = [r for r in runs if r["status"] == "ok"]
    chk.extra["runs_that_modified_the_callers_initial_blocks (diagnostic)"] = sum(bool(r.get("callers_initial_blocks_modified")) for r in runs)
    for r in runs:
        if r["status"] != "ok":
            chk.violation({"part": "generate", "what": "raised", "exc": r["exc"], "pattern": r["pname"]},
                          f"generate_problem raised {r['exc']} on pattern {r['pname']}", {"pname": r["pname"], "seed": r["seed"], "opts": r["opts"]})
    from harness.tlc import run_tlc_chunked
    gen_results = run_tlc_chunked("Trace_Gen", [{k: r[k] for k in ("t", "pattern", "initial", "events")} for r in ok_runs],
                                  workdir=chk.dir, name="gen", chunk_bytes=8_000_000, parallel=4, timeout=3000, workers=4)
    gen_verdicts = []
    for res3 in gen_results:
        chk.add_tlc(res3)
        gen_verdicts += res3.records
    best = {}
    for v in gen_verdicts:
        b = best.get(v["t"])
        if b is None or (v["k"], v["why"] == "") > (b["k"], b["why"] == ""):
            best[v["t"]] = v
    if len(best) != len(ok_runs):
        raise MachineryError(f"{len(ok_runs)} generator runs but {len(best)} verdicts")
    byt = {r["t"]: r for r in ok_runs}
    for t, v in best.items():
        r = byt[t]
        chk.note_case(f"gen/{r['pname']}/{r['seed']}", len(r["candidates"]) >= 2)
        if not (v["k"] == v["n"] and v["why"] == ""):
            ev = r["events"][v["k"]] if v["k"] < len(r["events"]) else None
            chk.violation({"part": "generate", "what": v["why"], "pattern": r["pname"]},
                          f"generate_problem run on pattern {r['pname']} is not a behaviour of Generator.tla at event {v['k'] + 1}: {v['why']}",
                          {"pname": r["pname"], "seed": r["seed"], "opts": r["opts"], "initial": r["initial"],
                           "events_so_far": r["events"][max(0, v["k"] - 4):v["k"] + 1]})
    chk.traces += len(ok_runs)
    # ---- (iii) reproducibility
    rep = 0
    for r in ok_runs[:: 3 if tier == "quick" else 2]:
        j = (r["t"], r["pname"], r["seed"], dict(r["opts"], pyseed_shift=True))
        # same deterministic seed, a different state of Python's global random
        import random as pyrandom
        orig_seed = pyrandom.seed

        def shifted(s=None, _o=orig_seed):
            _o(None if s is None else s + 987654321)
        pyrandom.seed = shifted
        try:
            r2 = GR.run_generate(j)
        finally:
            pyrandom.seed = orig_seed
        rep += 1
        chk.note_case(f"repro/{r['pname']}/{r['seed']}", True)
        if r2["status"] != "ok" or r2["candidates"] != r["candidates"] or r2["events"][-1] != r["events"][-1] or r2["initial"] != r["initial"]:
            k = next((i for i, (a, b) in enumerate(zip(r["candidates"], r2.get("candidates", []))) if a != b), None)
            chk.violation({"part": "reproducibility", "pattern_kind": r["pattern"]["kind"], "what": "depends-on-python-global-random"},
                          f"pattern {r['pname']}: same deterministic seed, different Python random state -> different candidates",
                          {"pname": r["pname"], "seed": r["seed"], "opts": r["opts"], "first_difference_at_candidate": k,
                           "initial_a": r["initial"], "initial_b": r2.get("initial")})
    # a schedule of seeds in ONE process: re-seeding with a seed used before (0 included) must replay that run, whatever
    # was drawn in between
    for pname, reuse in (("A", False), ("G", False), ("H2", False), ("H3", False), ("G", True), ("H2", True), ("H3", True)):
        opts = {"p_pre": 1, "p_sat": 0.6, "p_uniq": 0.05, "pretest": False, "penalty": True, "max_steps": 6,
                "solve_initial": False, "temp": 5.0, "explicit_neighbor": False, "reuse": reuse}
        seen = {}
        for k, sd in enumerate([0, 7, 0, 12345, 0, 7, 12345]):
            r = GR.run_generate((k, pname, sd, opts))
            rep += 1
            chk.note_case(f"schedule/{pname}/{reuse}/{k}/{sd}", True)
            key = (r["status"], json.dumps(r.get("candidates")), json.dumps(r["events"][-1] if r.get("events") else None))
            if sd in seen and seen[sd] != key:
                chk.violation({"part": "reproducibility", "what": "re-seeding-does-not-replay", "seed_zero": sd == 0,
                               "same_builder_objects": reuse},
                              f"pattern {pname}: use_deterministic_prng(True, seed={sd}) a second time in the same process gives a different run",
                              {"pname": pname, "seed": sd, "position_in_schedule": k, "schedule": [0, 7, 0, 12345, 0, 7, 12345],
                               "same_builder_objects_for_every_run": reuse})
            seen.setdefault(sd, key)
    zjobs = []
    for s in range(3 if tier == "quick" else 12):
        zjobs += [(seed * 10 + s, 1, 1), (seed * 10 + s, 424242, 977)]
    with RobustPool(NPROC) as pool:
        zouts = pool.map(z3_generate, zjobs)
    for a, b in zip(zouts[0::2], zouts[1::2]):
        rep += 1
        chk.note_case(f"repro-z3/{a['seed']}", True)
        if a["cands"] != b["cands"] or a["result"] != b["result"]:
            chk.violation({"part": "reproducibility", "what": "depends-on-backend-model-or-global-random"},
                          "slitherlink 3x3 generator: same deterministic seed, different z3 seed / Python random state -> different run",
                          {"seed": a["seed"], "n_candidates": [len(a["cands"]), len(b["cands"])]})
    # fresh interpreters that differ only in PYTHONHASHSEED: string / bytes clue values, the same deterministic seed
    import subprocess
    from harness.common import REPO, VERIF
    from concurrent.futures import ThreadPoolExecutor
    hseeds = [0, 1, 2, 3] if tier == "quick" else list(range(12))

    def hrun(h):
        env = dict(os.environ, PYTHONHASHSEED=str(h), PYTHONPATH=str(REPO))
        p = subprocess.run([sys.executable, str(VERIF / "harness" / "hashseed_repro.py")], env=env, capture_output=True, text=True, timeout=600)
        if p.returncode != 0:
            raise MachineryError("hashseed_repro.py failed: " + p.stderr[-400:])
        return json.loads(p.stdout)
    with ThreadPoolExecutor(max_workers=len(hseeds)) as ex:
        houts = list(ex.map(hrun, hseeds))
    for h, out in zip(hseeds[1:], houts[1:]):
        for a, b in zip(houts[0], out):
            rep += 1
            chk.note_case(f"repro-hashseed/{h}/{a['pattern']}/{a['seed']}", True)
            if a != b:
                k = next((i for i, (x, y) in enumerate(zip(a["cands"], b["cands"])) if x != y), None)
                chk.violation({"part": "reproducibility", "what": "depends-on-interpreter-hash-seed"},
                              f"pattern {a['pattern']} (string-valued choices): same deterministic seed {a['seed']}, interpreters with "
                              f"PYTHONHASHSEED={hseeds[0]} and {h} -> different runs",
                              {"pattern": a["pattern"], "seed": a["seed"], "hashseeds": [hseeds[0], h], "first_difference_at_candidate": k,
                               "status": [a["status"], b["status"]], "result": [a["result"], b["result"]]})
    chk.extra["prng_spec_cases_replayed"] = nprng
    chk.extra["prng_real_calls_judged"] = sum(len(r["calls"]) for r in precs)
    chk.extra["generate_problem_runs_validated"] = len(ok_runs)
    chk.extra["callback_events_judged"] = sum(len(r["events"]) for r in ok_runs)
    chk.extra["reproducibility_pairs"] = rep
    chk.sample({"prng_case": {"D": res.records[0]["D"], "a": res.records[0]["a"], "b": res.records[0]["b"], "case": res.records[0]["cases"][-1]}})
    ex = next(r for r in ok_runs if len(r["events"]) > 6)
    chk.sample({"generate_run": {"pattern": ex["pattern"], "initial": ex["initial"], "events": ex["events"][:7]}})
    chk.rule = ("PRNG case = (D, a, b, raw draws) / one real call; generator case = one generate_problem run (pattern, seed, callback "
                "policy, options); non-trivial = at least 2 solver calls (PRNG: b > a)")
    chk.extra["space"] = "Prng: all D in {1,2,3,5,8,13,16} x w <= D x a in {-3,0,5} x all raw sequences of length <= 2 or 3; uniformity for every D <= 16 by TLC; patterns: " + ", ".join(names)
    chk.assumptions = ["the XorShift stream itself is not pinned; exp-based acceptance is not modelled (accept/reject inferred by TLC)",
                       "callbacks are deterministic functions of the problem asked about (as a real solver is)"]
    return chk.finish()


def replay(path):
    """the recorded cases are printed; the verdict comes from re-running the check that found them, with the same tier and
    seed, on the current tree (the cases of this check depend on what ran before them in the same process, or need the
    TLC-computed expectations)"""
    data = json.loads(open(path).read())
    for c in data["cases"][:5]:
        print(json.dumps(c)[:600])
    return run(data.get("tier", "quick"), data.get("seed", 0))
