"""C15 - serializer combinators round-trip every value they accept"""
import json
import multiprocessing as mp
from harness.par import RobustPool

from harness.common import Check, NPROC, chunks, write_ndjson
from harness.tlc import run_tlc, MachineryError

PID = "C15"


_COMB = {}


def work(cases):
    from cspuz import problem_serializer as PS
    from harness.ser_terms import build as build_fresh, to_py, to_json
    out = []

    def build(term):
        # one combinator object per term and worker process, used for every board and value of that term
        # (the way the puzzle modules use their module-level *_COMBINATOR objects): a combinator has no history
        k = json.dumps(term, sort_keys=True)
        if k not in _COMB:
            _COMB[k] = build_fresh(term)
        return _COMB[k]
    for cid, case in cases:
        rec = {"t": cid, "case": case, "ser": "ok", "des": "ok", "exc": "", "text": "", "consumed": 0, "decoded": case["v"]}
        try:
            comb = build(case["term"])
            env = PS.CombinatorEnv(height=case["h"], width=case["w"])
            value = case["v"] if case.get("raw") else to_py(case["term"], case["v"])
        except Exception as e:  # noqa
            raise RuntimeError(f"machinery: cannot build case {cid}: {e!r}")
        try:
            r = comb.serialize(env, [value], 0)
        except Exception as e:  # noqa
            rec["ser"], rec["exc"] = "raised", type(e).__name__
            out.append(rec)
            continue
        if r is None:
            rec["ser"] = "none"
            out.append(rec)
            continue
        rec["text"] = r[1]
        # the public entry points must agree with the combinator calls
        try:
            if PS.serialize_problem(comb, value, height=case["h"], width=case["w"]) != r[1]:
                rec["ser"], rec["exc"] = "raised", "serialize_problem_differs"
        except Exception as e:  # noqa
            rec["ser"], rec["exc"] = "raised", "serialize_problem:" + type(e).__name__
        try:
            d = comb.deserialize(env, r[1], 0)
        except Exception as e:  # noqa
            rec["des"], rec["exc"] = "raised", type(e).__name__
            out.append(rec)
            continue
        if d is None or len(d[1]) != 1:
            rec["des"] = "none"
            out.append(rec)
            continue
        rec["consumed"] = d[0]
        rec["decoded"] = to_json(d[1][0])
        out.append(rec)
    return out


def run(tier, seed):
    chk = Check(PID, tier, seed)
    res = run_tlc("MC_Serializer", "MC_Serializer", workdir=chk.dir, env={"TIER": tier}, timeout=3000)
    chk.add_tlc(res)
    cases = [(r["id"], r["case"]) for r in sorted(res.records, key=lambda r: r["id"])]
    spec = {r["id"]: r for r in res.records}
    # scale-up: rooms with more than 1000 cells (one room covering a 36x36 board; two halves of a 40x30 board; one row of
    # 1200 cells), Rooms and ValuedRooms; judged by the same round-trip clauses (the transcription is not run on them)
    nid = max(spec) + 1
    for (h, w, split) in ((36, 36, None), (40, 30, 15), (1, 1200, 700)):
        if split is None:
            rooms = [[[y, x] for y in range(h) for x in range(w)]]
        else:
            rooms = [[[y, x] for y in range(h) for x in range(w) if x < split], [[y, x] for y in range(h) for x in range(w) if x >= split]]
        cases.append((nid, {"fam": "rooms", "h": h, "w": w, "term": {"c": "Rooms"}, "v": rooms, "big": True}))
        spec[nid] = {"roundtrip": True, "text": "(not transcribed)", "accepted": True}
        nid += 1
        cases.append((nid, {"fam": "vrooms", "h": h, "w": w, "term": {"c": "ValuedRooms", "value": {"c": "HexInt"}},
                            "v": [rooms, [17 + i for i in range(len(rooms))]], "big": True}))
        spec[nid] = {"roundtrip": True, "text": "(not transcribed)", "accepted": True}
        nid += 1
    # compositions outside the transcribed families (judged by the round-trip clauses only): items that are zero characters
    # wide, a Dict in front of an alternative whose cells are lists
    hx = {"c": "HexInt"}
    seq0 = {"c": "Seq", "base": hx, "n": 0}
    extra = [
        ({"c": "Seq", "base": seq0, "n": 3}, 1, 1, [[], [], []]),
        ({"c": "Tupl", "elems": [hx, {"c": "Seq", "base": seq0, "n": 2}]}, 1, 1, ([5], [[[], []]])),
        ({"c": "Grid", "base": {"c": "OneOf", "choices": [{"c": "Dict", "before": ["wall"], "after": ["#"]}, {"c": "Seq", "base": hx, "n": 2}]},
          "fixed": False, "h": 0, "w": 0}, 2, 3, [["wall", [1, 2], "wall"], [[10, 0], "wall", [15, 15]]]),
        ({"c": "Seq", "base": {"c": "OneOf", "choices": [{"c": "Dict", "before": ["wall", "gap"], "after": ["#", "_"]},
                                                          {"c": "Seq", "base": hx, "n": 1}]}, "n": 4}, 1, 1, ["gap", [3], "wall", [0]]),
    ]
    for term, h, w, v in extra:
        cases.append((nid, {"fam": "extra", "h": h, "w": w, "term": term, "v": v, "big": True, "raw": True}))
        spec[nid] = {"roundtrip": True, "text": "(not transcribed)", "accepted": True}
        nid += 1
    with RobustPool(NPROC) as pool:
        outs = pool.map(work, chunks(cases, NPROC * 4))
    recs = [x for o in outs for x in o]
    path = chk.dir / "roundtrips.ndjson"
    write_ndjson(path, recs)
    res2 = run_tlc("Trace_Serializer", "Trace_Serializer", workdir=chk.dir, env={"TRACE_FILE": str(path)}, timeout=3000)
    chk.add_tlc(res2)
    if len(res2.records) != len(recs):
        raise MachineryError(f"{len(recs)} round trips but {len(res2.records)} verdicts")
    chk.traces = len(recs)
    obs = {r["t"]: r for r in recs}
    same_text = 0
    for cid, case in cases:
        chk.note_case(case, len(json.dumps(case["v"])) > 12)
    for v in res2.records:
        same_text += bool(v["same_text_as_transcription"])
        if v["verdict"] != "ok":
            o = obs[v["t"]]
            case = o["case"]
            chk.violation({"combinator": case["term"]["c"], "family": case["fam"], "clause": v["verdict"],
                           "single_row_or_column": case["h"] == 1 or case["w"] == 1,
                           "design_level_roundtrip": spec[v["t"]]["roundtrip"]},
                          f"{case['term']['c']} on a {case['h']}x{case['w']} board: {v['verdict']}",
                          {"case": case, "text": o["text"], "decoded": o["decoded"], "consumed": o["consumed"],
                           "spec_text": spec[v["t"]]["text"]})
    accepted_real = sum(1 for r in recs if r["ser"] == "ok")
    chk.extra["accepted_by_the_real_combinators"] = accepted_real
    chk.extra["real_text_equals_transcription_text (diagnostic)"] = same_text
    chk.extra["design_level: cases where the transcription itself does not round-trip"] = \
        sum(1 for r in res.records if r["accepted"] and not r["roundtrip"])
    chk.sample({"case": cases[10][1], "text": obs[cases[10][0]]["text"]})
    chk.sample({"case": next(c for _, c in cases if c["fam"] == "vrooms")})
    chk.rule = "case = (combinator term, board size, value); distinct JSON; non-trivial = a value with more than a couple of items"
    chk.exhaustive = True
    chk.extra["space"] = "see spec/MC_Serializer.tla: sequences/grids over boundary alphabets (15/16/255/256/4095, run lengths 19/20/21/40), all connected room partitions of boards up to 2x3 (3x3 thorough) in 4 orderings, valued rooms, tuples, nested alternatives"
    chk.assumptions = ["text is not compared with the transcription for the verdict (round trip is the property); ValueError from serialize = value not accepted",
                       "OneOf alternatives distinguishable by their leading character; Seq/Grid over item-consuming bases"]
    return chk.finish()


def replay(path):
    data = json.loads(open(path).read())
    cases = [(i, c["case"]) for i, c in enumerate(data["cases"])]
    for r in work(cases):
        print(json.dumps({k: r[k] for k in ("case", "ser", "des", "exc", "text", "consumed", "decoded")})[:900])
    print(f"VIOLATION property={PID} replay={path}")
    return 1
