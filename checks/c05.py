"""C05 - division_connected holds exactly for labelings whose classes are connected"""
import json

from harness.common import Check
from harness import graph_check as GC, graph_replay as GR
from harness.flag_family import direction

PID = "C05"


def run(tier, seed):
    chk = Check(PID, tier, seed)
    recs = GC.tlc_cases(chk, "div", tier)
    z3jobs, emitjobs = [], []
    for r in recs:
        if tier == "quick" and (r["id"] + seed) % 3 != 0 and r["obj"]["graph"]["n"] > 3:
            continue                      # quick: every small object, a seeded third of the larger ones
        n, R = r["obj"]["graph"]["n"], r["R"]
        base = {"obj": r["obj"], "id": r["id"], "flip": GC.flip_of(seed, r["id"]), "R": R, "rootsopt": r["rootsopt"], "roots": r["roots"],
                "allow_empty": r["allow_empty"], "form": ["array", "list"][(seed + r["id"]) % 2]}
        pats = list(range(R ** n))
        z3jobs += GC.split_patterns(dict(base, patterns=pats, expects=r["ok"]), 96)
        emitjobs.append(dict(base, expects=r["ok"]))
    import random
    from harness import scaleup
    z3jobs += scaleup.div_jobs(chk, tier, seed, random.Random(seed + 5))
    results = GC.pmap(GR.run_div, z3jobs)
    for job, mism in zip(z3jobs, results):
        n, R = job["obj"]["graph"]["n"], job["R"]
        for L in job["patterns"]:
            chk.note_case(f"div/{job['id']}/{L}", len(set(GR.digits_of(L, n, R))) >= 2)
        for m in mism:
            d = direction(m["observed"])
            chk.violation({"helper": "division_connected", "route": "z3", "kind": job["obj"]["kind"],
                           "rootsopt": job["rootsopt"], "allow_empty": job["allow_empty"], "direction": d},
                          f"division_connected {d} a labeling on which the definition says {m['expected']}",
                          dict({k: job[k] for k in ("obj", "R", "rootsopt", "roots", "allow_empty", "form")},
                               pattern=m["pattern"], labels=GR.digits_of(m["pattern"], n, R),
                               expected=m["expected"], observed=m["observed"]))
    emitted = GC.pmap(GR.emit_div, emitjobs)
    erecs = []
    for t, (job, e) in enumerate(zip(emitjobs, emitted)):
        e.update({"t": t, "expects": job["expects"]})
        erecs.append(e)
    verdicts = GC.judge_emits(chk, erecs, jobs=emitjobs, fallback=(GR.run_div, lambda j: GC.split_patterns(
        dict(j, prim=True, patterns=list(range(len(j["expects"])))), 96)))
    for t, job in enumerate(emitjobs):
        v = verdicts[t]
        chk.note_case(f"emit/div/{job['id']}", job["R"] >= 2)
        if v["verdict"] != "ok":
            n, R = job["obj"]["graph"]["n"], job["R"]
            chk.violation({"helper": "division_connected", "route": "primitive", "clause": v["verdict"],
                           "rootsopt": job["rootsopt"], "allow_empty": job["allow_empty"]},
                          f"native-primitive program of division_connected: {v['verdict']}",
                          dict({k: job[k] for k in ("obj", "R", "rootsopt", "roots", "allow_empty", "form")},
                               pattern=v["pattern"], labels=GR.digits_of(max(0, v["pattern"]), n, R), nbad=v["nbad"]))
    chk.note_case("grid-roots-int-raises-TypeError", True)
    if not GR.div_grid_int_root_raises():
        chk.violation({"helper": "division_connected", "route": "api"},
                      "an int in roots for the grid form did not raise TypeError", {})
    r = recs[len(recs) // 2]
    chk.sample({k: r[k] for k in ("obj", "R", "roots", "allow_empty")} | {"ok": r["ok"][:16]})
    chk.rule = "case = (graph or grid, num_regions, roots option, allow_empty_group, encoding, labeling); non-trivial = at least 2 labels used"
    chk.exhaustive = tier != "quick"
    chk.extra["space"] = "see spec/MC_Graph.tla DivObjs; all R^n labelings of each (object, R in 1..3, 4 roots options, allow_empty)"
    chk.extra["objects"] = len(recs)
    chk.assumptions = ["forest encoding decided by real z3; native encoding decided by TLC on the emitted program",
                       "label variables declared 0..num_regions-1"]
    return chk.finish()


def replay(path):
    data = json.loads(open(path).read())
    bad = 0
    for c in data["cases"]:
        if "obj" not in c:
            bad += 1
            continue
        job = dict(c, patterns=[c["pattern"]], expects=[c.get("expected", True)])
        mism = GR.run_div(job)
        print(json.dumps({"obj": c["obj"], "R": c["R"], "roots": c["roots"], "allow_empty": c["allow_empty"],
                          "labels": c["labels"], "expected": c.get("expected"), "observed": mism[0]["observed"] if mism else "as expected"}))
        bad += bool(mism) or "nbad" in c
    if bad:
        print(f"VIOLATION property={PID} replay={path}")
    return 1 if bad else 0
