#!/bin/sh
# Offline setup: parse every specification module, create the scratch directory.
cd "$(dirname "$0")" || exit 2
mkdir -p .work evidence
fail=0
for f in spec/*.tla; do
  out=$(cd spec && java -cp /opt/veriftools/tla/tla2tools.jar:/opt/veriftools/tla/CommunityModules-deps.jar tla2sany.SANY "$(basename "$f")" 2>&1)
  if echo "$out" | grep -qE "Semantic errors|Parse Error|Fatal errors|Could not find"; then
    echo "SANY failed on $f"; echo "$out" | tail -20; fail=1
  fi
done
/venv/bin/python -c "import z3, cspuz" 2>/dev/null || PYTHONPATH=/repo /venv/bin/python -c "import z3, cspuz" || { echo "python environment incomplete"; fail=1; }
[ $fail -eq 0 ] && echo "setup ok"
exit $fail
